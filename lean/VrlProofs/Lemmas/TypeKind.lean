import VrlModel.Lang.TypeSpec
import VrlProofs.Props.C19

/-! Kind-level facts used by the soundness proof of the type inference (C01/C02/C12): result
    membership `memR`, the C19 theorems repackaged under the decidable side conditions of
    `Lang.checks` (`unionOk`, `atOk`, `insertOk`, `mergeOk`), exact primitive kinds. -/

namespace Spec

/-- a result value seen as an optional location content: `null` under a kind that admits
    `undefined` may stand for "absent". -/
def asOpt (v : Value) (K : Kind) : Option Value := if mem v K then some v else none

theorem memR_iff (v : Value) (K : Kind) :
    memR v K = true ↔ mem v K = true ∨ (v = .null ∧ K.prim.undefined = true) := by
  unfold memR
  cases v <;> simp [BEq.beq, Value.beq]

theorem memR_of_mem {v : Value} {K : Kind} (h : mem v K = true) : memR v K = true := by
  simp [memR, h]

theorem memOpt_asOpt {v : Value} {K : Kind} (h : memR v K = true) : memOpt (asOpt v K) K = true := by
  unfold asOpt
  cases hm : mem v K with
  | true => simpa [memOpt] using hm
  | false =>
    rcases (memR_iff v K).mp h with h1 | ⟨_, h2⟩
    · rw [hm] at h1; cases h1
    · simpa [memOpt] using h2

theorem asOpt_getD {v : Value} {K : Kind} (h : memR v K = true) : (asOpt v K).getD .null = v := by
  unfold asOpt
  cases hm : mem v K with
  | true => simp
  | false =>
    rcases (memR_iff v K).mp h with h1 | ⟨h2, _⟩
    · rw [hm] at h1; cases h1
    · simp [h2]

/-- a result of kind `K` is a member of `K.upgrade_undefined()` -/
theorem mem_upgrade_of_memR {v : Value} {K : Kind} (h : memR v K = true) :
    mem v K.upgradeUndefined = true := by
  have := mem_upgradeUndefined (asOpt v K) K (memOpt_asOpt h)
  rwa [asOpt_getD h] at this

theorem memR_never (v : Value) (K : Kind) (h : K.isNever = true) : memR v K = false := by
  cases hr : memR v K with
  | false => rfl
  | true =>
    have := memOpt_not_never _ _ (memOpt_asOpt hr)
    rw [h] at this; cases this

/-! ### union -/

theorem mem_union_left' {v : Value} {A B : Kind} (ok : Lang.unionOk A B = true) (h : mem v A = true) :
    mem v (A.union B) = true := by
  simp only [Lang.unionOk, Bool.and_eq_true, Bool.not_eq_true'] at ok
  exact C19.mem_union_left v A B ok.1.1.1 ok.1.1.2 ok.1.2 ok.2 h

theorem mem_union_right' {v : Value} {A B : Kind} (ok : Lang.unionOk A B = true) (h : mem v B = true) :
    mem v (A.union B) = true := by
  simp only [Lang.unionOk, Bool.and_eq_true, Bool.not_eq_true'] at ok
  exact C19.mem_union_right v A B ok.1.1.1 ok.1.1.2 ok.1.2 ok.2 h

theorem union_undefined_left (A B : Kind) (h : A.prim.undefined = true) :
    (A.union B).prim.undefined = true := (mergeKeepF_sound _).undefL A B h

theorem union_undefined_right (A B : Kind) (h : B.prim.undefined = true) :
    (A.union B).prim.undefined = true := (mergeKeepF_sound _).undefR A B h

theorem memR_union_left {v : Value} {A B : Kind} (ok : Lang.unionOk A B = true) (h : memR v A = true) :
    memR v (A.union B) = true := by
  rcases (memR_iff v A).mp h with h1 | ⟨h1, h2⟩
  · exact memR_of_mem (mem_union_left' ok h1)
  · exact (memR_iff _ _).mpr (Or.inr ⟨h1, union_undefined_left A B h2⟩)

theorem memR_union_right {v : Value} {A B : Kind} (ok : Lang.unionOk A B = true) (h : memR v B = true) :
    memR v (A.union B) = true := by
  rcases (memR_iff v B).mp h with h1 | ⟨h1, h2⟩
  · exact memR_of_mem (mem_union_right' ok h1)
  · exact (memR_iff _ _).mpr (Or.inr ⟨h1, union_undefined_right A B h2⟩)

/-! ### exact primitive kinds -/

theorem memR_isBoolean {v : Value} {K : Kind} (hk : K.isBoolean = true) (h : memR v K = true) :
    ∃ b, v = .bool b := by
  cases K with
  | mk p a o =>
    cases a <;> cases o <;>
      simp [Kind.isBoolean, Kind.onlyPrim, Kind.hasArr, Kind.hasObj, Kind.prim, Prim.isEmpty] at hk
    cases v <;> simp_all [memR, mem, Kind.prim, Kind.hasArr, Kind.hasObj, BEq.beq, Value.beq]

theorem memR_isNull {v : Value} {K : Kind} (hk : K.isNull = true) (h : memR v K = true) :
    v = .null := by
  cases K with
  | mk p a o =>
    cases a <;> cases o <;>
      simp [Kind.isNull, Kind.onlyPrim, Kind.hasArr, Kind.hasObj, Kind.prim, Prim.isEmpty] at hk
    cases v <;> simp_all [memR, mem, Kind.prim, Kind.hasArr, Kind.hasObj, BEq.beq, Value.beq]

theorem memR_isBytes {v : Value} {K : Kind} (hk : K.isBytes = true) (h : memR v K = true) :
    ∃ b, v = .bytes b := by
  cases K with
  | mk p a o =>
    cases a <;> cases o <;>
      simp [Kind.isBytes, Kind.onlyPrim, Kind.hasArr, Kind.hasObj, Kind.prim, Prim.isEmpty] at hk
    cases v <;> simp_all [memR, mem, Kind.prim, Kind.hasArr, Kind.hasObj, BEq.beq, Value.beq]

theorem memR_isInteger {v : Value} {K : Kind} (hk : K.isInteger = true) (h : memR v K = true) :
    ∃ i, v = .int i := by
  cases K with
  | mk p a o =>
    cases a <;> cases o <;>
      simp [Kind.isInteger, Kind.onlyPrim, Kind.hasArr, Kind.hasObj, Kind.prim, Prim.isEmpty] at hk
    cases v <;> simp_all [memR, mem, Kind.prim, Kind.hasArr, Kind.hasObj, BEq.beq, Value.beq]

theorem memR_isFloat {v : Value} {K : Kind} (hk : K.isFloat = true) (h : memR v K = true) :
    ∃ b, v = .float b := by
  cases K with
  | mk p a o =>
    cases a <;> cases o <;>
      simp [Kind.isFloat, Kind.onlyPrim, Kind.hasArr, Kind.hasObj, Kind.prim, Prim.isEmpty] at hk
    cases v <;> simp_all [memR, mem, Kind.prim, Kind.hasArr, Kind.hasObj, BEq.beq, Value.beq]

theorem memR_isTimestamp {v : Value} {K : Kind} (hk : K.isTimestamp = true) (h : memR v K = true) :
    ∃ t, v = .ts t := by
  cases K with
  | mk p a o =>
    cases a <;> cases o <;>
      simp [Kind.isTimestamp, Kind.onlyPrim, Kind.hasArr, Kind.hasObj, Kind.prim, Prim.isEmpty] at hk
    cases v <;> simp_all [memR, mem, Kind.prim, Kind.hasArr, Kind.hasObj, BEq.beq, Value.beq]

theorem memR_isObject {v : Value} {K : Kind} (hk : K.isObject = true) (h : memR v K = true) :
    ∃ m, v = .obj m := by
  cases K with
  | mk p a o =>
    cases a <;>
      simp [Kind.isObject, Kind.hasArr, Kind.prim, Prim.isEmpty] at hk
    cases v <;> simp_all [memR, mem, Kind.prim, Kind.hasArr, BEq.beq, Value.beq]

/-- members of a kind made of primitive states only are scalars with that state -/
theorem mem_prim_only (v : Value) (p : Prim) : mem v (.mk p .none .none) = true →
    (match v with
     | .null => p.null | .bool _ => p.boolean | .int _ => p.integer | .float _ => p.float
     | .bytes _ => p.bytes | .ts _ => p.timestamp | .regex _ => p.regex
     | .arr _ => false | .obj _ => false) = true := by
  intro h
  cases v <;> simpa [mem, Kind.prim, Kind.hasArr, Kind.hasObj] using h

/-! ### `fallible_unless` with the primitive kinds used by `Op::type_info` -/

theorem superset_prim_sound (v : Value) (A K : Kind)
    (hA : A.anyUnknown Unknown.exactIsAny = false) (hs : A.isSuperset K = true)
    (h : memR v K = true) : memR v A = true := by
  rcases (memR_iff v K).mp h with h1 | ⟨h1, h2⟩
  · have := C19.superset_sound_partial v A K hA
    simp only [C19.supersetLawM, C19.supersetLaw, hs, h1, Bool.and_self, Bool.not_true,
      Bool.false_or] at this
    exact memR_of_mem this
  · -- `undefined` is a state like the others for `is_superset`
    subst h1
    refine (memR_iff _ _).mpr (Or.inr ⟨rfl, ?_⟩)
    unfold Kind.isSuperset at hs
    cases A with
    | mk p1 a1 o1 =>
      cases K with
      | mk p2 a2 o2 =>
        have hf : ∃ n, Kind.fuel (Kind.mk p1 a1 o1) (Kind.mk p2 a2 o2) = n + 1 := ⟨_, rfl⟩
        obtain ⟨n, hn⟩ := hf
        rw [hn] at hs
        simp only [Kind.isSupersetF, Bool.and_eq_true, Prim.sup, Bool.or_eq_true,
          Bool.not_eq_true'] at hs
        simp only [Kind.prim] at h2 ⊢
        rcases hs.1.1.2 with h | h
        · exact h
        · rw [h2] at h; cases h

end Spec

namespace Lang
open Spec

theorem nullBool_noExactAny : nullBool.anyUnknown Unknown.exactIsAny = false := by decide
theorem numKind_noExactAny : numKind.anyUnknown Unknown.exactIsAny = false := by decide
theorem bytesNull_noExactAny : bytesNull.anyUnknown Unknown.exactIsAny = false := by decide
theorem boolean_noExactAny : Kind.boolean.anyUnknown Unknown.exactIsAny = false := by decide

theorem memR_nullBool {v : Value} (h : memR v nullBool = true) : v = .null ∨ ∃ b, v = .bool b := by
  cases v <;> simp_all [memR, mem, nullBool, Kind.null, Kind.orBoolean, Kind.prim, Kind.hasArr,
    Kind.hasObj, BEq.beq, Value.beq]

theorem memR_numKind {v : Value} (h : memR v numKind = true) : (∃ i, v = .int i) ∨ ∃ b, v = .float b := by
  cases v <;> simp_all [memR, mem, numKind, Kind.integer, Kind.orFloat, Kind.prim, Kind.hasArr,
    Kind.hasObj, BEq.beq, Value.beq]

theorem memR_bytesNull {v : Value} (h : memR v bytesNull = true) : v = .null ∨ ∃ b, v = .bytes b := by
  cases v <;> simp_all [memR, mem, bytesNull, Kind.bytes, Kind.orNull, Kind.prim, Kind.hasArr,
    Kind.hasObj, BEq.beq, Value.beq]

end Lang
