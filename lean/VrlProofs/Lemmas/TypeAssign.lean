import VrlProofs.Lemmas.TypeState
import VrlProofs.Lemmas.TypePath

/-! `Target::insert` (run time) against `Target::insert_type_def` (type state). -/

namespace Lang
open Spec

theorem TState.getVar_setVar_same (T : TState) (n : String) (d : Details) :
    (T.setVar n d).getVar n = some d := Locals.get_set_same _ _ _

theorem TState.getVar_setVar_other (T : TState) (n m : String) (d : Details) (h : n ≠ m) :
    (T.setVar n d).getVar m = T.getVar m := Locals.get_set_other _ _ _ _ h

/-- inserting at the root replaces the kind by the (upgraded) kind of a member -/
theorem insert_root_kind {v : Value} {K X : Kind} (h : memR v X = true) :
    K.insert [] X = X.upgradeUndefined ∧ mem v (K.insert [] X) = true := by
  have hm := mem_upgrade_of_memR h
  have hn := not_never_of_mem v _ hm
  have : K.insert [] X = X.upgradeUndefined := by
    simp [Kind.insert, Kind.insertRec, hn]
  exact ⟨this, by rw [this]; exact hm⟩

/-- assigning a whole variable -/
theorem Conforms.setVar {s : St} {T : TState} {n : String} {v : Value} {d : Details} (hc : Conforms s T)
    (hv : mem v d.td.kind = true) (hvs : v.Sorted = true) (hcv : ∀ c, d.value = some c → v = c) :
    Conforms (s.setVar n v) (T.setVar n d) := by
  refine ⟨hc.faults, ?_, hc.event, hc.eventSorted, hc.metadata, hc.metadataSorted⟩
  intro m dm hm
  by_cases hnm : n = m
  · subst hnm
    rw [TState.getVar_setVar_same] at hm
    cases hm
    exact ⟨v, St.getVar_setVar_same s n v, hv, hvs, hcv⟩
  · rw [TState.getVar_setVar_other _ _ _ _ hnm] at hm
    obtain ⟨w, h1, h2⟩ := hc.vars m dm hm
    exact ⟨w, by rw [St.getVar_setVar_other _ _ _ _ hnm]; exact h1, h2⟩

theorem insertOk_of_checks {K : Kind} {p : Path} (h : AllNan (insertChecks K p)) : insertOk K p = true := by
  unfold insertChecks at h
  simp only [allNan_append] at h
  rw [allNan_chk (by decide), allNan_chk (by decide)] at h
  simp [insertOk, h.1, h.2]

theorem targetInsert_eq {s s' : St} (hf : s.faults = []) {m : Bool} {p : Path} {v : Value}
    (hi : s.targetInsert m p v = some s') :
    ∃ v' prev, (if m then s.metadata else s.event).insert p v = .ok (v', prev) ∧
      s'.vars = s.vars ∧ s'.faults = s.faults ∧
      (if m then s'.metadata = v' ∧ s'.event = s.event else s'.event = v' ∧ s'.metadata = s.metadata) := by
  unfold St.targetInsert St.tick at hi
  simp only [hf, List.contains_nil, Bool.false_eq_true, if_false] at hi
  cases hins : (if m = true then s.metadata else s.event).insert p v with
  | panic => rw [hins] at hi; cases hi
  | ok r =>
    obtain ⟨v', prev⟩ := r
    rw [hins] at hi
    simp only [Option.some.injEq] at hi
    refine ⟨v', prev, rfl, ?_⟩
    cases m <;> simp at hi ⊢ <;> subst hi <;> simp [hf]

/-- `Target::insert` keeps the run-time state inside `Target::insert_type_def` of the type state -/
theorem tgt_insert_conforms {s s' : St} {T : TState} (t : Tgt) (v : Value) (new : TypeDef)
    (c : Option Value) (hc : Conforms s T) (hv : memR v new.kind = true) (hvs : v.Sorted = true)
    (hcv : ∀ cv, c = some cv → v = cv) (hk : AllNan (tgtChecks t T)) (hi : t.insert v s = some s') :
    Conforms s' (t.insertTypeDef T new c) := by
  cases t with
  | noop =>
    simp only [Tgt.insert, Option.some.injEq] at hi
    subst hi
    exact hc
  | internal n p =>
    simp only [Tgt.insertTypeDef]
    refine Conforms.of_tstate (T := T.setVar n
      { td := (match T.getVar n with | none => TypeDef.never | some d => d.td).withTypeInserted p new,
        value := if p.isEmpty = true then c else none }) rfl rfl rfl ?_
    simp only [Tgt.insert] at hi
    by_cases hp : p.isEmpty = true
    · -- the whole variable
      have hp' : p = [] := by cases p <;> simp_all
      subst hp'
      simp only [List.isEmpty_nil, if_true, Option.some.injEq] at hi
      subst hi
      apply Conforms.setVar hc
      · exact (insert_root_kind (K := _) hv).2
      · exact hvs
      · intro cv hcv'; simp only [List.isEmpty_nil, if_true] at hcv'; exact hcv cv hcv'
    · -- a path inside the variable
      simp only [hp, Bool.false_eq_true, if_false] at hi ⊢
      simp only [tgtChecks] at hk
      cases hd : T.getVar n with
      | none =>
        rw [hd] at hk
        rw [allNan_chk (by decide)] at hk
        exact absurd hk hp
      | some d =>
        rw [hd] at hk
        have hk := insertOk_of_checks hk
        obtain ⟨v0, h1, h2, h3, _⟩ := hc.vars n d hd
        rw [h1] at hi
        simp only at hi
        cases hins : v0.insert p v with
        | panic => rw [hins] at hi; cases hi
        | ok r =>
          obtain ⟨v', prev⟩ := r
          rw [hins] at hi
          simp only [Option.some.injEq] at hi
          subst hi
          have := mem_insert h2 h3 hv hvs hk hins
          apply Conforms.setVar hc
          · exact this.1
          · exact this.2
          · intro cv h; cases h
  | external m p =>
    simp only [Tgt.insertTypeDef]
    simp only [tgtChecks] at hk
    have hk := insertOk_of_checks hk
    simp only [Tgt.insert] at hi
    obtain ⟨v', prev, hins, hvars, hfa, hrest⟩ := targetInsert_eq hc.faults hi
    cases m with
    | false =>
      simp only [Bool.false_eq_true, if_false] at hins hrest
      simp only [TState.extKind, Bool.false_eq_true, if_false] at hk
      have := mem_insert hc.event hc.eventSorted hv hvs hk hins
      refine ⟨by rw [hfa]; exact hc.faults, ?_, ?_, by rw [hrest.1]; exact this.2,
        by rw [hrest.2]; exact hc.metadata, by rw [hrest.2]; exact hc.metadataSorted⟩
      · intro n d hd
        obtain ⟨w, h1, h2⟩ := hc.vars n d hd
        exact ⟨w, by simpa [St.getVar, hvars] using h1, h2⟩
      · rw [hrest.1]; exact this.1
    | true =>
      simp only [if_true] at hins hrest
      simp only [TState.extKind, if_true] at hk
      have := mem_insert hc.metadata hc.metadataSorted hv hvs hk hins
      refine ⟨by rw [hfa]; exact hc.faults, ?_, by rw [hrest.2]; exact hc.event,
        by rw [hrest.2]; exact hc.eventSorted, ?_, by rw [hrest.1]; exact this.2⟩
      · intro n d hd
        obtain ⟨w, h1, h2⟩ := hc.vars n d hd
        exact ⟨w, by simpa [St.getVar, hvars] using h1, h2⟩
      · rw [hrest.1]; exact this.1

end Lang
