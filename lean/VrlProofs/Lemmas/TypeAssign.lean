import VrlProofs.Lemmas.TypeState
import VrlProofs.Lemmas.TypePath

/-! `Target::insert` (run time) against `Target::insert_type_def` (type state). -/

namespace Lang
open Spec

theorem TState.getVar_setVar_same (T : TState) (n : String) (d : Details) :
    (T.setVar n d).getVar n = some d := Locals.get_set_same _ _ _

theorem TState.getVar_setVar_other (T : TState) (n m : String) (d : Details) (h : n ≠ m) :
    (T.setVar n d).getVar m = T.getVar m := Locals.get_set_other _ _ _ _ h

/-- inserting at the root replaces the kind by the (upgraded) kind of a member -/
theorem insert_root_kind {v : Value} {K X : Kind} (h : memR v X = true) :
    K.insert [] X = X.upgradeUndefined ∧ mem v (K.insert [] X) = true := by
  have hm := mem_upgrade_of_memR h
  have hn := not_never_of_mem v _ hm
  have : K.insert [] X = X.upgradeUndefined := by
    simp [Kind.insert, Kind.insertRec, hn]
  exact ⟨this, by rw [this]; exact hm⟩

/-- assigning a whole variable -/
theorem Conforms.setVar {s : St} {T : TState} {n : String} {v : Value} {d : Details} (hc : Conforms s T)
    (hv : mem v d.td.kind = true) (hvs : v.Sorted = true) (hcv : ∀ c, d.value = some c → v = c) :
    Conforms (s.setVar n v) (T.setVar n d) := by
  refine ⟨hc.faults, ?_, hc.event, hc.eventSorted, hc.metadata, hc.metadataSorted, ?_⟩
  · intro m dm hm
    by_cases hnm : n = m
    · subst hnm
      rw [TState.getVar_setVar_same] at hm
      cases hm
      exact ⟨v, St.getVar_setVar_same s n v, hv, hvs, hcv⟩
    · rw [TState.getVar_setVar_other _ _ _ _ hnm] at hm
      obtain ⟨w, h1, h2⟩ := hc.vars m dm hm
      exact ⟨w, by rw [St.getVar_setVar_other _ _ _ _ hnm]; exact h1, h2⟩
  · intro m w hm
    by_cases hnm : n = m
    · subst hnm; left; rw [TState.getVar_setVar_same]; rfl
    · rw [St.getVar_setVar_other _ _ _ _ hnm] at hm
      rcases hc.closed m w hm with h | h
      · left; rw [TState.getVar_setVar_other _ _ _ _ hnm]; exact h
      · right; exact h

theorem insertOk_of_checks {K : Kind} {p : Path} (h : AllNan (insertChecks K p)) : insertOk K p = true := by
  unfold insertChecks at h
  simp only [allNan_append] at h
  rw [allNan_chk (by decide), allNan_chk (by decide)] at h
  simp [insertOk, h.1, h.2]

/-- a path assignment to a variable that does not exist creates it from nothing -/
theorem insertOpt_null_eq_none (p : Path) (hp : p ≠ []) (x : Value) :
    Value.insertOpt (some .null) p x = Value.insertOpt none p x := by
  cases p with
  | nil => exact absurd rfl hp
  | cons sg rest => cases sg <;> simp [Value.insertOpt, Value.asMap, Value.asList, VList.getIdx, VList.arrayIndex, VMap.get]

theorem insertRec_never_eq_undefined (p : Path) (hp : p ≠ []) (X : Kind) (hX : X.isNever = false) :
    Kind.never.insertRec p X = Kind.undefined.insertRec p X := by
  cases p with
  | nil => exact absurd rfl hp
  | cons sg rest => cases sg <;> simp [Kind.insertRec, Kind.object, Kind.array, Kind.never, Kind.undefined, hX]

theorem mem_insert_absent {x v' : Value} {prev : Option Value} {X : Kind} {p : Path} (hp : p ≠ [])
    (hx : memR x X = true) (hxs : x.Sorted = true) (ok : insertOk Kind.undefined p = true)
    (hi : Value.null.insert p x = .ok (v', prev)) :
    mem v' (Kind.never.insert p X) = true ∧ v'.Sorted = true := by
  refine ⟨?_, C18.insert_sorted .null p x v' prev rfl hxs hi⟩
  simp only [insertOk, insertClassOk, Bool.and_eq_true, Bool.not_eq_true'] at ok
  have := insertRec_sound p none Kind.undefined x X.upgradeUndefined rfl (by decide)
    (mem_upgrade_of_memR hx) ok.1 ok.2.1 ok.2.2
  unfold Value.insert at hi
  split at hi
  · cases hi
  · cases hi
    rw [insertOpt_null_eq_none p hp]
    simp only [Kind.insert]
    rw [insertRec_never_eq_undefined p hp _ (not_never_of_mem x _ (mem_upgrade_of_memR hx))]
    exact this

theorem targetInsert_eq {s s' : St} (hf : s.faults = []) {m : Bool} {p : Path} {v : Value}
    (hi : s.targetInsert m p v = some s') :
    ∃ v' prev, (if m then s.metadata else s.event).insert p v = .ok (v', prev) ∧
      s'.vars = s.vars ∧ s'.faults = s.faults ∧
      (if m then s'.metadata = v' ∧ s'.event = s.event else s'.event = v' ∧ s'.metadata = s.metadata) := by
  unfold St.targetInsert St.tick at hi
  simp only [hf, List.contains_nil, Bool.false_eq_true, if_false] at hi
  cases hins : (if m = true then s.metadata else s.event).insert p v with
  | panic => rw [hins] at hi; cases hi
  | ok r =>
    obtain ⟨v', prev⟩ := r
    rw [hins] at hi
    simp only [Option.some.injEq] at hi
    refine ⟨v', prev, rfl, ?_⟩
    cases m <;> simp at hi ⊢ <;> subst hi <;> simp [hf]

/-- `Target::insert` keeps the run-time state inside `Target::insert_type_def` of the type state -/
theorem tgt_insert_conforms {s s' : St} {T : TState} (t : Tgt) (v : Value) (new : TypeDef)
    (c : Option Value) (hc : Conforms s T) (hv : memR v new.kind = true) (hvs : v.Sorted = true)
    (hcv : ∀ cv, c = some cv → v = cv) (hk : AllNan (tgtChecks t T)) (hi : t.insert v s = some s') :
    Conforms s' (t.insertTypeDef T new c) := by
  cases t with
  | noop =>
    simp only [Tgt.insert, Option.some.injEq] at hi
    subst hi
    exact hc
  | internal n p =>
    simp only [Tgt.insertTypeDef]
    refine Conforms.of_tstate (T := T.setVar n
      { td := (match T.getVar n with | none => TypeDef.never | some d => d.td).withTypeInserted p new,
        value := if p.isEmpty = true then c else none }) rfl rfl rfl rfl ?_
    simp only [Tgt.insert] at hi
    by_cases hp : p.isEmpty = true
    · -- the whole variable
      have hp' : p = [] := by cases p <;> simp_all
      subst hp'
      simp only [List.isEmpty_nil, if_true, Option.some.injEq] at hi
      subst hi
      apply Conforms.setVar hc
      · exact (insert_root_kind (K := _) hv).2
      · exact hvs
      · intro cv hcv'; simp only [List.isEmpty_nil, if_true] at hcv'; exact hcv cv hcv'
    · -- a path inside the variable
      simp only [hp, Bool.false_eq_true, if_false] at hi ⊢
      simp only [tgtChecks] at hk
      cases hd : T.getVar n with
      | none =>
        -- the variable is not in scope and no block left one of that name alive: it is created
        rw [hd] at hk
        simp only [hp, Bool.false_eq_true, if_false, allNan_append] at hk
        rw [allNan_chk (by decide)] at hk
        have hnl : n ∉ T.leaked := by simpa using hk.1
        have hok := insertOk_of_checks hk.2
        have habs : s.getVar n = none := by
          cases hg : s.getVar n with
          | none => rfl
          | some w =>
            rcases hc.closed n w hg with h | h
            · rw [hd] at h; cases h
            · exact absurd h hnl
        rw [habs] at hi
        simp only at hi
        have hpne : p ≠ [] := by intro h; subst h; simp at hp
        cases hins : Value.null.insert p v with
        | panic => rw [hins] at hi; cases hi
        | ok r =>
          obtain ⟨v', prev⟩ := r
          rw [hins] at hi
          simp only [Option.some.injEq] at hi
          subst hi
          have := mem_insert_absent hpne hv hvs hok hins
          apply Conforms.setVar hc
          · exact this.1
          · exact this.2
          · intro cv h; cases h
      | some d =>
        rw [hd] at hk
        have hk := insertOk_of_checks hk
        obtain ⟨v0, h1, h2, h3, _⟩ := hc.vars n d hd
        rw [h1] at hi
        simp only at hi
        cases hins : v0.insert p v with
        | panic => rw [hins] at hi; cases hi
        | ok r =>
          obtain ⟨v', prev⟩ := r
          rw [hins] at hi
          simp only [Option.some.injEq] at hi
          subst hi
          have := mem_insert h2 h3 hv hvs hk hins
          apply Conforms.setVar hc
          · exact this.1
          · exact this.2
          · intro cv h; cases h
  | external m p =>
    simp only [Tgt.insertTypeDef]
    simp only [tgtChecks] at hk
    have hk := insertOk_of_checks hk
    simp only [Tgt.insert] at hi
    obtain ⟨v', prev, hins, hvars, hfa, hrest⟩ := targetInsert_eq hc.faults hi
    cases m with
    | false =>
      simp only [Bool.false_eq_true, if_false] at hins hrest
      simp only [TState.extKind, Bool.false_eq_true, if_false] at hk
      have := mem_insert hc.event hc.eventSorted hv hvs hk hins
      refine ⟨by rw [hfa]; exact hc.faults, ?_, ?_, by rw [hrest.1]; exact this.2,
        by rw [hrest.2]; exact hc.metadata, by rw [hrest.2]; exact hc.metadataSorted, ?_⟩
      · intro n d hd
        obtain ⟨w, h1, h2⟩ := hc.vars n d hd
        exact ⟨w, by simpa [St.getVar, hvars] using h1, h2⟩
      · rw [hrest.1]; exact this.1
      · intro n w hn
        exact hc.closed n w (by simpa [St.getVar, hvars] using hn)
    | true =>
      simp only [if_true] at hins hrest
      simp only [TState.extKind, if_true] at hk
      have := mem_insert hc.metadata hc.metadataSorted hv hvs hk hins
      refine ⟨by rw [hfa]; exact hc.faults, ?_, by rw [hrest.2]; exact hc.event,
        by rw [hrest.2]; exact hc.eventSorted, ?_, by rw [hrest.1]; exact this.2, ?_⟩
      · intro n d hd
        obtain ⟨w, h1, h2⟩ := hc.vars n d hd
        exact ⟨w, by simpa [St.getVar, hvars] using h1, h2⟩
      · rw [hrest.1]; exact this.1
      · intro n w hn
        exact hc.closed n w (by simpa [St.getVar, hvars] using hn)

end Lang
