//! C28 – string and collection functions obey their laws.
//! Correspondence ops `c28.<fn>`: the REAL stdlib function, called through a compiled VRL program
//! `<fn>!(kw: .a0, …)` whose argument values are taken from the event; arguments are wire values,
//! `-` = optional argument absent. Ops that depend on Unicode case mapping carry, as an observation,
//! the std tables (`char::to_uppercase/to_lowercase`, Final_Sigma class) restricted to the chars of
//! the inputs – the model's `CaseMap` parameter.
//! Oracle ops `o.c28.<law>`: observations of the implementation on which the Lean Spec predicates
//! of the C28 theorems are evaluated.
use crate::gens::*;
use crate::rng::Rng;
use crate::sink::{guarded, Reply, Sink};
use crate::vrlrun::run_vrl;
use crate::wire::*;
use std::collections::BTreeSet;
use vrl::value::{ObjectMap, Value};

/// (op suffix, function name, keywords)
const FNS: &[(&str, &str, &[&str])] = &[
    ("upcase", "upcase", &["value"]),
    ("downcase", "downcase", &["value"]),
    ("strip_whitespace", "strip_whitespace", &["value"]),
    ("split", "split", &["value", "pattern", "limit"]),
    ("join", "join", &["value", "separator"]),
    ("starts_with", "starts_with", &["value", "substring", "case_sensitive"]),
    ("ends_with", "ends_with", &["value", "substring", "case_sensitive"]),
    ("contains", "contains", &["value", "substring", "case_sensitive"]),
    ("truncate", "truncate", &["value", "limit", "suffix"]),
    ("strlen", "strlen", &["value"]),
    ("slice", "slice", &["value", "start", "end"]),
    ("unique", "unique", &["value"]),
    ("compact", "compact", &["value", "recursive", "null", "string", "object", "array", "nullish"]),
    ("keys", "keys", &["value"]),
    ("values", "values", &["value"]),
    ("length", "length", &["value"]),
    ("merge", "merge", &["to", "from", "deep"]),
];

const CASE_OPS: &[&str] = &["upcase", "downcase", "starts_with", "ends_with", "contains"];

fn parse_opt(s: &str) -> Option<Option<Value>> {
    if s == "-" { Some(None) } else { parse_value(s).map(Some) }
}

/// call `name!(kw: .aI, …)` on the real implementation; `Err(())` = runtime error, panics propagate
fn call_raw(name: &str, kws: &[&str], args: &[Option<Value>]) -> Result<Value, String> {
    let mut src = format!("{name}!(");
    let mut ev = ObjectMap::new();
    let mut first = true;
    for (i, (kw, a)) in kws.iter().zip(args).enumerate() {
        if let Some(v) = a {
            if !first {
                src.push_str(", ");
            }
            first = false;
            src.push_str(&format!("{kw}: .a{i}"));
            ev.insert(format!("a{i}").into(), v.clone());
        }
    }
    src.push(')');
    run_vrl(&src, Value::Object(ev))
}

/// canonical reply of a call: `ok <value>` | `err` | `panic` | `compile-error`
fn call(name: &str, kws: &[&str], args: &[Option<Value>]) -> String {
    match guarded(|| call_raw(name, kws, args)) {
        Ok(Ok(v)) => format!("ok\t{}", show_value(&v)),
        Ok(Err(e)) if e == "compile-error" => "compile-error".to_string(),
        Ok(Err(_)) => "err".to_string(),
        Err(_) => "panic".to_string(),
    }
}

fn call1(name: &str, v: &Value) -> String {
    call(name, &["value"], &[Some(v.clone())])
}

fn val_of(reply: &str) -> Option<Value> {
    reply.strip_prefix("ok\t").and_then(parse_value)
}

fn sigma_class(c: char) -> char {
    let t1 = format!("{c}Σ").to_lowercase().ends_with('ς');
    let t2 = format!("a{c}Σ").to_lowercase().ends_with('ς');
    if t1 { 'c' } else if t2 { 'i' } else { 'o' }
}

fn cps(it: impl Iterator<Item = char>) -> String {
    it.map(|c| format!("{:x}", c as u32)).collect::<Vec<_>>().join(".")
}

/// std case tables for the chars of the (lossily decoded) byte arguments
fn case_table(args: &[Option<Value>]) -> String {
    let mut set = BTreeSet::new();
    for a in args.iter().flatten() {
        if let Value::Bytes(b) = a {
            for c in String::from_utf8_lossy(b).chars() {
                if !c.is_ascii() {
                    set.insert(c);
                }
            }
        }
    }
    if set.is_empty() {
        return "-".to_string();
    }
    set.iter()
        .map(|&c| format!("{:x}:{}:{}:{}", c as u32, cps(c.to_uppercase()), cps(c.to_lowercase()), sigma_class(c)))
        .collect::<Vec<_>>()
        .join(" ")
}

fn bstr(v: &Value) -> Option<&[u8]> {
    match v {
        Value::Bytes(b) => Some(b.as_ref()),
        _ => None,
    }
}

pub fn exec(op: &str, a: &[String]) -> Option<Reply> {
    if let Some(name) = op.strip_prefix("c28.") {
        if name == "wsscan" {
            return scan(name, a);
        }
        let (_, f, kws) = FNS.iter().find(|(o, _, _)| *o == name)?;
        if a.len() != kws.len() {
            return None;
        }
        let args: Vec<Option<Value>> = a.iter().map(|s| parse_opt(s)).collect::<Option<_>>()?;
        args[0].as_ref()?;
        let reply = call(f, kws, &args);
        let obs = if CASE_OPS.contains(&name) { vec![case_table(&args)] } else { Vec::new() };
        return Some(Reply { obs, reply });
    }
    let law = op.strip_prefix("o.c28.")?;
    if law == "casemap" {
        return scan(law, a);
    }
    let args: Vec<Option<Value>> = a.iter().map(|s| parse_opt(s)).collect::<Option<_>>()?;
    let s = |i: usize| args.get(i).cloned().flatten();
    let obs: Vec<String> = match (law, args.len()) {
        // f(x), f(f(x))
        ("idem", 2) => {
            let f = String::from_utf8(bstr(&s(0)?)?.to_vec()).ok()?;
            if !["upcase", "downcase", "strip_whitespace", "camelcase", "pascalcase", "snakecase", "screamingsnakecase", "kebabcase", "unique", "compact"]
                .contains(&f.as_str())
            {
                return None;
            }
            let r1 = call1(&f, &s(1)?);
            let r2 = match val_of(&r1) {
                Some(v) => call1(&f, &v),
                None => "-".into(),
            };
            vec![r1, r2]
        }
        ("strip", 1) => vec![call1("strip_whitespace", &s(0)?)],
        // join(split(s, d), d)
        ("split_join", 3) => {
            let sp = call("split", &["value", "pattern", "limit"], &[s(0), s(1), s(2)]);
            let j = match val_of(&sp) {
                Some(v) => call("join", &["value", "separator"], &[Some(v), s(1)]),
                None => "-".into(),
            };
            vec![sp, j]
        }
        // sensitive: starts, ends, contains; insensitive: the same + downcase of both + the case table
        ("affix", 2) => {
            let k = &["value", "substring", "case_sensitive"];
            let mut o = Vec::new();
            for cs in [true, false] {
                for f in ["starts_with", "ends_with", "contains"] {
                    o.push(call(f, k, &[s(0), s(1), Some(Value::Boolean(cs))]));
                }
            }
            o.push(call1("downcase", &s(0)?));
            o.push(call1("downcase", &s(1)?));
            // std `char::to_lowercase` of the chars involved: which hypotheses of the case-insensitive
            // starts_with theorems the inputs meet
            o.push(case_table(&[s(0), s(1)]));
            o
        }
        // strlen(truncate(..)), strlen(suffix), truncate(..)
        ("truncate", 3) => {
            let t = call("truncate", &["value", "limit", "suffix"], &[s(0), s(1), s(2)]);
            let lt = match val_of(&t) {
                Some(v) => call1("strlen", &v),
                None => "-".into(),
            };
            let ls = match s(2) {
                Some(v) => call1("strlen", &v),
                None => "ok\ti:0".into(),
            };
            vec![lt, ls, t, call1("strlen", &s(0)?)]
        }
        ("strlen", 1) => vec![call1("strlen", &s(0)?)],
        ("slice", 3) => vec![call("slice", &["value", "start", "end"], &[s(0), s(1), s(2)])],
        ("unique", 1) => vec![call1("unique", &s(0)?)],
        ("compact", 7) => {
            vec![call("compact", &["value", "recursive", "null", "string", "object", "array", "nullish"], &args)]
        }
        ("kvl", 1) => vec![call1("keys", &s(0)?), call1("values", &s(0)?), call1("length", &s(0)?)],
        ("merge", 3) => vec![call("merge", &["to", "from", "deep"], &[s(0), s(1), s(2)])],
        _ => return None,
    };
    // tabs inside replies separate `ok` from the value: flatten to one field per observation
    Some(Reply::oracle(obs.into_iter().map(|r| r.replace('\t', " ")).collect()))
}

/// exhaustive scans over a block of scalar values `[lo, hi)` through one-char strings.
/// `c28.wsscan lo hi`   : the code points that `strip_whitespace` removes (reply, compared with the table);
/// `o.c28.casemap lo hi`: observation = for every code point c of the block that `upcase` or `downcase`
///                        changes: c, upcase(c), downcase(c), upcase(upcase(c)), downcase(downcase(c)), all
///                        through the real functions on one-char strings (the case-mapping law of the
///                        idempotence theorems, sampled exhaustively).
fn scan(name: &str, a: &[String]) -> Option<Reply> {
    let [lo, hi] = a else { return None };
    let (lo, hi): (u32, u32) = (lo.parse().ok()?, hi.parse().ok()?);
    let chars = (lo..hi).filter_map(char::from_u32);
    let one = |f: &str, s: &str| -> Option<String> {
        match call_raw(f, &["value"], &[Some(Value::from(s))]) {
            Ok(Value::Bytes(b)) => String::from_utf8(b.to_vec()).ok(),
            _ => None,
        }
    };
    if name == "wsscan" {
        let mut ws = Vec::new();
        for c in chars {
            if one("strip_whitespace", &c.to_string())?.is_empty() {
                ws.push(format!(" {:x}", c as u32));
            }
        }
        return Some(Reply::plain(format!("ws{}", ws.concat())));
    }
    let mut entries = Vec::new();
    let mut n = 0u32;
    for c in chars {
        n += 1;
        let u = one("upcase", &c.to_string())?;
        let l = one("downcase", &c.to_string())?;
        if u.chars().eq(std::iter::once(c)) && l.chars().eq(std::iter::once(c)) {
            continue;
        }
        let uu = one("upcase", &u)?;
        let ll = one("downcase", &l)?;
        entries.push(format!("{:x}:{}:{}:{}:{}", c as u32, cps(u.chars()), cps(l.chars()), cps(uu.chars()), cps(ll.chars())));
    }
    let obs = if entries.is_empty() { "-".to_string() } else { entries.join(" ") };
    Some(Reply::oracle(vec![n.to_string(), obs]))
}

// ---------------------------------------------------------------------------------------------
// generators

const PALETTE: &[&str] = &[
    "a", "b", "Z", "x", "I", "i", "S", "s", "0", "7", " ", " ", "\t", "\n", "\r", "\u{b}", "\u{c}", "\u{85}", "\u{a0}", "\u{1680}",
    "\u{2003}", "\u{200a}", "\u{2028}", "\u{2029}", "\u{202f}", "\u{205f}", "\u{3000}", "\u{200b}", "\u{feff}", "ß", "ẞ", "ǆ", "ǅ", "Ǆ",
    "İ", "ı", "Σ", "σ", "ς", "\u{301}", "\u{307}", "ﬁ", "ŉ", "😀", "\u{fffd}", "Ⱥ", "ⱥ", "'", ".", ":", "-", "_", "é", "É", "ΌΣΟΣ",
    "ΑΣ", "Ω", "ǰ", "ΐ", "և", "ᾳ", "ᾼ", "K", "Å", "µ", "ÿ", "Ÿ", "中", "𐐀", "𐐨", "\u{345}", "ab", "aB", ", ", "--", "fooBar", "XMLHttp",
];

const BAD: &[&[u8]] = &[
    b"\xff", b"\xc3", b"\xe2\x82", b"\xf0\x9f", b"\xf0\x9f\x98", b"\x80", b"\xbf", b"\xed\xa0\x80", b"\xc0\x80", b"\xe0\x80\x80",
    b"\xf4\x90\x80\x80", b"\xf5", b"\xc2", b"\xe0\xa0", b"\xf8\x88\x80\x80\x80",
];

pub fn gen_str(rng: &mut Rng, max: u64, bad: bool) -> Vec<u8> {
    let n = rng.below(max + 1);
    let mut v = Vec::new();
    for _ in 0..n {
        if bad && rng.chance(1, 6) {
            v.extend_from_slice(BAD[rng.below(BAD.len() as u64) as usize]);
        } else {
            v.extend_from_slice(rng.pick(PALETTE).as_bytes());
        }
    }
    v
}

fn bv(b: Vec<u8>) -> Value {
    Value::Bytes(b.into())
}

/// a string, or (rarely) a value of another type
fn str_or_other(rng: &mut Rng, max: u64) -> Value {
    if rng.chance(1, 25) {
        gen_value(rng, 1, SIMPLE_KEYS)
    } else {
        let bad = rng.chance(1, 4);
        bv(gen_str(rng, max, bad))
    }
}

fn opt(v: Option<&Value>) -> String {
    v.map_or("-".to_string(), show_value)
}

fn gen_limit(rng: &mut Rng) -> Value {
    match rng.below(10) {
        0 => Value::Integer(-1),
        1 => Value::Integer(i64::MAX),
        2 => Value::Integer(i64::MIN),
        3 => Value::Bytes("1".into()),
        _ => Value::Integer(rng.range(0, 6)),
    }
}

/// nested container with many "empty" members (for compact / unique / merge)
pub fn gen_coll(rng: &mut Rng, depth: u32) -> Value {
    let leaf = |rng: &mut Rng| match rng.below(14) {
        0 => Value::Null,
        1 => bv(vec![]),
        2 => bv(b"-".to_vec()),
        3 => bv(b" \t".to_vec()),
        4 => bv("\u{a0}\u{3000}".as_bytes().to_vec()),
        5 => Value::Array(vec![]),
        6 => Value::Object(ObjectMap::new()),
        7 => Value::Float(ordered_float::NotNan::new(0.0).unwrap()),
        8 => Value::Float(ordered_float::NotNan::new(-0.0).unwrap()),
        9 => Value::Integer(rng.range(0, 2)),
        10 => Value::Boolean(rng.chance(1, 2)),
        11 => bv(gen_str(rng, 2, true)),
        12 => bv(b"\xff".to_vec()),
        _ => gen_scalar(rng),
    };
    if depth == 0 || rng.chance(1, 3) {
        return leaf(rng);
    }
    let n = rng.below(5);
    if rng.chance(1, 2) {
        Value::Array((0..n).map(|_| gen_coll(rng, depth - 1)).collect())
    } else {
        let mut m = ObjectMap::new();
        for _ in 0..n {
            m.insert((*rng.pick(KEYS)).into(), gen_coll(rng, depth - 1));
        }
        Value::Object(m)
    }
}

fn opt_bool(rng: &mut Rng) -> Option<Value> {
    match rng.below(40) {
        0..=12 => None,
        13..=25 => Some(Value::Boolean(true)),
        26..=38 => Some(Value::Boolean(false)),
        _ => Some(Value::Integer(1)),
    }
}

/// a container (array or object) most of the time
fn gen_container(rng: &mut Rng, depth: u32, object: bool) -> Value {
    if rng.chance(1, 12) {
        return gen_coll(rng, depth);
    }
    let n = rng.below(6);
    if object {
        let mut m = ObjectMap::new();
        for _ in 0..n {
            m.insert((*rng.pick(KEYS)).into(), gen_coll(rng, depth - 1));
        }
        Value::Object(m)
    } else {
        Value::Array((0..n).map(|_| gen_coll(rng, depth - 1)).collect())
    }
}

fn emit(sink: &mut Sink, op: &str, args: &[Option<&Value>]) {
    let a: Vec<String> = args.iter().map(|v| opt(*v)).collect();
    match sink.emit(op, &a) {
        None => sink.count("c28:not_executable"),
        // measured input distribution: how often the function was applicable and what it answered
        Some(r) if op.starts_with("c28.") => {
            let f = &op[4..];
            let bucket = if r.reply == "err" {
                "err"
            } else if r.reply == "panic" {
                "panic"
            } else if r.reply == "ok\tt" {
                "true"
            } else if r.reply == "ok\tf" {
                "false"
            } else if f == "split" {
                if r.reply.matches(" b:").count() > 1 { "ok_several_pieces" } else { "ok_one_piece" }
            } else if r.reply == "ok\t[ ]" || r.reply == "ok\t{ }" || r.reply == "ok\tb:" {
                "ok_empty"
            } else if a.first().is_some_and(|x| r.reply == format!("ok\t{x}")) {
                "ok_unchanged"
            } else {
                "ok_changed"
            };
            sink.count(&format!("c28:{f}:{bucket}"));
        }
        Some(_) => {}
    }
}

fn string_cases(sink: &mut Sink, rng: &mut Rng) {
    let s = str_or_other(rng, 8);
    let bad = matches!(&s, Value::Bytes(b) if std::str::from_utf8(b).is_err());
    sink.count(if !matches!(s, Value::Bytes(_)) {
        "c28:str_nonstring"
    } else if bad {
        "c28:str_invalid_utf8"
    } else {
        "c28:str_valid_utf8"
    });
    for f in ["upcase", "downcase", "strip_whitespace", "strlen"] {
        emit(sink, &format!("c28.{f}"), &[Some(&s)]);
    }
    let fname = bv(rng.pick(&["upcase", "downcase", "strip_whitespace"]).as_bytes().to_vec());
    emit(sink, "o.c28.idem", &[Some(&fname), Some(&s)]);
    emit(sink, "o.c28.strip", &[Some(&s)]);
    emit(sink, "o.c28.strlen", &[Some(&s)]);
    // split / join
    let d = if rng.chance(1, 8) {
        bv(vec![])
    } else if let (Value::Bytes(b), true) = (&s, rng.chance(2, 3)) {
        // a delimiter that occurs in s
        let t = String::from_utf8_lossy(b).to_string();
        let cs: Vec<char> = t.chars().collect();
        if cs.is_empty() {
            bv(gen_str(rng, 2, false))
        } else {
            let i = rng.below(cs.len() as u64) as usize;
            let l = 1 + rng.below(2) as usize;
            bv(cs[i..(i + l).min(cs.len())].iter().collect::<String>().into_bytes())
        }
    } else {
        str_or_other(rng, 2)
    };
    let lim = if rng.chance(1, 2) { None } else { Some(gen_limit(rng)) };
    emit(sink, "c28.split", &[Some(&s), Some(&d), lim.as_ref()]);
    let no_lim = if rng.chance(3, 4) { None } else { Some(Value::Integer(rng.range(1, 4))) };
    emit(sink, "o.c28.split_join", &[Some(&s), Some(&d), no_lim.as_ref()]);
    let arr = if rng.chance(1, 10) {
        gen_value(rng, 2, SIMPLE_KEYS)
    } else {
        Value::Array((0..rng.below(4)).map(|_| if rng.chance(1, 15) { gen_scalar(rng) } else { bv(gen_str(rng, 3, true)) }).collect())
    };
    let sep = if rng.chance(1, 3) { None } else { Some(str_or_other(rng, 2)) };
    emit(sink, "c28.join", &[Some(&arr), sep.as_ref()]);
    // affixes
    let sub = match (&s, rng.below(4)) {
        (Value::Bytes(b), 0..=1) if !b.is_empty() => {
            // a byte-level piece of s, or of its up/down-cased form
            let src: Vec<u8> = match rng.below(3) {
                0 => b.to_vec(),
                1 => String::from_utf8_lossy(b).to_uppercase().into_bytes(),
                _ => String::from_utf8_lossy(b).to_lowercase().into_bytes(),
            };
            let t = String::from_utf8_lossy(&src).to_string();
            let cs: Vec<char> = t.chars().collect();
            let i = if rng.chance(1, 2) { 0 } else { rng.below(cs.len() as u64 + 1) as usize };
            let j = if rng.chance(1, 2) { cs.len() } else { i + rng.below((cs.len() - i) as u64 + 1) as usize };
            bv(cs[i..j].iter().collect::<String>().into_bytes())
        }
        _ => str_or_other(rng, 3),
    };
    let cs = opt_bool(rng);
    for f in ["starts_with", "ends_with", "contains"] {
        emit(sink, &format!("c28.{f}"), &[Some(&s), Some(&sub), cs.as_ref()]);
    }
    if matches!((&s, &sub), (Value::Bytes(_), Value::Bytes(_))) {
        emit(sink, "o.c28.affix", &[Some(&s), Some(&sub)]);
    }
    // truncate
    let lim = gen_limit(rng);
    let sfx = match rng.below(4) {
        0 => None,
        1 => Some(bv("...".as_bytes().to_vec())),
        2 => Some(bv(vec![])),
        _ => Some(str_or_other(rng, 2)),
    };
    emit(sink, "c28.truncate", &[Some(&s), Some(&lim), sfx.as_ref()]);
    emit(sink, "o.c28.truncate", &[Some(&s), Some(&lim), sfx.as_ref()]);
    // casing family (third-party convert_case behind a two-line wrapper): idempotence on the implementation
    if rng.chance(1, 2) {
        let f = bv(rng.pick(&["camelcase", "pascalcase", "snakecase", "screamingsnakecase", "kebabcase"]).as_bytes().to_vec());
        emit(sink, "o.c28.idem", &[Some(&f), Some(&s)]);
    }
}

/// `lo` = (normalised) lower bound the index should mostly respect
fn gen_idx(rng: &mut Rng, len: i64, lo: i64) -> Value {
    match rng.below(30) {
        0 => Value::Integer(i64::MIN),
        1 => Value::Integer(i64::MAX),
        2 => Value::Null,
        3 => Value::Integer(len),
        4 => Value::Integer(-len),
        5 => Value::Integer(len + 1),
        6 => Value::Integer(-len - 1),
        7..=9 => Value::Integer(rng.range(-len - 1, len + 1)),
        10..=19 => Value::Integer(rng.range(lo, len + 1)),
        // the same position counted from the end
        _ => Value::Integer(rng.range(lo, len) - len),
    }
}

fn coll_cases(sink: &mut Sink, rng: &mut Rng) {
    // slice
    let v = match rng.below(10) {
        0..=3 => bv(gen_str(rng, 6, true)),
        4..=8 => Value::Array((0..rng.below(6)).map(|_| gen_coll(rng, 1)).collect()),
        _ => gen_scalar(rng),
    };
    let len = match &v {
        Value::Bytes(b) => b.len() as i64,
        Value::Array(a) => a.len() as i64,
        _ => 3,
    };
    let st = gen_idx(rng, len, 0);
    let lo = match st {
        Value::Integer(i) if (0..=len).contains(&i) => i,
        Value::Integer(i) if (-len..0).contains(&i) => i + len,
        _ => 0,
    };
    let en = if rng.chance(1, 3) { None } else { Some(gen_idx(rng, len, lo)) };
    emit(sink, "c28.slice", &[Some(&v), Some(&st), en.as_ref()]);
    emit(sink, "o.c28.slice", &[Some(&v), Some(&st), en.as_ref()]);
    // unique
    let u = if rng.chance(1, 12) {
        gen_coll(rng, 2)
    } else {
        let pool: Vec<Value> = (0..1 + rng.below(4)).map(|_| gen_coll(rng, 2)).collect();
        Value::Array((0..rng.below(8)).map(|_| if rng.chance(3, 4) { rng.pick(&pool).clone() } else { gen_coll(rng, 1) }).collect())
    };
    emit(sink, "c28.unique", &[Some(&u)]);
    emit(sink, "o.c28.unique", &[Some(&u)]);
    // compact: every option independently absent / true / false / ill-typed
    let obj = rng.chance(1, 2);
    let c = gen_container(rng, 3, obj);
    let opts: Vec<Option<Value>> = (0..6).map(|_| opt_bool(rng)).collect();
    let mut args: Vec<Option<&Value>> = vec![Some(&c)];
    args.extend(opts.iter().map(Option::as_ref));
    emit(sink, "c28.compact", &args);
    emit(sink, "o.c28.compact", &args);
    // keys / values / length
    let obj = rng.chance(5, 6);
    let o = gen_container(rng, 2, obj);
    for f in ["keys", "values", "length"] {
        emit(sink, &format!("c28.{f}"), &[Some(&o)]);
    }
    emit(sink, "o.c28.kvl", &[Some(&o)]);
    // merge
    let (a, b) = (gen_coll(rng, 3), gen_coll(rng, 3));
    let (a, b) = if rng.chance(4, 5) {
        let f = |v: Value| if matches!(v, Value::Object(_)) { v } else { Value::Object(ObjectMap::from([("a".into(), v)])) };
        (f(a), f(b))
    } else {
        (a, b)
    };
    let deep = opt_bool(rng);
    emit(sink, "c28.merge", &[Some(&a), Some(&b), deep.as_ref()]);
    emit(sink, "o.c28.merge", &[Some(&a), Some(&b), deep.as_ref()]);
}

pub fn generate(sink: &mut Sink, rng: &mut Rng, n: u64) {
    // fixed edge cases: all 64 option combinations of compact on one nested value with every kind of empty member
    let nested = parse_value("{ k:61 n k:62 b: k:63 [ ] k:64 { } k:65 [ n b: [ ] { } b:2d b:20 [ [ ] ] { k:78 { } } ] k:66 { k:67 n k:68 [ n ] k:69 b:2d } k:6a i:0 }").unwrap();
    let (t, f) = (Value::Boolean(true), Value::Boolean(false));
    for m in 0..128u32 {
        let o: Vec<&Value> = (0..6).map(|i| if m >> i & 1 == 1 { &t } else { &f }).collect();
        let v = if m & 64 == 0 { nested.clone() } else { Value::Array(vec![nested.clone(), Value::Null, Value::Array(vec![])]) };
        let args: Vec<Option<&Value>> = std::iter::once(Some(&v)).chain(o.iter().map(|x| Some(*x))).collect();
        emit(sink, "c28.compact", &args);
        emit(sink, "o.c28.compact", &args);
        sink.count("c28:compact_option_combinations(exhaustive)");
    }
    // special casing strings
    for s in ["ß", "ǆ", "ǅ", "Ǆ", "İ", "ΌΣΟΣ", "ΑΣ", "Σ", "ΑΣ.", "Α\u{301}Σ\u{301}", "ΑΣΑ", "a.Σ", "1Σ", "ŉ", "ﬁ", "I\u{307}", "e\u{301}", "ΑΣ Σ"] {
        let v = Value::from(s);
        for f in ["upcase", "downcase", "strlen", "strip_whitespace"] {
            emit(sink, &format!("c28.{f}"), &[Some(&v)]);
        }
        for f in ["upcase", "downcase"] {
            emit(sink, "o.c28.idem", &[Some(&Value::from(f)), Some(&v)]);
        }
    }
    // case-insensitive affixes: the old counterexamples of starts_with (zip truncation, byte-length pre-check,
    // repaired in 2b95bd7), multi-char lower-case expansions (İ, both directions), Final_Sigma, invalid bytes,
    // special-casing pairs, empty strings
    let ci_pairs: &[(&[u8], &[u8])] = &[
        ("ⱥ".as_bytes(), "Ⱥx".as_bytes()),
        ("Ⱥ".as_bytes(), "ⱥ".as_bytes()),
        ("Ⱥb".as_bytes(), "ⱥB".as_bytes()),
        ("i\u{307}".as_bytes(), "İ".as_bytes()),
        ("İ".as_bytes(), "i\u{307}".as_bytes()),
        ("İ".as_bytes(), "i".as_bytes()),
        ("İx".as_bytes(), "İ".as_bytes()),
        ("i\u{307}x".as_bytes(), "İx".as_bytes()),
        ("ΑΣ".as_bytes(), "ας".as_bytes()),
        ("ΑΣ".as_bytes(), "ασ".as_bytes()),
        ("ΑΣΑ".as_bytes(), "ΑΣ".as_bytes()),
        ("ας".as_bytes(), "ΑΣ".as_bytes()),
        (b"\xff", b"\xff"),
        (b"a\xff", b"A"),
        (b"a\xe2\x82", b"A\xe2\x82"),
        (b"\xef\xbf\xbd", b"\xff"),
        ("ǅ".as_bytes(), "ǆ".as_bytes()),
        ("ß".as_bytes(), "ẞ".as_bytes()),
        ("\u{212a}".as_bytes(), "k".as_bytes()),
        ("ﬁ".as_bytes(), "FI".as_bytes()),
        (b"", b""),
        (b"a", b""),
        (b"", b"a"),
        (b"aB", b"Ab"),
        (b"a", b"AB"),
    ];
    for (v, sub) in ci_pairs {
        let (v, sub) = (bv(v.to_vec()), bv(sub.to_vec()));
        for fname in ["starts_with", "ends_with", "contains"] {
            emit(sink, &format!("c28.{fname}"), &[Some(&v), Some(&sub), Some(&f)]);
        }
        emit(sink, "o.c28.affix", &[Some(&v), Some(&sub)]);
        sink.count("c28:ci_affix_edge_cases");
    }
    // whitespace table: exhaustive over the BMP in the quick tier, all scalar values in the thorough tier;
    // case-mapping law: exhaustive over all scalar values in the thorough tier, the first 0x3000 otherwise
    let thorough = n >= 20_000;
    let (ws_hi, case_hi) = if thorough { (0x110000u32, 0x110000u32) } else { (0x10000, 0x3000) };
    let mut lo = 0u32;
    while lo < ws_hi {
        sink.emit("c28.wsscan", &[lo.to_string(), (lo + 0x1000).to_string()]);
        lo += 0x1000;
    }
    sink.stats.insert(format!("c28:wsscan_code_points(exhaustive over 0..{ws_hi:#x})"), u64::from(ws_hi));
    lo = 0;
    while lo < case_hi {
        sink.emit("o.c28.casemap", &[lo.to_string(), (lo + 0x400).to_string()]);
        lo += 0x400;
    }
    sink.stats.insert(
        format!("c28:casemap_code_points(exhaustive{} over 0..{case_hi:#x})", if thorough { ": true, all scalar values" } else { "" }),
        u64::from(case_hi),
    );
    for _ in 0..n {
        string_cases(sink, rng);
        coll_cases(sink, rng);
    }
}
