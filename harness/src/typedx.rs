//! Targeted programs for the typed oracles (`o.c01` / `o.c02` / `o.c12`), complementing the random
//! generators: shapes that the random stream produces rarely.
//!  * programs that MUST be rejected (an operator application the compiler types fallible, used
//!    without error handling): on the unchanged compiler they do not compile and leave no case; if a
//!    change makes the compiler accept one, the run fails in an expression typed infallible;
//!  * abort-on-error calls followed by plain calls: `ProgramInfo.fallible` must stay set.
use crate::rng::Rng;
use crate::sink::Sink;
use crate::wire::*;

const LITS: &[(&str, &str)] = &[
    ("string", "\"a\""), ("timestamp", "t'2021-01-01T00:00:00Z'"), ("integer", "1"), ("float", "1.5"), ("boolean", "true"),
    ("null", "null"), ("array", "[1]"), ("object", "{\"k\": 1}"), ("regex", "r'a'"),
];
const OPS: &[&str] = &["<", "<=", ">", ">=", "+", "-", "*", "/", "&&", "||", "|"];

const BANG: &[&str] = &[
    "to_int!(.s)\nlength(\"a\")", ".x = to_int!(.s)\nupcase(\"b\")", "length(\"a\")\nto_int!(.s)", "x = string!(.a)\ny = downcase(\"Q\")\n[x, y]",
    "upcase(string!(.a))", "to_int!(.s) + length(\"a\")", "if .a == true { .y = int!(.n) }\nlength([1])", ".z = [to_int!(.s), length(\"a\")]",
    "x = (to_int(.s) ?? 0)\nint!(.n)\nupcase(\"q\")", "for_each([1]) -> |_i, _v| { .w = string!(.a) }\nlength(\"a\")",
];

/// constants that an operand of the same expression invalidates (seeded C12-2), and friends
const CONSTS: &[&str] = &[
    "x = 2\n.r = ({ x = 0; 10 } / x)", "x = 2\n.r = (10 / { x = 0; x })", "x = 2\nif .a == true { x = 0 }\n.r = (10 / x)", "x = 2\n{ x = 0 }\n.r = (10 / x)",
    "x = 1\nfor_each([1]) -> |_i, _v| { x = 0 }\n.r = (10 / x)", "x = true\n.r = ({ x = false; true } && x)", "x = false\n.r = ({ x = true; false } || x)",
    // the constant itself as a root expression (judged by the constant clause of C12)
    "if .a == true { x = 2 } else { x = 0 }\nx", "if .a == true { x = 2 } else { x = 0 }\n.r = (10 / x)", "x = 2\nif .a == true { x = 0 }\nx",
    "x = \"a\"\nif .a == true { x = \"b\" }\nx", "x = 1\n(.a == true) && { x = 3; true }\nx", "x = 1\n(.a == true) || { x = 3; true }\nx",
    "x = 1\ny = (to_int(.s) ?? { x = 5; 0 })\nx", "x = true\nif .a == true { x = false }\n.r = (x || { .side = 1; true })", "x = 2\n{ x = 0 }\nx",
    "x = 3\ny = x\nx = 0\n.r = (10 / y)", "x = 2.0\n.r = ({ x = 0.0; 1.0 } / x)", "x = {\"a\": 2}\nx.a = 0\n.r = (10 / x.a)", "x = [2]\nx[0] = 0\n.r = (10 / x[0])",
];

pub fn generate(sink: &mut Sink, rng: &mut Rng, op: &str) {
    let events = ["{ }", "{ k:61 t k:6e i:0 k:73 b:31 }", "{ k:61 b:71 k:6e b:78 k:73 b:78 }", "{ k:61 i:1 k:6e n k:73 n }"];
    // every binary operator on every pair of exact literal kinds, unhandled
    for (_, a) in LITS {
        for (_, b) in LITS {
            for o in OPS {
                for src in [format!(".r = ({a} {o} {b})"), format!("x = {a}\ny = {b}\n.r = (x {o} y)")] {
                    if sink.emit(op, &[hex(src.as_bytes()), (*rng.pick(&events)).to_string(), "{ }".to_string()]).is_some() {
                        sink.count("typedx:operator_pair_accepted");
                    } else {
                        sink.count("typedx:operator_pair_rejected");
                    }
                }
            }
        }
    }
    for src in CONSTS {
        for ev in events {
            if sink.emit(op, &[hex(src.as_bytes()), ev.to_string(), "{ }".to_string()]).is_some() {
                sink.count("typedx:const_program_accepted");
            }
        }
    }
    for src in BANG {
        for ev in events {
            if sink.emit(op, &[hex(src.as_bytes()), ev.to_string(), "{ }".to_string()]).is_some() {
                sink.count("typedx:bang_program");
            }
        }
    }
}
