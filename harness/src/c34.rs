//! C34 – unused-expression warnings only flag removable code.
//!
//! `o.c34 <hex source> <event> <metadata>`: compile the program with the REAL compiler, collect the
//! unused-RESULT warnings (code `UnusedCode`, not the "unused variable" ones), and for each flagged
//! span compile and run the program with exactly that span replaced by `null` (the smallest edit
//! that deletes the expression and stays syntactically valid everywhere a flagged expression can
//! stand). Observations: the original run, then per flagged span
//! `start end kind mayFail outcome event metadata`. `mayFail` is decided by the real compiler:
//! the span is replaced by `{ _c34 = (E); null }`, which `Assignment::new` rejects with E103 exactly
//! when `E` is typed fallible; an expression containing `!(`/`abort` can fail as well.
//! The Lean driver evaluates `C34.removable` on the two runs.
use crate::lang;
use crate::rng::Rng;
use crate::sink::{guarded, Reply, Sink};
use crate::vrlrun::{self, Outcome};
use crate::wire::*;
use vrl::compiler::TimeZone;
use vrl::value::Value;

pub struct Flag {
    pub start: usize,
    pub end: usize,
    pub kind: &'static str,
}

/// the unused-result warnings of the real compiler
pub fn flags(src: &str) -> Option<Vec<Flag>> {
    let fns = vrl::stdlib::all();
    let res = guarded(|| vrl::compiler::compile(src, &fns).ok()).ok()??;
    let mut out = Vec::new();
    for w in res.warnings.iter() {
        if w.code != 900 {
            continue;
        }
        let kind = if w.message.starts_with("unused variable") {
            continue;
        } else if w.message.starts_with("unused literal") {
            "literal"
        } else if w.message.starts_with("unused object") {
            "object"
        } else if w.message.starts_with("unused result for function call") {
            "call"
        } else {
            "other"
        };
        if let Some(l) = w.labels.first() {
            let (s, e) = (l.span.start(), l.span.end());
            if s <= e && e <= src.len() && src.is_char_boundary(s) && src.is_char_boundary(e) {
                // the flagged expression is the left operand of an operator (the checker visits the
                // lhs of an unused `a <op> b` as unused): only used to NAME the finding class
                let next = src[e..].trim_start_matches([' ', ')']).chars().next();
                let kind = if next.is_some_and(|c| "*/+-|&=!<>?".contains(c)) { "operand" } else { kind };
                // … or follows, in the same container, a call with a closure (the checker leaves the
                // level "not expecting a result" after visiting the closure block)
                // a flagged call that carries a closure is never the known "effect in an argument" class
                let kind = if kind == "call" && src[s..e].contains("-> |") { "closure_call" } else { kind };
                let before = src[..s].trim_end();
                let line_start = before.rfind('\n').map_or(0, |i| i + 1);
                let kind = if before.ends_with(',') && before[..before.len() - 1].trim_end().ends_with('}') && before[line_start..].contains("-> |") {
                    "after_closure"
                } else {
                    kind
                };
                out.push(Flag { start: s, end: e, kind });
            }
        }
    }
    Some(out)
}

/// error texts caught by `ok, err =` embed the source span of the failing call (`… at (163:173): …`);
/// deleting a span shifts every later one, so the positions are blanked on both sides before comparing
fn blank_spans(v: &Value) -> Value {
    match v {
        Value::Bytes(b) => {
            let Ok(t) = std::str::from_utf8(b) else { return v.clone() };
            let mut out = String::new();
            let mut rest = t;
            while let Some(i) = rest.find(" at (") {
                let after = &rest[i + 5..];
                let d1 = after.chars().take_while(char::is_ascii_digit).count();
                let tail = &after[d1..];
                let d2 = tail.strip_prefix(':').map_or(0, |x| x.chars().take_while(char::is_ascii_digit).count());
                if d1 > 0 && d2 > 0 && tail[1 + d2..].starts_with(')') {
                    out.push_str(&rest[..i]);
                    out.push_str(" at (_:_)");
                    rest = &tail[1 + d2 + 1..];
                } else {
                    out.push_str(&rest[..i + 5]);
                    rest = after;
                }
            }
            out.push_str(rest);
            Value::from(out)
        }
        Value::Array(a) => Value::Array(a.iter().map(blank_spans).collect()),
        Value::Object(m) => Value::Object(m.iter().map(|(k, v)| (k.clone(), blank_spans(v))).collect()),
        _ => v.clone(),
    }
}

fn outcome_text(o: &Outcome) -> &'static str {
    match o {
        Outcome::Ok(_) => "ok",
        Outcome::Error(_) => "err",
        Outcome::Abort(_) => "abort",
        Outcome::Panic(_) => "panic",
    }
}

/// does the compiler type the flagged text as fallible at that position?
fn may_fail(src: &str, f: &Flag) -> &'static str {
    let e = &src[f.start..f.end];
    if e.contains("!(") || e.contains("abort") {
        return "1";
    }
    let probe = format!("{}{{ _c34 = ({}); null }}{}", &src[..f.start], e, &src[f.end..]);
    let fns = vrl::stdlib::all();
    match guarded(|| vrl::compiler::compile(&probe, &fns)) {
        Ok(Ok(_)) => "0",
        Ok(Err(diags)) => {
            if diags.iter().any(|d| d.code == 103) {
                "1"
            } else {
                "?"
            }
        }
        Err(_) => "?",
    }
}

pub fn exec(op: &str, a: &[String]) -> Option<Reply> {
    match (op, a) {
        ("o.c34", [src, event, metadata]) => {
            let srct = String::from_utf8(unhex(src)?).ok()?;
            let event: Value = parse_value(event)?;
            let metadata: Value = parse_value(metadata)?;
            let program = vrlrun::compile(&srct).ok()?;
            let flagged = flags(&srct)?;
            let tz = TimeZone::Named(chrono_tz::UTC);
            let orig = vrlrun::run_program(&program, event.clone(), metadata.clone(), vec![], &tz);
            let mut obs = vec![
                outcome_text(&orig.outcome).to_string(),
                show_value(&blank_spans(&orig.event)),
                show_value(&blank_spans(&orig.metadata)),
                flagged.len().to_string(),
            ];
            for f in &flagged {
                let edited = format!("{}null{}", &srct[..f.start], &srct[f.end..]);
                obs.push(f.start.to_string());
                obs.push(f.end.to_string());
                obs.push(f.kind.to_string());
                obs.push(may_fail(&srct, f).to_string());
                match vrlrun::compile(&edited) {
                    Ok(p2) => {
                        let r2 = vrlrun::run_program(&p2, event.clone(), metadata.clone(), vec![], &tz);
                        obs.push(outcome_text(&r2.outcome).to_string());
                        obs.push(show_value(&blank_spans(&r2.event)));
                        obs.push(show_value(&blank_spans(&r2.metadata)));
                    }
                    Err(_) => {
                        obs.push("nocompile".to_string());
                        obs.push("n".to_string());
                        obs.push("n".to_string());
                    }
                }
            }
            Some(Reply::oracle(obs))
        }
        _ => None,
    }
}

/// discarded statements: mostly effect-free (the checker should flag them), some with effects in
/// members / arguments, some side-effect functions (never flagged), some fallible
const JUNK: &[&str] = &[
    "\"foo\"",
    "42",
    "true",
    "null",
    "1.5",
    "[1, 2]",
    "[.a, \"x\"]",
    "{ \"a\": 1 }",
    "{ \"a\": .a, \"b\": [1] }",
    "{ \"a\": { .zz = 1; 2 } }",
    "{ \"a\": del(.a) }",
    "[{ .zy = 2; 3 }]",
    "upcase(\"a\")",
    "to_string(.a)",
    "length([1])",
    "exists(.a)",
    "is_string(.s)",
    "upcase({ .zx = \"q\"; \"a\" })",
    "push([1], { .zw = 1; 2 })",
    "to_int!(.s)",
    "string!(.s)",
    "parse_json!(.s)",
    "to_int(.n) ?? 0",
    "del(.b)",
    "assert!(true)",
    "log(\"m\")",
    ".a",
    "%m",
    ".a == 1",
    "1 + 2",
    "!true",
    "(\"foo\")",
    "{ \"foo\" }",
    "{ \"foo\"; .zv = 1 }",
    "if .a == 1 { \"foo\" }",
    "if .a == 1 { \"foo\"; .zu = 1 } else { 2 }",
    "if true { upcase(\"x\") } else { \"bar\" }",
    "for_each([1]) -> |_i, _v| { \"lit\"; .zt = 1 }",
    "map_values({\"a\": 1}) -> |v| { \"lit\"; v }",
    "filter([1, 2]) -> |_i, v| { v == 1 }",
    "x = { \"lit\"; 5 }",
    ".zs = { upcase(\"q\"); 1 }",
    "_ok, _err = to_int(.s)",
    "{ \"k\": upcase(\"v\") }.k",
    "[upcase(\"v\")][0]",
    "abs(-1)",
    "now()",
    "uuid_v4()",
    "random_int(0, 10)",
    "get_env_var!(\"HOME\")",
    "set_semantic_meaning(.a, \"m\")",
    "match(\"a\", r'a')",
    "\"t {{ x }}\"",
    // calls with closures that have effects, as statements (never to be flagged)
    "map_values({\"a\": 1}) -> |v| { .zk = v; v }",
    "filter([1, 2]) -> |_i, v| { .zj = v; true }",
    "map_keys({\"a\": 1}) -> |k| { del(.b); k }",
    "for_each({\"a\": 1}) -> |_k, v| { .zi = v }",
    // USED values built from literals, objects, operations and calls: nothing in them may be flagged
    ".zq = [{\"k\": 1}, 5]",
    ".zr = [.a == 1, \"always\"]",
    "x = [{\"a\": 1}, upcase(\"b\"), {\"c\": 2}]",
    ".zp = { \"o\": {\"k\": 1}, \"l\": 5 }",
    "y = [[{\"k\": 1}], 7, 1 + 2, \"s\"]",
    ".zo = [1, {\"k\": 2}, [3], !true, -1]",
    ".zn = [map_values({\"k\": 1}) -> |v| { v }, 5]",
    ".zm = [if .a == 1 { 1 } else { 2 }, 9]",
    "z = { \"a\": [{\"b\": 1}, 2], \"c\": (1 == 1) }",
    ".zl = [to_string(.a) ?? \"d\", \"e\"]",
];

/// composed programs: a block (or if / closure) earlier in the program, then USED values built from
/// calls, literals and operations at several nesting levels — nothing in them may be flagged
const COMPOSED: &[&str] = &[
    "{ .a1 = 1; .b1 = 2 }\n.y = [downcase(\"A\"), 5]\n.y",
    "{ .a1 = 1 }\n.y = [downcase(\"A\"), 5, upcase(\"b\")]\n.a",
    "if .a == 1 { .t = 1 } else { .t = 2 }\n.y = [to_string(.a) ?? \"x\", 7]\n.y",
    "{ { .deep = 1; 2 }; .b1 = 2 }\nx = [length(\"ab\"), {\"k\": 1}, 3]\n.out = x",
    "for_each([1]) -> |_i, _v| { .w = 1 }\n.y = [upcase(\"a\"), \"lit\"]\n.y",
    "x = { .q1 = 1; 5 }\n.y = {\"a\": downcase(\"Q\"), \"b\": 6}\n.y",
    "{ .a1 = 1; .b1 = 2 }\n.z = ({ upcase(\"q\"); to_int(.s) } ?? 3)\n.z",
    "{ .a1 = 1 }\n{ .b1 = [downcase(\"A\"), 5]; .c1 = 3 }\n.b1",
    "if true { { .n1 = 1; 2 } }\n.y = [abs(-1), -1, !true]\n.y",
    ".y = [downcase(\"A\"), 5]\n{ .a1 = 1; .b1 = 2 }\n.v = [upcase(\"c\"), 6]\n.v",
    "{ .a1 = 1; .b1 = 2 }\n.y = push([downcase(\"A\")], 5)\n.y",
    "{ .a1 = 1; .b1 = 2 }\n.y = if .a == 1 { [upcase(\"x\"), 1] } else { [2] }\n.y",
];

pub fn generate(sink: &mut Sink, rng: &mut Rng, n: u64) {
    for src in COMPOSED {
        if vrlrun::compile(src).is_err() {
            sink.count("c34:composed_rejected");
            continue;
        }
        for ev in ["{ k:61 i:1 k:73 b:31 }", "{ k:61 i:2 k:73 b:78 }"] {
            sink.emit("o.c34", &[hex(src.as_bytes()), ev.to_string(), "{ }".to_string()]);
            sink.count("c34:composed");
        }
    }
    let mut accepted = 0u64;
    let mut tried = 0u64;
    while accepted < n && tried < n * 30 {
        tried += 1;
        let base = {
            let mut g = lang::Gen::new(rng);
            g.program()
        };
        let mut parts: Vec<String> = base.split('\n').map(str::to_string).collect();
        let k = rng.below(3);
        for _ in 0..k {
            let pos = rng.below(parts.len() as u64) as usize; // never after the last statement
            parts.insert(pos, (*rng.pick(JUNK)).to_string());
        }
        let src = if rng.chance(1, 8) { parts.join("; ") } else { parts.join("\n") };
        if crate::typed::risky_alloc(&src) {
            sink.count("c34:skipped_huge_repeat");
            continue;
        }
        if vrlrun::compile(&src).is_err() {
            sink.count("c34:rejected_by_compiler");
            continue;
        }
        let Some(fl) = flags(&src) else { continue };
        if fl.is_empty() {
            sink.count("c34:no_unused_result_warning");
            continue;
        }
        accepted += 1;
        for f in &fl {
            sink.count(&format!("c34:flagged:{}", f.kind));
        }
        for _ in 0..3 {
            let event = lang::gen_event(rng);
            let meta = lang::gen_metadata(rng);
            if lang::risky_case(&src, &event) || lang::risky_case(&src, &meta) {
                continue;
            }
            let inputs = [hex(src.as_bytes()), show_value(&event), show_value(&meta)];
            // the model runs the original program and every edited one (`lang.run`), the oracle compares them
            sink.emit("lang.run", &[inputs[0].clone(), inputs[1].clone(), inputs[2].clone(), "-".to_string()]);
            for f in &fl {
                let edited = format!("{}null{}", &src[..f.start], &src[f.end..]);
                if vrlrun::compile_cached(&edited).is_some() {
                    sink.emit("lang.run", &[hex(edited.as_bytes()), inputs[1].clone(), inputs[2].clone(), "-".to_string()]);
                }
            }
            if let Some(r) = sink.emit("o.c34", &inputs) {
                sink.count(&format!("c34:orig:{}", r.obs.first().cloned().unwrap_or_default()));
                let mut i = 4;
                while i + 6 < r.obs.len() {
                    sink.count(&format!("c34:edited:{}:mayfail={}", r.obs[i + 4], r.obs[i + 3]));
                    i += 7;
                }
            }
        }
    }
}
