//! Run a VRL program text on an event with the real compiler, stdlib and runtime.
use crate::sink::guarded;
use std::cell::RefCell;
use std::collections::HashMap;
use std::panic::AssertUnwindSafe;
use vrl::compiler::runtime::{Runtime, Terminate};
use vrl::compiler::{Program, TargetValue, TimeZone};
use vrl::value::{Secrets, Value};

thread_local! {
    /// compiled programs by source text (the ops use a handful of fixed sources)
    static PROGRAMS: RefCell<HashMap<String, Result<Program, String>>> = RefCell::new(HashMap::new());
}

/// Outcome of compiling + running `src` on `event`:
/// `Ok(value)`, `Err("compile: E…")`, `Err("error: …")` / `Err("abort: …")` (runtime), `Err("panic: …")`.
pub fn run_vrl(src: &str, event: Value) -> Result<Value, String> {
    run_vrl_tz(src, event, &TimeZone::default())
}

pub fn run_vrl_tz(src: &str, event: Value, tz: &TimeZone) -> Result<Value, String> {
    let r = guarded(AssertUnwindSafe(|| {
        let program = PROGRAMS.with(|c| {
            let mut c = c.borrow_mut();
            if !c.contains_key(src) {
                let compiled = vrl::compiler::compile(src, &vrl::stdlib::all()).map(|r| r.program).map_err(|d| {
                    let codes: Vec<String> = d.iter().map(|x| format!("E{}", x.code)).collect();
                    format!("compile: {}", codes.join(","))
                });
                c.insert(src.to_string(), compiled);
            }
            c.get(src).unwrap().clone()
        })?;
        let mut target = TargetValue { value: event, metadata: Value::Object(Default::default()), secrets: Secrets::default() };
        Runtime::default().resolve(&mut target, &program, tz).map_err(|t| match t {
            Terminate::Abort(e) => format!("abort: {e}"),
            Terminate::Error(e) => format!("error: {e}"),
        })
    }));
    match r {
        Ok(x) => x,
        Err(p) => Err(format!("panic: {p}")),
    }
}
