//! Minimal helper: compile a VRL source with the full stdlib and run it on an event.
use std::cell::RefCell;
use std::collections::HashMap;
use std::rc::Rc;
use vrl::compiler::runtime::Runtime;
use vrl::compiler::{Program, TargetValue, TimeZone};
use vrl::value::{Secrets, Value};

thread_local! {
    static CACHE: RefCell<HashMap<String, Option<Rc<Program>>>> = RefCell::new(HashMap::new());
}

/// compile (memoised per source text); `None` = the compiler rejected the program.
pub fn compile_cached(src: &str) -> Option<Rc<Program>> {
    CACHE.with(|c| {
        let mut c = c.borrow_mut();
        if c.len() > 4096 {
            c.clear();
        }
        c.entry(src.to_string())
            .or_insert_with(|| vrl::compiler::compile(src, &vrl::stdlib::all()).ok().map(|r| Rc::new(r.program)))
            .clone()
    })
}

/// Run `src` with `event` as the target (`.`). `Err("compile-error")` when the program is rejected,
/// otherwise the runtime error/abort message. Panics propagate to the caller.
pub fn run_vrl(src: &str, event: Value) -> Result<Value, String> {
    let program = compile_cached(src).ok_or_else(|| "compile-error".to_string())?;
    let mut target = TargetValue { value: event, metadata: Value::Object(Default::default()), secrets: Secrets::default() };
    Runtime::default().resolve(&mut target, &program, &TimeZone::default()).map_err(|e| e.to_string())
}
