//! Compile and run VRL source on the real implementation (shared helper).
use crate::sink::guarded;
use std::collections::BTreeMap;
use vrl::compiler::runtime::{Runtime, Terminate};
use vrl::compiler::{CompileConfig, Program, SecretTarget, Target, TargetValue, TimeZone};
use vrl::path::OwnedTargetPath;
use vrl::value::{Secrets, Value};

pub fn functions() -> Vec<Box<dyn vrl::compiler::Function>> {
    vrl::stdlib::all()
}

/// compile with default external environment; `Err(codes)` = rejected.
pub fn compile(src: &str) -> Result<Program, String> {
    compile_cfg(src, CompileConfig::default())
}

pub fn compile_cfg(src: &str, config: CompileConfig) -> Result<Program, String> {
    let src = src.to_string();
    let r = guarded(move || {
        let fns = functions();
        let external = vrl::compiler::state::ExternalEnv::default();
        match vrl::compiler::compile_with_external(&src, &fns, &external, config) {
            Ok(res) => Ok(res.program),
            Err(diags) => {
                let codes: Vec<String> = diags.iter().map(|d| format!("E{}", d.code)).collect();
                Err(codes.join(","))
            }
        }
    });
    match r {
        Ok(x) => x,
        Err(p) => Err(format!("panic:{p}")),
    }
}

/// Outcome of `Runtime::resolve`.
pub enum Outcome {
    Ok(Value),
    Error(String),
    Abort(Option<String>),
    Panic(String),
}

/// A target that rejects the operations whose index is in `faults` and logs every operation.
#[derive(Debug)]
pub struct FaultyTarget {
    pub inner: TargetValue,
    pub faults: Vec<u64>,
    pub ops: std::cell::Cell<u64>,
    pub log: std::cell::RefCell<Vec<String>>,
}

impl FaultyTarget {
    pub fn new(event: Value, metadata: Value, faults: Vec<u64>) -> Self {
        FaultyTarget {
            inner: TargetValue { value: event, metadata, secrets: Secrets::default() },
            faults,
            ops: std::cell::Cell::new(0),
            log: std::cell::RefCell::new(Vec::new()),
        }
    }
    fn tick(&self, kind: &str, path: &OwnedTargetPath) -> bool {
        let i = self.ops.get();
        self.ops.set(i + 1);
        let rej = self.faults.contains(&i);
        let pfx = match path.prefix {
            vrl::path::PathPrefix::Event => "e",
            vrl::path::PathPrefix::Metadata => "m",
        };
        self.log.borrow_mut().push(format!(
            "{kind}{pfx}{}:{}",
            if rej { "!" } else { "" },
            crate::wire::show_path(&path.path)
        ));
        rej
    }
}

impl Target for FaultyTarget {
    fn target_insert(&mut self, path: &OwnedTargetPath, value: Value) -> Result<(), String> {
        if self.tick("i", path) {
            return Err("rejected".into());
        }
        self.inner.target_insert(path, value)
    }
    fn target_get(&self, path: &OwnedTargetPath) -> Result<Option<&Value>, String> {
        if self.tick("g", path) {
            return Err("rejected".into());
        }
        self.inner.target_get(path)
    }
    fn target_get_mut(&mut self, path: &OwnedTargetPath) -> Result<Option<&mut Value>, String> {
        if self.tick("m", path) {
            return Err("rejected".into());
        }
        self.inner.target_get_mut(path)
    }
    fn target_remove(&mut self, path: &OwnedTargetPath, compact: bool) -> Result<Option<Value>, String> {
        if self.tick("r", path) {
            return Err("rejected".into());
        }
        self.inner.target_remove(path, compact)
    }
}

impl SecretTarget for FaultyTarget {
    fn get_secret(&self, key: &str) -> Option<&str> {
        self.inner.get_secret(key)
    }
    fn insert_secret(&mut self, key: &str, value: &str) {
        self.inner.insert_secret(key, value);
    }
    fn remove_secret(&mut self, key: &str) {
        self.inner.remove_secret(key);
    }
}

pub struct RunResult {
    pub outcome: Outcome,
    pub event: Value,
    pub metadata: Value,
    pub vars: Vec<(String, Value)>,
    pub log: Vec<String>,
    pub caught: Vec<String>,
}

pub fn run_program(program: &Program, event: Value, metadata: Value, faults: Vec<u64>, tz: &TimeZone) -> RunResult {
    let mut target = FaultyTarget::new(event, metadata, faults);
    let mut runtime = Runtime::default();
    let _ = vrl::compiler::verif::take_caught_errors();
    let outcome = {
        let res = guarded(|| runtime.resolve(&mut target, program, tz));
        match res {
            Ok(Ok(v)) => Outcome::Ok(v),
            Ok(Err(Terminate::Abort(e))) => match e {
                vrl::compiler::ExpressionError::Abort { message, .. } => Outcome::Abort(message),
                other => Outcome::Error(other.to_string()),
            },
            Ok(Err(Terminate::Error(e))) => Outcome::Error(e.to_string()),
            Err(p) => Outcome::Panic(p),
        }
    };
    let caught = vrl::compiler::verif::take_caught_errors();
    let vars = runtime.verif_state().verif_variables();
    let log = target.log.borrow().clone();
    RunResult { outcome, event: target.inner.value, metadata: target.inner.metadata, vars, log, caught }
}

thread_local! {
    static CACHE: std::cell::RefCell<std::collections::HashMap<String, Option<std::rc::Rc<Program>>>> =
        std::cell::RefCell::new(std::collections::HashMap::new());
}

/// compile (memoised per source text); `None` = the compiler rejected the program.
pub fn compile_cached(src: &str) -> Option<std::rc::Rc<Program>> {
    CACHE.with(|c| {
        let mut c = c.borrow_mut();
        if c.len() > 4096 {
            c.clear();
        }
        c.entry(src.to_string())
            .or_insert_with(|| vrl::compiler::compile(src, &vrl::stdlib::all()).ok().map(|r| std::rc::Rc::new(r.program)))
            .clone()
    })
}

/// Run `src` with `event` as the target (`.`). `Err("compile-error")` when the program is rejected,
/// otherwise the runtime error/abort message. Panics propagate to the caller (wrap in `guarded`).
pub fn run_vrl(src: &str, event: Value) -> Result<Value, String> {
    let program = compile_cached(src).ok_or_else(|| "compile-error".to_string())?;
    let mut target = TargetValue { value: event, metadata: Value::Object(BTreeMap::new()), secrets: Secrets::default() };
    Runtime::default().resolve(&mut target, &program, &TimeZone::default()).map_err(|e| e.to_string())
}

/// Compile `src` with the full stdlib and return the program info (`Err` = diagnostic messages).
pub fn compile_info(src: &str) -> Result<vrl::compiler::ProgramInfo, String> {
    match vrl::compiler::compile(src, &vrl::stdlib::all()) {
        Ok(res) => Ok(res.program.info().clone()),
        Err(diags) => Err(diags.iter().map(|d| d.message().to_string()).collect::<Vec<_>>().join("; ")),
    }
}

/// Variant used by the C25/C29 slices: errors are tagged (`compile: E…`, `error: …`, `abort: …`,
/// `panic: …`), panics are caught, the configured timezone can be chosen.
pub mod tagged {
    use super::*;
    use crate::sink::guarded;
    use std::cell::RefCell;
    use std::collections::HashMap;

    thread_local! {
        static PROGRAMS: RefCell<HashMap<String, Result<Program, String>>> = RefCell::new(HashMap::new());
    }

    pub fn run_vrl(src: &str, event: Value) -> Result<Value, String> {
        run_vrl_tz(src, event, &TimeZone::default())
    }

    pub fn run_vrl_tz(src: &str, event: Value, tz: &TimeZone) -> Result<Value, String> {
        let r = guarded(|| {
            let program = PROGRAMS.with(|c| {
                let mut c = c.borrow_mut();
                if !c.contains_key(src) {
                    let compiled = vrl::compiler::compile(src, &vrl::stdlib::all()).map(|r| r.program).map_err(|d| {
                        let codes: Vec<String> = d.iter().map(|x| format!("E{}", x.code)).collect();
                        format!("compile: {}", codes.join(","))
                    });
                    c.insert(src.to_string(), compiled);
                }
                c.get(src).unwrap().clone()
            })?;
            let mut target = TargetValue { value: event, metadata: Value::Object(Default::default()), secrets: Secrets::default() };
            Runtime::default().resolve(&mut target, &program, tz).map_err(|t| match t {
                Terminate::Abort(e) => format!("abort: {e}"),
                Terminate::Error(e) => format!("error: {e}"),
            })
        });
        match r {
            Ok(x) => x,
            Err(p) => Err(format!("panic: {p}")),
        }
    }
}
