//! Minimal helpers to push VRL source text through the REAL compiler/runtime.
#![allow(dead_code)]
use vrl::compiler::runtime::Runtime;
use vrl::compiler::{ProgramInfo, TargetValue, TimeZone};
use vrl::value::{Secrets, Value};

/// Compile `src` with the full stdlib and return the program info (`Err` = rendered diagnostics).
pub fn compile_info(src: &str) -> Result<ProgramInfo, String> {
    match vrl::compiler::compile(src, &vrl::stdlib::all()) {
        Ok(res) => Ok(res.program.info().clone()),
        Err(diags) => Err(diags.iter().map(|d| d.message().to_string()).collect::<Vec<_>>().join("; ")),
    }
}

/// Compile and run `src` against `event` (metadata = empty object); `Err` = compile or runtime error text.
pub fn run_vrl(src: &str, event: Value) -> Result<Value, String> {
    let res = vrl::compiler::compile(src, &vrl::stdlib::all())
        .map_err(|diags| diags.iter().map(|d| d.message().to_string()).collect::<Vec<_>>().join("; "))?;
    let mut target = TargetValue { value: event, metadata: Value::Object(Default::default()), secrets: Secrets::default() };
    Runtime::default().resolve(&mut target, &res.program, &TimeZone::default()).map_err(|e| e.to_string())
}
