//! C22 – binary codecs round-trip.
//!
//! Correspondence ops (real stdlib function, called through a compiled VRL program, vs the Lean
//! model): `c22.b16enc/b16dec/b64enc/b64dec/pctenc/pctdec`, plus the glue checks `c22.level`
//! (compression-level cast/limit of encode_gzip/encode_zlib) and `c22.charset.panics`.
//! Oracle op `o.c22 <codec> <opts> <hex input>`: `decode(encode(b))` on the implementation for every
//! codec and option combination; the Lean driver evaluates the Spec predicate on the observations.
use crate::rng::Rng;
use crate::sink::{Reply, Sink};
use crate::vrlrun::{event_of, is_panic, run_bytes};
use crate::wire::{hex, unhex};
use std::collections::BTreeMap;
use vrl::value::Value;

pub const PCT_SETS: &[&str] = &[
    "NON_ALPHANUMERIC",
    "CONTROLS",
    "FRAGMENT",
    "QUERY",
    "SPECIAL",
    "PATH",
    "USERINFO",
    "COMPONENT",
    "WWW_FORM_URLENCODED",
];
pub const B64_CHARSETS: &[&str] = &["standard", "url_safe"];

fn show(r: &Result<Vec<u8>, String>) -> String {
    match r {
        Ok(b) => format!("ok {}", hex(b)),
        Err(e) if is_panic(e) => "panic".into(),
        Err(_) => "err".into(),
    }
}
fn obs(r: &Result<Vec<u8>, String>) -> String {
    match r {
        Ok(b) => format!("ok:{}", hex(b)),
        Err(e) if is_panic(e) => "panic".into(),
        Err(_) => "err".into(),
    }
}

fn ev(fields: Vec<(&str, Value)>) -> Value {
    let mut m = BTreeMap::new();
    for (k, v) in fields {
        m.insert(k.into(), v);
    }
    Value::Object(m)
}
fn vb(b: &[u8]) -> Value {
    Value::Bytes(bytes::Bytes::copy_from_slice(b))
}

/// encoder / decoder program texts of a codec + option string; `None` for unknown combinations.
/// The encoder reads `.b`, the decoder `.e`; further event fields carry run-time options.
fn programs(codec: &str, opts: &str) -> Option<(String, String, Vec<(&'static str, Value)>)> {
    let none = Vec::new();
    Some(match codec {
        "b16" => ("encode_base16!(.b)".into(), "decode_base16!(.e)".into(), none),
        "b64" => {
            let (cs, pad) = opts.split_once('/')?;
            if !B64_CHARSETS.contains(&cs) || !(pad == "true" || pad == "false") {
                return None;
            }
            (
                format!("encode_base64!(.b, padding: {pad}, charset: \"{cs}\")"),
                format!("decode_base64!(.e, charset: \"{cs}\")"),
                none,
            )
        }
        // defaults of both functions (padding true, charset standard), no options written
        "b64default" => ("encode_base64!(.b)".into(), "decode_base64!(.e)".into(), none),
        "pct" => {
            if !PCT_SETS.contains(&opts) {
                return None;
            }
            (format!("encode_percent!(.b, ascii_set: \"{opts}\")"), "decode_percent!(.e)".into(), none)
        }
        "pctdefault" => ("encode_percent!(.b)".into(), "decode_percent!(.e)".into(), none),
        "gzip" | "zlib" | "zstd" => {
            let dec = format!("decode_{codec}!(.e)");
            if opts == "-" {
                (format!("encode_{codec}!(.b)"), dec, none)
            } else {
                let l: i64 = opts.parse().ok()?;
                (format!("encode_{codec}!(.b, compression_level: .l)"), dec, vec![("l", Value::Integer(l))])
            }
        }
        "snappy" => ("encode_snappy!(.b)".into(), "decode_snappy!(.e)".into(), none),
        "lz4" => {
            // opts: "-" (defaults on both sides do NOT match: prepend_size defaults to true,
            // prepended_size to false), or "<prepend>/<buf_size|->"
            let (pre, buf) = opts.split_once('/')?;
            if !(pre == "true" || pre == "false") {
                return None;
            }
            let dec = if buf == "-" {
                format!("decode_lz4!(.e, prepended_size: {pre})")
            } else {
                let _: i64 = buf.parse().ok()?;
                format!("decode_lz4!(.e, buf_size: {buf}, prepended_size: {pre})")
            };
            (format!("encode_lz4!(.b, prepend_size: {pre})"), dec, none)
        }
        "charset" => {
            let label = unhex(opts)?;
            (
                "encode_charset!(.b, .l)".into(),
                "decode_charset!(.e, .l)".into(),
                vec![("l", vb(&label))],
            )
        }
        "puny" => {
            let (ve, vd) = opts.split_once('/')?;
            let ok = |s: &str| s == "true" || s == "false";
            if !ok(ve) || !ok(vd) {
                return None;
            }
            (
                format!("encode_punycode!(.b, validate: {ve})"),
                format!("decode_punycode!(.e, validate: {vd})"),
                none,
            )
        }
        _ => return None,
    })
}

fn run_with(src: &str, key: &'static str, data: &[u8], extra: &[(&'static str, Value)]) -> Result<Vec<u8>, String> {
    let mut f: Vec<(&str, Value)> = vec![(key, vb(data))];
    for (k, v) in extra {
        f.push((k, v.clone()));
    }
    run_bytes(src, ev(f))
}

/// lz4 frame produced by lz4_flex's own frame encoder (vrl has no frame encoder).
fn lz4_frame(b: &[u8]) -> Vec<u8> {
    use std::io::Write;
    let mut enc = lz4_flex::frame::FrameEncoder::new(Vec::new());
    enc.write_all(b).unwrap();
    enc.finish().unwrap()
}

/// flags the oracle needs for codecs whose precondition is defined by the primitive.
fn precondition_flags(codec: &str, opts: &str, b: &[u8]) -> Vec<String> {
    match codec {
        "charset" => {
            let label = unhex(opts).unwrap_or_default();
            let Some(enc) = encoding_rs::Encoding::for_label(&label) else {
                return vec!["nolabel".into(), "0".into()];
            };
            let repr = match std::str::from_utf8(b) {
                Ok(s) => {
                    let (_, _, unmappable) = enc.encode(s);
                    !unmappable
                }
                Err(_) => false,
            };
            vec![enc.name().to_string(), if repr { "1".into() } else { "0".into() }]
        }
        "puny" => {
            let valid = match std::str::from_utf8(b) {
                Ok(s) => {
                    let (u, r) = idna::domain_to_unicode(s);
                    r.is_ok() && u == s && idna::domain_to_ascii(s).is_ok()
                }
                Err(_) => false,
            };
            vec![if valid { "1".into() } else { "0".into() }]
        }
        _ => Vec::new(),
    }
}

pub fn exec(op: &str, a: &[String]) -> Option<Reply> {
    match (op, a) {
        ("c22.b16enc", [b]) => {
            let b = unhex(b)?;
            Some(Reply::plain(show(&run_with("encode_base16!(.b)", "b", &b, &[]))))
        }
        ("c22.b16dec", [b]) => {
            let b = unhex(b)?;
            Some(Reply::plain(show(&run_with("decode_base16!(.b)", "b", &b, &[]))))
        }
        // charset name is passed at run time (hex of its bytes) so that unknown names are covered
        ("c22.b64enc", [cs, pad, b]) => {
            let (cs, b) = (unhex(cs)?, unhex(b)?);
            let pad = match pad.as_str() {
                "1" => true,
                "0" => false,
                _ => return None,
            };
            let r = run_with(
                "encode_base64!(.b, padding: .p, charset: .c)",
                "b",
                &b,
                &[("p", Value::Boolean(pad)), ("c", vb(&cs))],
            );
            Some(Reply::plain(show(&r)))
        }
        ("c22.b64dec", [cs, b]) => {
            let (cs, b) = (unhex(cs)?, unhex(b)?);
            let r = run_with("decode_base64!(.b, charset: .c)", "b", &b, &[("c", vb(&cs))]);
            Some(Reply::plain(show(&r)))
        }
        ("c22.pctenc", [set, b]) => {
            if !PCT_SETS.contains(&set.as_str()) {
                return None;
            }
            let b = unhex(b)?;
            let src = format!("encode_percent!(.b, ascii_set: \"{set}\")");
            Some(Reply::plain(show(&run_with(&src, "b", &b, &[]))))
        }
        ("c22.pctdec", [b]) => {
            let b = unhex(b)?;
            Some(Reply::plain(show(&run_with("decode_percent!(.b)", "b", &b, &[]))))
        }
        // does the glue reject the level (`err`) or hand it to the primitive (`run`)?
        ("c22.level", [codec, level]) => {
            if !(codec == "gzip" || codec == "zlib") {
                return None;
            }
            let l: i64 = level.parse().ok()?;
            let src = format!("encode_{codec}!(.b, compression_level: .l)");
            let r = run_with(&src, "b", b"", &[("l", Value::Integer(l))]);
            Some(Reply::plain(match r {
                Ok(_) => "run",
                Err(e) if is_panic(&e) => "run",
                Err(_) => "err",
            }))
        }
        // encode_charset unwraps from_utf8(value) before looking at the label
        ("c22.charset.panics", [b]) => {
            let b = unhex(b)?;
            let r = run_with("encode_charset!(.b, \"utf-8\")", "b", &b, &[]);
            Some(Reply::plain(match r {
                Err(e) if is_panic(&e) => "panic",
                _ => "nopanic",
            }))
        }
        ("o.c22", [codec, opts, b]) => {
            let b = unhex(b)?;
            if codec == "lz4frame" {
                // no vrl encoder: the frame comes from lz4_flex, the decoder is vrl's
                let e = lz4_frame(&b);
                let dsrc = if opts == "-" { "decode_lz4!(.e)".to_string() } else { format!("decode_lz4!(.e, buf_size: {})", opts.parse::<i64>().ok()?) };
                let d = run_with(&dsrc, "e", &e, &[]);
                return Some(Reply::oracle(vec![format!("ok:{}", hex(&e)), obs(&d)]));
            }
            let (esrc, dsrc, extra) = programs(codec, opts)?;
            let e = run_with(&esrc, "b", &b, &extra);
            let d = match &e {
                Ok(eb) => obs(&run_with(&dsrc, "e", eb, &extra)),
                Err(_) => "-".to_string(),
            };
            let mut o = vec![obs(&e), d];
            o.extend(precondition_flags(codec, opts, &b));
            Some(Reply::oracle(o))
        }
        // lz4 with prepend_size on an input of `len` zero bytes (only the length matters)
        ("o.c22.lz4len", [len]) => {
            let len: usize = len.parse().ok()?;
            if len > (1usize << 30) {
                return None;
            }
            let b = vec![0u8; len];
            let e = run_with("encode_lz4!(.b, prepend_size: true)", "b", &b, &[]).ok()?;
            let d = run_with("decode_lz4!(.e, prepended_size: true)", "e", &e, &[]);
            let same = matches!(&d, Ok(x) if *x == b);
            Some(Reply::oracle(vec![
                hex(&e[..e.len().min(8)]),
                if same { "same".into() } else if d.is_ok() { "different".into() } else { "err".into() },
            ]))
        }
        // scratch: run any program on `.b`
        ("c22.probe", [src, b]) => {
            let b = unhex(b)?;
            let r = crate::vrlrun::run_vrl(src, event_of(&[("b", &b)]));
            Some(Reply::plain(match r {
                Ok(Value::Bytes(x)) => format!("ok {}", hex(&x)),
                Ok(v) => format!("ok-value {v}"),
                Err(e) => format!("ERR {}", e.replace(['\n', '\t'], " ")),
            }))
        }
        _ => None,
    }
}

pub fn generate(_sink: &mut Sink, _rng: &mut Rng, _n: u64) {}
