//! C22 – binary codecs round-trip.
//!
//! Correspondence ops (real stdlib function, called through a compiled VRL program, vs the Lean
//! model): `c22.b16enc/b16dec/b64enc/b64dec/pctenc/pctdec`, plus the glue checks `c22.level`
//! (compression-level cast/limit of encode_gzip/encode_zlib) and `c22.charset.panics`.
//! Oracle op `o.c22 <codec> <opts> <hex input>`: `decode(encode(b))` on the implementation for every
//! codec and option combination; the Lean driver evaluates the Spec predicate on the observations.
use crate::rng::Rng;
use crate::sink::{Reply, Sink};
use crate::vrlrun_c22::{event_of, is_panic, run_bytes};
use crate::wire::{hex, unhex};
use std::collections::BTreeMap;
use vrl::value::Value;

pub const PCT_SETS: &[&str] = &[
    "NON_ALPHANUMERIC",
    "CONTROLS",
    "FRAGMENT",
    "QUERY",
    "SPECIAL",
    "PATH",
    "USERINFO",
    "COMPONENT",
    "WWW_FORM_URLENCODED",
];
pub const B64_CHARSETS: &[&str] = &["standard", "url_safe"];

fn show(r: &Result<Vec<u8>, String>) -> String {
    match r {
        Ok(b) => format!("ok {}", hex(b)),
        Err(e) if is_panic(e) => "panic".into(),
        Err(_) => "err".into(),
    }
}
fn obs(r: &Result<Vec<u8>, String>) -> String {
    match r {
        Ok(b) => format!("ok:{}", hex(b)),
        Err(e) if is_panic(e) => "panic".into(),
        Err(_) => "err".into(),
    }
}

fn ev(fields: Vec<(&str, Value)>) -> Value {
    let mut m = BTreeMap::new();
    for (k, v) in fields {
        m.insert(k.into(), v);
    }
    Value::Object(m)
}
fn vb(b: &[u8]) -> Value {
    Value::Bytes(bytes::Bytes::copy_from_slice(b))
}

/// encoder / decoder program texts of a codec + option string; `None` for unknown combinations.
/// The encoder reads `.b`, the decoder `.e`; further event fields carry run-time options.
fn programs(codec: &str, opts: &str) -> Option<(String, String, Vec<(&'static str, Value)>)> {
    let none = Vec::new();
    Some(match codec {
        "b16" => ("encode_base16!(.b)".into(), "decode_base16!(.e)".into(), none),
        "b64" => {
            let (cs, pad) = opts.split_once('/')?;
            if !B64_CHARSETS.contains(&cs) || !(pad == "true" || pad == "false") {
                return None;
            }
            (
                format!("encode_base64!(.b, padding: {pad}, charset: \"{cs}\")"),
                format!("decode_base64!(.e, charset: \"{cs}\")"),
                none,
            )
        }
        // defaults of both functions (padding true, charset standard), no options written
        "b64default" => ("encode_base64!(.b)".into(), "decode_base64!(.e)".into(), none),
        "pct" => {
            if !PCT_SETS.contains(&opts) {
                return None;
            }
            (format!("encode_percent!(.b, ascii_set: \"{opts}\")"), "decode_percent!(.e)".into(), none)
        }
        "pctdefault" => ("encode_percent!(.b)".into(), "decode_percent!(.e)".into(), none),
        "gzip" | "zlib" | "zstd" => {
            let dec = format!("decode_{codec}!(.e)");
            if opts == "-" {
                (format!("encode_{codec}!(.b)"), dec, none)
            } else {
                let l: i64 = opts.parse().ok()?;
                (format!("encode_{codec}!(.b, compression_level: .l)"), dec, vec![("l", Value::Integer(l))])
            }
        }
        "snappy" => ("encode_snappy!(.b)".into(), "decode_snappy!(.e)".into(), none),
        "lz4" => {
            // opts: "-" (defaults on both sides do NOT match: prepend_size defaults to true,
            // prepended_size to false), or "<prepend>/<buf_size|->"
            let (pre, buf) = opts.split_once('/')?;
            if !(pre == "true" || pre == "false") {
                return None;
            }
            let dec = if buf == "-" {
                format!("decode_lz4!(.e, prepended_size: {pre})")
            } else {
                let _: i64 = buf.parse().ok()?;
                format!("decode_lz4!(.e, buf_size: {buf}, prepended_size: {pre})")
            };
            (format!("encode_lz4!(.b, prepend_size: {pre})"), dec, none)
        }
        "charset" => {
            let label = unhex(opts)?;
            (
                "encode_charset!(.b, .l)".into(),
                "decode_charset!(.e, .l)".into(),
                vec![("l", vb(&label))],
            )
        }
        "puny" => {
            let (ve, vd) = opts.split_once('/')?;
            let ok = |s: &str| s == "true" || s == "false";
            if !ok(ve) || !ok(vd) {
                return None;
            }
            (
                format!("encode_punycode!(.b, validate: {ve})"),
                format!("decode_punycode!(.e, validate: {vd})"),
                none,
            )
        }
        _ => return None,
    })
}

fn run_with(src: &str, key: &'static str, data: &[u8], extra: &[(&'static str, Value)]) -> Result<Vec<u8>, String> {
    let mut f: Vec<(&str, Value)> = vec![(key, vb(data))];
    for (k, v) in extra {
        f.push((k, v.clone()));
    }
    run_bytes(src, ev(f))
}

/// lz4 frame produced by lz4_flex's own frame encoder (vrl has no frame encoder).
fn lz4_frame(b: &[u8]) -> Vec<u8> {
    use std::io::Write;
    let mut enc = lz4_flex::frame::FrameEncoder::new(Vec::new());
    enc.write_all(b).unwrap();
    enc.finish().unwrap()
}

/// flags the oracle needs for codecs whose precondition is defined by the primitive.
fn precondition_flags(codec: &str, opts: &str, b: &[u8]) -> Vec<String> {
    match codec {
        "charset" => {
            let label = unhex(opts).unwrap_or_default();
            let Some(enc) = encoding_rs::Encoding::for_label(&label) else {
                return vec!["nolabel".into(), "0".into()];
            };
            let repr = match std::str::from_utf8(b) {
                Ok(s) => {
                    let (_, _, unmappable) = enc.encode(s);
                    !unmappable
                }
                Err(_) => false,
            };
            vec![enc.name().to_string(), if repr { "1".into() } else { "0".into() }]
        }
        "puny" => {
            let valid = match std::str::from_utf8(b) {
                Ok(s) => {
                    let (u, r) = idna::domain_to_unicode(s);
                    r.is_ok() && u == s && idna::domain_to_ascii(s).is_ok()
                }
                Err(_) => false,
            };
            vec![if valid { "1".into() } else { "0".into() }]
        }
        _ => Vec::new(),
    }
}

pub fn exec(op: &str, a: &[String]) -> Option<Reply> {
    match (op, a) {
        ("c22.b16enc", [b]) => {
            let b = unhex(b)?;
            Some(Reply::plain(show(&run_with("encode_base16!(.b)", "b", &b, &[]))))
        }
        ("c22.b16dec", [b]) => {
            let b = unhex(b)?;
            Some(Reply::plain(show(&run_with("decode_base16!(.b)", "b", &b, &[]))))
        }
        // charset name is passed at run time (hex of its bytes) so that unknown names are covered
        ("c22.b64enc", [cs, pad, b]) => {
            let (cs, b) = (unhex(cs)?, unhex(b)?);
            let pad = match pad.as_str() {
                "1" => true,
                "0" => false,
                _ => return None,
            };
            let r = run_with(
                "encode_base64!(.b, padding: .p, charset: .c)",
                "b",
                &b,
                &[("p", Value::Boolean(pad)), ("c", vb(&cs))],
            );
            Some(Reply::plain(show(&r)))
        }
        ("c22.b64dec", [cs, b]) => {
            let (cs, b) = (unhex(cs)?, unhex(b)?);
            let r = run_with("decode_base64!(.b, charset: .c)", "b", &b, &[("c", vb(&cs))]);
            Some(Reply::plain(show(&r)))
        }
        ("c22.pctenc", [set, b]) => {
            if !PCT_SETS.contains(&set.as_str()) {
                return None;
            }
            let b = unhex(b)?;
            let src = format!("encode_percent!(.b, ascii_set: \"{set}\")");
            Some(Reply::plain(show(&run_with(&src, "b", &b, &[]))))
        }
        ("c22.pctdec", [b]) => {
            let b = unhex(b)?;
            Some(Reply::plain(show(&run_with("decode_percent!(.b)", "b", &b, &[]))))
        }
        // does the glue reject the level (`err`) or hand it to the primitive (`run`)?
        ("c22.level", [codec, level]) => {
            if !(codec == "gzip" || codec == "zlib") {
                return None;
            }
            let l: i64 = level.parse().ok()?;
            let src = format!("encode_{codec}!(.b, compression_level: .l)");
            let r = run_with(&src, "b", b"", &[("l", Value::Integer(l))]);
            Some(Reply::plain(match r {
                Ok(_) => "run",
                Err(e) if is_panic(&e) => "run",
                Err(_) => "err",
            }))
        }
        // encode_charset rejects ill-formed UTF-8 before looking at the label (an unwrap panic before e4ac0e1)
        ("c22.charset.panics", [b]) => {
            let b = unhex(b)?;
            let r = run_with("encode_charset!(.b, \"utf-8\")", "b", &b, &[]);
            Some(Reply::plain(match r {
                Err(e) if is_panic(&e) => "panic",
                Err(_) => "err",
                Ok(_) => "ok",
            }))
        }
        ("o.c22", [codec, opts, b]) => {
            let b = unhex(b)?;
            if codec == "lz4frame" {
                // no vrl encoder: the frame comes from lz4_flex, the decoder is vrl's
                let e = lz4_frame(&b);
                let dsrc = if opts == "-" { "decode_lz4!(.e)".to_string() } else { format!("decode_lz4!(.e, buf_size: {})", opts.parse::<i64>().ok()?) };
                let d = run_with(&dsrc, "e", &e, &[]);
                return Some(Reply::oracle(vec![format!("ok:{}", hex(&e)), obs(&d)]));
            }
            let (esrc, dsrc, extra) = programs(codec, opts)?;
            let e = run_with(&esrc, "b", &b, &extra);
            let d = match &e {
                Ok(eb) => obs(&run_with(&dsrc, "e", eb, &extra)),
                Err(_) => "-".to_string(),
            };
            let mut o = vec![obs(&e), d];
            o.extend(precondition_flags(codec, opts, &b));
            Some(Reply::oracle(o))
        }
        // lz4 with prepend_size on an input of `len` zero bytes (only the length matters)
        ("o.c22.lz4len", [len]) => {
            let len: usize = len.parse().ok()?;
            if len > (1usize << 30) {
                return None;
            }
            let b = vec![0u8; len];
            let e = run_with("encode_lz4!(.b, prepend_size: true)", "b", &b, &[]).ok()?;
            let d = run_with("decode_lz4!(.e, prepended_size: true)", "e", &e, &[]);
            let same = matches!(&d, Ok(x) if *x == b);
            Some(Reply::oracle(vec![
                hex(&e[..e.len().min(8)]),
                if same { "same".into() } else if d.is_ok() { "different".into() } else { "err".into() },
            ]))
        }
        // every Unicode scalar in [lo, hi) that the encoding can represent, through
        // decode_charset(encode_charset(..)): in chunks, failing chunks are bisected to single characters.
        // observations: number of scalars tested, failing scalars (hex, comma separated; `-` if none),
        // failing chunks none of whose characters fails alone (first scalar of each).
        ("o.c22.sweep", [label, lo, hi]) => {
            let label_b = unhex(label)?;
            let (lo, hi): (u32, u32) = (lo.parse().ok()?, hi.parse().ok()?);
            let enc = encoding_rs::Encoding::for_label(&label_b)?;
            let extra = [("l", vb(&label_b))];
            let rt = |t: &str| -> bool {
                match run_with("encode_charset!(.b, .l)", "b", t.as_bytes(), &extra) {
                    Ok(e) => matches!(run_with("decode_charset!(.e, .l)", "e", &e, &extra), Ok(d) if d == t.as_bytes()),
                    Err(_) => false,
                }
            };
            let mut tested = 0u64;
            let mut bad: Vec<u32> = Vec::new();
            let mut ctx: Vec<u32> = Vec::new();
            let mut chunk = String::new();
            let mut flush = |chunk: &mut String, bad: &mut Vec<u32>, ctx: &mut Vec<u32>| {
                if chunk.is_empty() {
                    return;
                }
                // a leading 'a' keeps byte-order-mark sniffing out of the chunk test
                let t = format!("a{chunk}");
                if !rt(&t) {
                    let before = bad.len();
                    for c in chunk.chars() {
                        if !rt(&format!("a{c}")) {
                            bad.push(c as u32);
                        }
                    }
                    if bad.len() == before {
                        ctx.push(chunk.chars().next().unwrap() as u32);
                    }
                }
                chunk.clear();
            };
            for cp in lo..hi {
                let Some(c) = char::from_u32(cp) else { continue };
                let mut buf = [0u8; 4];
                let (_, _, unmappable) = enc.encode(c.encode_utf8(&mut buf));
                if unmappable {
                    continue;
                }
                tested += 1;
                chunk.push(c);
                if chunk.chars().count() >= 256 {
                    flush(&mut chunk, &mut bad, &mut ctx);
                }
            }
            flush(&mut chunk, &mut bad, &mut ctx);
            let list = |v: &[u32]| if v.is_empty() { "-".to_string() } else { v.iter().map(|c| format!("{c:x}")).collect::<Vec<_>>().join(",") };
            Some(Reply::oracle(vec![enc.name().to_string(), tested.to_string(), list(&bad), list(&ctx)]))
        }
        // scratch: run any program on `.b`
        ("c22.probe", [src, b]) => {
            let b = unhex(b)?;
            let r = crate::vrlrun_c22::run_vrl(src, event_of(&[("b", &b)]));
            Some(Reply::plain(match r {
                Ok(Value::Bytes(x)) => format!("ok {}", hex(&x)),
                Ok(v) => format!("ok-value {v}"),
                Err(e) => format!("ERR {}", e.replace(['\n', '\t'], " ")),
            }))
        }
        _ => None,
    }
}

// ---------------------------------------------------------------------------------------------
// generators

/// block / padding boundaries of the codecs (base64 groups, deflate/lz4/snappy blocks, 4 KiB cap)
const BOUNDARY_LENS: &[usize] = &[
    0, 1, 2, 3, 4, 5, 6, 7, 8, 9, 11, 12, 13, 15, 16, 17, 31, 32, 33, 47, 48, 49, 63, 64, 65, 127, 128, 129, 255, 256,
    257, 511, 512, 513, 1023, 1024, 1025, 2047, 2048, 2049, 4093, 4094, 4095, 4096,
];

fn gen_len(rng: &mut Rng) -> usize {
    match rng.below(20) {
        0..=3 => rng.below(9) as usize,
        4..=9 => rng.below(81) as usize,
        10..=13 => *rng.pick(BOUNDARY_LENS),
        14..=17 => rng.below(1025) as usize,
        _ => rng.below(4097) as usize,
    }
}

const TEXT_CHARS: &[char] = &[
    'a', 'b', 'z', 'A', 'F', 'Z', '0', '1', '9', ' ', '%', '%', '+', '/', '-', '_', '=', '~', '.', '!', '*', '\'', '(',
    ')', ';', ':', '@', '&', '$', ',', '?', '#', '[', ']', '"', '<', '>', '`', '{', '}', '|', '\\', '^', '\t', '\n',
    '\u{0}', '\u{7f}', 'é', 'ß', 'ñ', 'ü', 'λ', 'Ж', 'я', 'א', 'ع', '中', '日', 'あ', 'ｱ', '한', '€', '−', '¥', '‾',
    '\u{feff}', '\u{fffd}', '\u{800}', '\u{ffff}', '😀', '\u{10000}', '\u{10ffff}', 'ï', '»', '¿', 'ÿ', 'þ',
];

#[derive(Clone, Copy, PartialEq)]
enum Kind {
    Random,
    Repeat,
    Pattern,
    Ascii,
    Utf8,
    Percenty,
    High,
}
const KINDS: &[Kind] = &[Kind::Random, Kind::Repeat, Kind::Pattern, Kind::Ascii, Kind::Utf8, Kind::Percenty, Kind::High];

fn gen_bytes(rng: &mut Rng, len: usize, kind: Kind) -> Vec<u8> {
    match kind {
        Kind::Random => (0..len).map(|_| rng.below(256) as u8).collect(),
        Kind::Repeat => {
            let b = rng.below(256) as u8;
            vec![b; len]
        }
        Kind::Pattern => {
            let plen = 1 + rng.below(12) as usize;
            let pat: Vec<u8> = (0..plen).map(|_| rng.below(256) as u8).collect();
            (0..len).map(|i| if rng.chance(1, 40) { rng.below(256) as u8 } else { pat[i % plen] }).collect()
        }
        Kind::Ascii => (0..len).map(|_| rng.below(128) as u8).collect(),
        Kind::Utf8 => {
            let mut s = String::new();
            while s.len() < len {
                s.push(*rng.pick(TEXT_CHARS));
            }
            // cut at a char boundary not above len
            let mut l = len.min(s.len());
            while !s.is_char_boundary(l) {
                l -= 1;
            }
            s.as_bytes()[..l].to_vec()
        }
        Kind::Percenty => {
            const P: &[u8] = b"%%%%0123456789abcdefABCDEFgG xyz/+";
            (0..len).map(|_| *rng.pick(P)).collect()
        }
        Kind::High => (0..len).map(|_| 0x80 + rng.below(128) as u8).collect(),
    }
}

/// mostly-valid encoded text: an encoder output with a few local mutations
fn mutate(rng: &mut Rng, enc: &[u8], alphabet: &[u8]) -> Vec<u8> {
    let mut v = enc.to_vec();
    let k = 1 + rng.below(3);
    for _ in 0..k {
        let pos = if v.is_empty() { 0 } else { rng.below(v.len() as u64 + 1) as usize };
        match rng.below(8) {
            0 if !v.is_empty() => {
                let p = pos.min(v.len() - 1);
                v[p] = *rng.pick(alphabet);
            }
            1 => v.insert(pos, *rng.pick(alphabet)),
            2 if !v.is_empty() => {
                v.remove(pos.min(v.len() - 1));
            }
            3 => v.push(b'='),
            4 => v.truncate(pos),
            5 if !v.is_empty() => {
                let p = pos.min(v.len() - 1);
                v[p] = rng.below(256) as u8;
            }
            6 if !v.is_empty() => {
                let p = pos.min(v.len() - 1);
                v[p] = if v[p].is_ascii_lowercase() { v[p].to_ascii_uppercase() } else { v[p].to_ascii_lowercase() };
            }
            _ => v.push(*rng.pick(alphabet)),
        }
    }
    v
}

const B64_ALPHA: &[u8] = b"ABCDEFGHIJKLMNOPQRSTUVWXYZabcdefghijklmnopqrstuvwxyz0123456789+/-_=== \n";
const B16_ALPHA: &[u8] = b"0123456789abcdefABCDEFgG xX";
const PCT_ALPHA: &[u8] = b"%%%%0123456789abcdefABCDEFgG +~";

/// every encoding of encoding_rs by name, plus labels that need `for_label`'s normalisation
/// (case, surrounding white space, aliases) and unknown labels
pub const CHARSET_LABELS: &[&str] = &[
    "UTF-8", "IBM866", "ISO-8859-2", "ISO-8859-3", "ISO-8859-4", "ISO-8859-5", "ISO-8859-6", "ISO-8859-7",
    "ISO-8859-8", "ISO-8859-8-I", "ISO-8859-10", "ISO-8859-13", "ISO-8859-14", "ISO-8859-15", "ISO-8859-16",
    "KOI8-R", "KOI8-U", "macintosh", "windows-874", "windows-1250", "windows-1251", "windows-1252", "windows-1253",
    "windows-1254", "windows-1255", "windows-1256", "windows-1257", "windows-1258", "x-mac-cyrillic", "GBK",
    "gb18030", "Big5", "EUC-JP", "ISO-2022-JP", "Shift_JIS", "EUC-KR", "replacement", "UTF-16BE", "UTF-16LE",
    "x-user-defined", "utf8", " Latin1\t", "UNICODE-1-1-UTF-8", "sjis", "gb2312", "euc-kr", "csisolatin2", "ascii",
    "no-such-charset", "",
];

fn charset_text(rng: &mut Rng, label: &str, len: usize) -> Vec<u8> {
    let Some(enc) = encoding_rs::Encoding::for_label(label.as_bytes()) else {
        return gen_bytes(rng, len, Kind::Utf8);
    };
    let mut s = String::new();
    match rng.below(6) {
        // text made of what the encoding itself decodes random bytes to (representable by construction,
        // except for the encodings that encode as UTF-8)
        0..=2 => {
            let raw: Vec<u8> = (0..len * 2).map(|_| rng.below(256) as u8).collect();
            let (t, _) = enc.decode_without_bom_handling(&raw);
            for c in t.chars().filter(|c| *c != '\u{fffd}') {
                if s.len() + c.len_utf8() > len {
                    break;
                }
                s.push(c);
            }
        }
        3 => {
            while s.len() < len {
                s.push((0x20 + rng.below(0x5f) as u8) as char);
            }
        }
        4 => return gen_bytes(rng, len, Kind::Utf8),
        // a text that begins with the characters a byte-order mark decodes to in this encoding
        _ => {
            let bom: &[u8] = *rng.pick(&[&[0xEF, 0xBB, 0xBF][..], &[0xFF, 0xFE][..], &[0xFE, 0xFF][..]]);
            let (t, _) = enc.decode_without_bom_handling(bom);
            s.push_str(&t);
            while s.len() < len {
                s.push((0x41 + rng.below(26) as u8) as char);
            }
        }
    }
    s.into_bytes()
}

const LABEL_CHARS: &[char] = &[
    'a', 'b', 'c', 'x', 'n', 'z', '0', '1', '9', '-', 'é', 'ü', 'ß', 'ñ', 'λ', 'σ', 'ж', 'я', '中', '日', 'あ', '한',
    'ö', 'å', 'ç',
];

fn gen_domain(rng: &mut Rng) -> Vec<u8> {
    let nlabels = 1 + rng.below(4);
    let mut parts: Vec<String> = Vec::new();
    for _ in 0..nlabels {
        let n = 1 + rng.below(12);
        let ascii_only = rng.chance(1, 3);
        let mut l = String::new();
        for _ in 0..n {
            let c = *rng.pick(if ascii_only { &LABEL_CHARS[..10] } else { LABEL_CHARS });
            l.push(c);
        }
        parts.push(l);
    }
    let mut d = parts.join(".");
    match rng.below(12) {
        0 => d.push('.'),
        1 => d = d.to_uppercase(),
        2 => d = format!("xn--{d}"),
        _ => {}
    }
    d.into_bytes()
}

fn hx(b: &[u8]) -> String {
    hex(b)
}

/// the three fully modelled codecs on one input: encoders, decoders on the encoder output,
/// decoders on mutated text, decoders on the raw input itself
fn emit_modelled(sink: &mut Sink, rng: &mut Rng, b: &[u8]) {
    let hb = hx(b);
    // base16
    if let Some(r) = sink.emit("c22.b16enc", &[hb.clone()]) {
        if let Some(e) = r.reply.strip_prefix("ok ").and_then(unhex) {
            let mut e2 = e.clone();
            if rng.chance(1, 2) {
                e2.make_ascii_uppercase();
            }
            sink.emit("c22.b16dec", &[hx(&e2)]);
            sink.emit("c22.b16dec", &[hx(&mutate(rng, &e, B16_ALPHA))]);
        }
    }
    sink.emit("c22.b16dec", &[hb.clone()]);
    // base64, every option combination
    for cs in B64_CHARSETS {
        let hcs = hx(cs.as_bytes());
        for pad in ["1", "0"] {
            if let Some(r) = sink.emit("c22.b64enc", &[hcs.clone(), pad.into(), hb.clone()]) {
                if let Some(e) = r.reply.strip_prefix("ok ").and_then(unhex) {
                    // matching decoder, and the decoder of the other alphabet
                    sink.emit("c22.b64dec", &[hcs.clone(), hx(&e)]);
                    let other = if *cs == "standard" { "url_safe" } else { "standard" };
                    sink.emit("c22.b64dec", &[hx(other.as_bytes()), hx(&e)]);
                    sink.emit("c22.b64dec", &[hcs.clone(), hx(&mutate(rng, &e, B64_ALPHA))]);
                }
            }
        }
        sink.emit("c22.b64dec", &[hcs.clone(), hb.clone()]);
    }
    // percent, every set
    for set in PCT_SETS {
        if let Some(r) = sink.emit("c22.pctenc", &[(*set).into(), hb.clone()]) {
            if let Some(e) = r.reply.strip_prefix("ok ").and_then(unhex) {
                sink.emit("c22.pctdec", &[hx(&e)]);
                if rng.chance(1, 3) {
                    sink.emit("c22.pctdec", &[hx(&mutate(rng, &e, PCT_ALPHA))]);
                }
            }
        }
    }
    sink.emit("c22.pctdec", &[hb]);
}

fn gzip_levels() -> Vec<String> {
    let mut v: Vec<String> = vec!["-".into()];
    v.extend((0..=9).map(|l: i64| l.to_string()));
    // `as u32` wraps: 2^32 + l is level l
    v.extend([4294967296i64, 4294967296 + 9, -4294967296 + 3].iter().map(|l| l.to_string()));
    v
}
/// zstd levels that are cheap to run (tables of the high levels take seconds to set up)
fn zstd_levels() -> Vec<String> {
    let mut v: Vec<String> = vec!["-".into()];
    v.extend((-7..=12).map(|l: i64| l.to_string()));
    // below the minimum level, `as i32` wrap-around: 2^32+3 is 3, 2^31 is i32::MIN
    v.extend([-100i64, -131072, -131073, -2147483648, 4294967296 + 3, 2147483648].iter().map(|l| l.to_string()));
    v
}
/// expensive zstd levels: 13..=22, above the maximum (clamped), i32::MAX, and -2^31-1 which wraps to i32::MAX
fn zstd_slow_levels() -> Vec<String> {
    let mut v: Vec<String> = (13..=22).map(|l: i64| l.to_string()).collect();
    v.extend([23i64, 100, 2147483647, -2147483649].iter().map(|l| l.to_string()));
    v
}

/// all option combinations of every codec that take bytes: (codec, opts)
fn all_byte_combos(len: usize) -> Vec<(String, String)> {
    let mut v: Vec<(String, String)> = Vec::new();
    v.push(("b16".into(), "-".into()));
    v.push(("b64default".into(), "-".into()));
    for cs in B64_CHARSETS {
        for pad in ["true", "false"] {
            v.push(("b64".into(), format!("{cs}/{pad}")));
        }
    }
    v.push(("pctdefault".into(), "-".into()));
    for set in PCT_SETS {
        v.push(("pct".into(), (*set).into()));
    }
    for l in gzip_levels() {
        v.push(("gzip".into(), l.clone()));
        v.push(("zlib".into(), l));
    }
    for l in zstd_levels() {
        v.push(("zstd".into(), l));
    }
    v.push(("snappy".into(), "-".into()));
    v.push(("lz4".into(), "true/-".into()));
    v.push(("lz4".into(), "true/0".into()));
    v.push(("lz4".into(), "false/-".into()));
    v.push(("lz4".into(), format!("false/{len}")));
    v.push(("lz4".into(), "false/4096".into()));
    v.push(("lz4frame".into(), "-".into()));
    v.push(("lz4frame".into(), "0".into()));
    v
}

fn emit_oracle(sink: &mut Sink, codec: &str, opts: &str, b: &[u8]) {
    if let Some(r) = sink.emit("o.c22", &[codec.into(), opts.into(), hx(b)]) {
        sink.count(&format!("c22:oracle:{codec}"));
        let enc_ok = r.obs.first().is_some_and(|e| e.starts_with("ok:"));
        if !enc_ok {
            sink.count(&format!("c22:encoder_failed:{codec}"));
        }
        match codec {
            "pct" | "pctdefault" => {
                if std::str::from_utf8(b).is_ok() {
                    sink.count("c22:pct:utf8_input");
                }
            }
            "charset" | "puny" => {
                if r.obs.last().is_some_and(|f| f == "1") {
                    sink.count(&format!("c22:{codec}:precondition_true"));
                } else {
                    sink.count(&format!("c22:{codec}:precondition_false"));
                }
            }
            _ => {}
        }
    }
}

pub fn generate(sink: &mut Sink, rng: &mut Rng, n: u64) {
    // ---- fixed edge cases ----------------------------------------------------------------
    // every single byte value, and every length 0..=70 of a counting pattern, through the modelled codecs
    for x in 0..=255u8 {
        emit_modelled(sink, rng, &[x]);
        sink.count("c22:edge:single_byte");
    }
    for len in 0..=70usize {
        let b: Vec<u8> = (0..len).map(|i| (i * 37 + len) as u8).collect();
        emit_modelled(sink, rng, &b);
        sink.count("c22:edge:len_0_70");
    }
    // every two-character text over a small percent-relevant alphabet after '%'
    for h in b"09afAFgG% ".iter() {
        for l in b"09afAFgG% ".iter() {
            emit_modelled(sink, rng, &[b'x', b'%', *h, *l, b'y']);
            for set in PCT_SETS {
                emit_oracle(sink, "pct", set, &[b'%', *h, *l]);
            }
        }
    }
    // glue: compression-level cast and limit
    for l in [
        -4294967297i64, -4294967296, -4294967295, -2147483649, -2147483648, -11, -1, 0, 1, 6, 9, 10, 11, 12, 255, 256,
        65536, 2147483647, 2147483648, 4294967295, 4294967296, 4294967297, 4294967306, 4294967307, i64::MAX, i64::MIN,
    ] {
        sink.emit("c22.level", &["gzip".into(), l.to_string()]);
        sink.emit("c22.level", &["zlib".into(), l.to_string()]);
    }
    // every option combination of every codec on every boundary length (exhaustive over options)
    for (i, len) in BOUNDARY_LENS.iter().enumerate() {
        let kind = KINDS[i % KINDS.len()];
        let b = gen_bytes(rng, *len, kind);
        for (codec, opts) in all_byte_combos(*len) {
            emit_oracle(sink, &codec, &opts, &b);
        }
        sink.count("c22:edge:all_options_x_boundary_len");
    }
    // expensive zstd levels: a few in the quick tier, all of them on three inputs in the thorough tier
    let thorough = n >= 20000;
    for l in zstd_slow_levels() {
        if thorough {
            for len in [0usize, 64, 4096] {
                let b = gen_bytes(rng, len, Kind::Pattern);
                emit_oracle(sink, "zstd", &l, &b);
            }
        } else if l == "16" || l == "19" || l == "22" {
            emit_oracle(sink, "zstd", &l, b"zstd level sample zstd level sample");
        }
    }
    // base64 charset names that `Base64Charset::from_slice` rejects
    for cs in ["", "Standard", "url-safe", "standard ", "urlsafe", "base64"] {
        sink.emit("c22.b64enc", &[hx(cs.as_bytes()), "1".into(), "00".into()]);
        sink.emit("c22.b64dec", &[hx(cs.as_bytes()), "4141".into()]);
    }
    // values made of padding only
    for k in 0..=9usize {
        for cs in B64_CHARSETS {
            sink.emit("c22.b64dec", &[hx(cs.as_bytes()), hx(&vec![b'='; k])]);
            let mut v = b"QQ".to_vec();
            v.extend(vec![b'='; k]);
            sink.emit("c22.b64dec", &[hx(cs.as_bytes()), hx(&v)]);
        }
    }
    // every charset label on a text it can represent and on mixed text
    for label in CHARSET_LABELS {
        for len in [0usize, 1, 7, 64, 300] {
            let t = charset_text(rng, label, len);
            emit_oracle(sink, "charset", &hx(label.as_bytes()), &t);
            sink.emit("c22.charset.panics", &[hx(&t)]);
        }
    }
    // exhaustive over Unicode scalars: every representable scalar of an encoding through the round trip
    // (the encodings that encode as UTF-8 are left to the o.c22 cases: every scalar fails there)
    let sweep_labels: Vec<&str> = if thorough {
        CHARSET_LABELS[..40].iter().copied().filter(|l| !["replacement", "UTF-16BE", "UTF-16LE"].contains(l)).collect()
    } else {
        vec!["Shift_JIS", "EUC-JP", "ISO-2022-JP", "GBK", "Big5", "EUC-KR", "windows-1252", "KOI8-R"]
    };
    for l in sweep_labels {
        if sink.emit("o.c22.sweep", &[hx(l.as_bytes()), "0".into(), "1114112".into()]).is_some() {
            sink.count("c22:charset:exhaustive_scalar_sweeps");
        }
    }
    // punycode: fixed domains × the four validate combinations
    let fixed_domains: &[&str] = &[
        "", ".", "a", "example.com", "www.café.com", "bücher.example", "münchen.de", "日本語.jp", "пример.испытание",
        "a-b.c-d", "xn--caf-dma.com", "www.CAFé.com", "straße.de", "ελληνικά.gr", "a..b", "ab--c.com", "-a.com", "a-.com",
        "한국.kr", "faß.de.", "123.456",
    ];
    let puny_opts = ["true/true", "false/false", "true/false", "false/true"];
    for d in fixed_domains {
        for o in puny_opts {
            emit_oracle(sink, "puny", o, d.as_bytes());
        }
    }

    // ---- seeded stream ---------------------------------------------------------------------
    let combos_proto = all_byte_combos(0);
    for it in 0..n {
        let len = gen_len(rng);
        let kind = *rng.pick(KINDS);
        let b = gen_bytes(rng, len, kind);
        sink.count(match kind {
            Kind::Random => "c22:kind:random",
            Kind::Repeat => "c22:kind:repeat",
            Kind::Pattern => "c22:kind:pattern",
            Kind::Ascii => "c22:kind:ascii",
            Kind::Utf8 => "c22:kind:utf8_text",
            Kind::Percenty => "c22:kind:percent_heavy",
            Kind::High => "c22:kind:high_bytes",
        });
        sink.count(match len {
            0 => "c22:len:0",
            1..=16 => "c22:len:1-16",
            17..=256 => "c22:len:17-256",
            257..=1024 => "c22:len:257-1024",
            _ => "c22:len:1025-4096",
        });
        // correspondence on the modelled codecs (every option each time); large inputs less often
        if len <= 256 || it % 4 == 0 {
            emit_modelled(sink, rng, &b);
        }
        // oracle: three option combinations per input, cycling through all of them
        for k in 0..3u64 {
            let idx = ((it * 3 + k) as usize) % combos_proto.len();
            let (codec, mut opts) = combos_proto[idx].clone();
            if codec == "lz4" && opts == "false/0" {
                opts = format!("false/{}", len + rng.below(3) as usize);
            }
            emit_oracle(sink, &codec, &opts, &b);
        }
        // percent oracle on UTF-8 text with a set that leaves '%' alone and one that does not
        if matches!(kind, Kind::Utf8 | Kind::Percenty | Kind::Ascii) {
            let set = *rng.pick(PCT_SETS);
            emit_oracle(sink, "pct", set, &b);
        }
        // charset
        if it % 2 == 0 {
            let label = *rng.pick(CHARSET_LABELS);
            let t = charset_text(rng, label, len.min(600));
            emit_oracle(sink, "charset", &hx(label.as_bytes()), &t);
            if it % 16 == 0 {
                sink.emit("c22.charset.panics", &[hx(&b[..b.len().min(64)])]);
            }
        }
        // punycode
        if it % 2 == 1 {
            let d = gen_domain(rng);
            let o = *rng.pick(&puny_opts);
            emit_oracle(sink, "puny", o, &d);
        }
    }
}
