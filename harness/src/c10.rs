//! C10 – comparisons are consistent; integer equality exact.
//! Correspondence: `ar.{gt,ge,lt,le,eq,ne}`, `vrl.{…}`, `vrl.lit.{…}`, `f64.{lt,le,eq}` (see arith.rs).
//! Oracle `o.c10 <a> <b>`: the six operator results observed through compiled VRL programs.
use crate::arith::*;
use crate::rng::Rng;
use crate::sink::{Reply, Sink};
use crate::wire::*;
use vrl::value::Value;

const CMP: &[&str] = &["lt", "le", "eq", "ne", "gt", "ge"];

fn short(r: &str) -> String {
    match r {
        "ok t" => "t".into(),
        "ok f" => "f".into(),
        x if x.starts_with("err:") => "err".into(),
        x => x.replace(' ', "_"),
    }
}

pub fn exec(op: &str, a: &[String]) -> Option<Reply> {
    match (op, a) {
        ("o.c10", [x, y]) => {
            let (x, y) = (parse_value(x)?, parse_value(y)?);
            let obs = CMP.iter().map(|c| via_vrl(c, &x, &y).map(|r| short(&r))).collect::<Option<Vec<_>>>()?;
            Some(Reply::oracle(obs))
        }
        _ => None,
    }
}

fn emit_pair(sink: &mut Sink, rng: &mut Rng, a: &Value, b: &Value, all: bool) {
    let (sa, sb) = (show_value(a), show_value(b));
    let args = [sa, sb];
    for c in CMP {
        sink.emit(&format!("ar.{c}"), &args);
    }
    if let (Value::Float(x), Value::Float(y)) = (a, b) {
        let fa = [format!("d:{:016x}", x.to_bits()), format!("d:{:016x}", y.to_bits())];
        for c in ["lt", "le", "eq"] {
            sink.emit(&format!("f64.{c}"), &fa);
        }
    }
    if let Value::Integer(i) = a {
        sink.emit("f64.ofint", &[i.to_string()]);
    }
    if all || rng.chance(1, 4) {
        for c in CMP {
            sink.emit(&format!("vrl.{c}"), &args);
        }
    }
    if all || rng.chance(1, 8) {
        for c in CMP {
            if sink.emit(&format!("vrl.lit.{c}"), &args).is_some() {
                sink.count("c10:literal_program");
            }
        }
    }
    sink.emit("o.c10", &args);
}

pub fn generate(sink: &mut Sink, rng: &mut Rng, n: u64) {
    for (a, b) in edge_pairs() {
        emit_pair(sink, rng, &a, &b, true);
        sink.count("c10:edge_pair");
    }
    for _ in 0..n {
        let (a, b, bucket) = gen_pair(rng);
        sink.count(&format!("c10:{bucket}"));
        if let (Value::Integer(x), Value::Integer(y)) = (&a, &b) {
            if x != y && (*x as f64) == (*y as f64) {
                sink.count("c10:int_pair_collapsing_in_f64");
            }
        }
        emit_pair(sink, rng, &a, &b, false);
    }
}
