//! C26 – protobuf round trip.  Runs the REAL `encode_proto` / `parse_proto` through compiled VRL
//! programs (and `encode_message` / `proto_to_value` / prost-reflect's wire codec through the public
//! Rust API) on descriptor-directed values for every message type of every descriptor set under
//! /repo/tests/data/protobuf.
//!
//! ops (the descriptor is named by `<file relative to the data dir>:<message full name>`; the
//! second input is its serialisation for the Lean model, see lean/VrlModel/ProtoWire.lean):
//!   c26.rt    desc pool v   -> `err` (encode_proto failed) | `perr` (parse_proto failed) | `ok <value>`
//!   c26.pv    desc pool v   -> `err` | `ok <abstract wire value of encode_message(v)>`   (c26.pvs: strict string coercion)
//!   c26.parse desc pool pv  -> `perr` | `ok <value>`   (proto_to_value on a DynamicMessage built from pv)
//!   o.c26     desc pool v   -> observations: accepted? + result of the round trip
//!   o.c26.wire desc pool v  -> observations: message before / after DynamicMessage encode+decode
//!   f32.of_f64 / f32.to_f64 / f32.of_int : the float casts the `float` fields go through
use crate::gens::*;
use crate::rng::Rng;
use crate::sink::{guarded, Reply, Sink};
use crate::wire::*;
use prost::Message;
use prost_reflect::{DescriptorPool, DynamicMessage, FieldDescriptor, Kind, MapKey, MessageDescriptor, ReflectMessage};
use std::sync::OnceLock;
use vrl::value::{ObjectMap, Value};

const DATA: &str = "/repo/tests/data/protobuf";

pub struct Entry {
    pub id: String,
    pub file: String,
    pub desc: MessageDescriptor,
    pub pool_text: String,
    pub msgs: Vec<MessageDescriptor>,
}

fn walk(dir: &std::path::Path, out: &mut Vec<std::path::PathBuf>) {
    let Ok(rd) = std::fs::read_dir(dir) else { return };
    let mut es: Vec<_> = rd.filter_map(Result::ok).map(|e| e.path()).collect();
    es.sort();
    for p in es {
        if p.is_dir() {
            walk(&p, out);
        } else if p.extension().is_some_and(|e| e == "desc") {
            out.push(p);
        }
    }
}

fn scalar_name(k: &Kind) -> Option<&'static str> {
    Some(match k {
        Kind::Double => "double",
        Kind::Float => "float",
        Kind::Int32 => "int32",
        Kind::Int64 => "int64",
        Kind::Uint32 => "uint32",
        Kind::Uint64 => "uint64",
        Kind::Sint32 => "sint32",
        Kind::Sint64 => "sint64",
        Kind::Fixed32 => "fixed32",
        Kind::Fixed64 => "fixed64",
        Kind::Sfixed32 => "sfixed32",
        Kind::Sfixed64 => "sfixed64",
        Kind::Bool => "bool",
        Kind::String => "string",
        Kind::Bytes => "bytes",
        _ => return None,
    })
}

/// Serialise everything reachable from `root` (index 0). `None` when the descriptor uses a
/// feature the model does not have (real oneof, group, extension).
fn dump_pool(root: &MessageDescriptor) -> Option<(String, Vec<MessageDescriptor>)> {
    let mut msgs: Vec<MessageDescriptor> = vec![root.clone()];
    let mut enums: Vec<prost_reflect::EnumDescriptor> = Vec::new();
    let mut mtext: Vec<String> = Vec::new();
    let mut i = 0;
    while i < msgs.len() {
        let m = msgs[i].clone();
        i += 1;
        if m.extensions().next().is_some() || m.oneofs().any(|o| o.fields().any(|f| !f.field_descriptor_proto().proto3_optional())) {
            return None;
        }
        let mut ftext = Vec::new();
        for f in m.fields() {
            if f.is_group() {
                return None;
            }
            let mut kind_text = |k: &Kind| -> String {
                match k {
                    Kind::Message(md) => {
                        let idx = match msgs.iter().position(|x| x.full_name() == md.full_name()) {
                            Some(p) => p,
                            None => {
                                msgs.push(md.clone());
                                msgs.len() - 1
                            }
                        };
                        format!("m:{idx}")
                    }
                    Kind::Enum(ed) => {
                        let idx = match enums.iter().position(|x| x.full_name() == ed.full_name()) {
                            Some(p) => p,
                            None => {
                                enums.push(ed.clone());
                                enums.len() - 1
                            }
                        };
                        format!("e:{idx}")
                    }
                    k => format!("s:{}", scalar_name(k).unwrap()),
                }
            };
            let (kind, card) = if f.is_map() {
                let Kind::Message(entry) = f.kind() else { return None };
                let key = entry.map_entry_key_field().kind();
                let val = entry.map_entry_value_field().kind();
                (kind_text(&val), format!("map:{}", scalar_name(&key)?))
            } else {
                let card = if f.is_list() {
                    "rep"
                } else if f.supports_presence() {
                    "opt"
                } else {
                    "sing"
                };
                (kind_text(&f.kind()), card.to_string())
            };
            ftext.push(format!("f n:{} {} {} {}", hex(f.name().as_bytes()), f.number(), kind, card));
        }
        let ts = if m.full_name() == "google.protobuf.Timestamp" { 1 } else { 0 };
        let mut t = format!("m {} {}", ts, ftext.len());
        for f in ftext {
            t.push(' ');
            t.push_str(&f);
        }
        mtext.push(t);
    }
    let mut text = format!("P {} {}", msgs.len(), enums.len());
    for t in mtext {
        text.push(' ');
        text.push_str(&t);
    }
    for e in &enums {
        let vals: Vec<_> = e.values().collect();
        text.push_str(&format!(" e {} {}", e.default_value().number(), vals.len()));
        for v in vals {
            text.push_str(&format!(" n:{} {}", hex(v.name().as_bytes()), v.number()));
        }
    }
    Some((text, msgs))
}

pub fn catalogue() -> &'static Vec<Entry> {
    static CAT: OnceLock<Vec<Entry>> = OnceLock::new();
    CAT.get_or_init(|| {
        let mut files = Vec::new();
        walk(std::path::Path::new(DATA), &mut files);
        let mut out = Vec::new();
        for p in files {
            let Ok(bytes) = std::fs::read(&p) else { continue };
            let Ok(pool) = DescriptorPool::decode(bytes.as_slice()) else { continue };
            let rel = p.strip_prefix(DATA).unwrap().to_str().unwrap().trim_start_matches('/').to_string();
            let mut ms: Vec<MessageDescriptor> = pool.all_messages().filter(|m| !m.is_map_entry()).collect();
            ms.sort_by(|a, b| a.full_name().cmp(b.full_name()));
            for m in ms {
                if let Some((pool_text, msgs)) = dump_pool(&m) {
                    out.push(Entry { id: format!("{rel}:{}", m.full_name()), file: rel.clone(), desc: m, pool_text, msgs });
                }
            }
        }
        out
    })
}

fn entry(id: &str) -> Option<&'static Entry> {
    catalogue().iter().find(|e| e.id == id)
}

fn src_encode(e: &Entry) -> String {
    format!("encode_proto!(.v, \"{DATA}/{}\", \"{}\")", e.file, e.desc.full_name())
}
fn src_parse(e: &Entry) -> String {
    format!("parse_proto!(.b, \"{DATA}/{}\", \"{}\")", e.file, e.desc.full_name())
}

fn event(key: &str, v: Value) -> Value {
    let mut m = ObjectMap::new();
    m.insert(key.into(), v);
    Value::Object(m)
}

pub enum Rt {
    EncErr,
    ParseErr,
    Ok(Value),
    Panic,
}

/// the REAL functions through compiled VRL programs
pub fn round_trip(e: &Entry, v: &Value) -> Option<Rt> {
    let (se, sp) = (src_encode(e), src_parse(e));
    let v = v.clone();
    let r = guarded(move || {
        let enc = match crate::vrlrun::run_vrl(&se, event("v", v)) {
            Ok(b) => b,
            Err(m) if m == "compile-error" => return None,
            Err(_) => return Some(Rt::EncErr),
        };
        match crate::vrlrun::run_vrl(&sp, event("b", enc)) {
            Ok(x) => Some(Rt::Ok(x)),
            Err(m) if m == "compile-error" => None,
            Err(_) => Some(Rt::ParseErr),
        }
    });
    match r {
        Ok(x) => x,
        Err(_) => Some(Rt::Panic),
    }
}

fn show_key(k: &MapKey) -> String {
    match k {
        MapKey::Bool(b) => format!("kb:{}", if *b { "t" } else { "f" }),
        MapKey::I32(i) => format!("ki32:{i}"),
        MapKey::I64(i) => format!("ki64:{i}"),
        MapKey::U32(i) => format!("ku32:{i}"),
        MapKey::U64(i) => format!("ku64:{i}"),
        MapKey::String(s) => format!("ks:{}", hex(s.as_bytes())),
    }
}

fn show_pv(v: &prost_reflect::Value, e: &Entry) -> String {
    use prost_reflect::Value as P;
    match v {
        P::Bool(b) => format!("B:{}", if *b { "t" } else { "f" }),
        P::I32(i) => format!("i32:{i}"),
        P::I64(i) => format!("i64:{i}"),
        P::U32(i) => format!("u32:{i}"),
        P::U64(i) => format!("u64:{i}"),
        P::F32(f) => format!("f32:{:08x}", f.to_bits()),
        P::F64(f) => format!("f64:{:016x}", f.to_bits()),
        P::String(s) => format!("s:{}", hex(s.as_bytes())),
        P::Bytes(b) => format!("y:{}", hex(b)),
        P::EnumNumber(n) => format!("en:{n}"),
        P::Message(m) => show_msg(m, e),
        P::List(xs) => {
            let mut s = String::from("L [");
            for x in xs {
                s.push(' ');
                s.push_str(&show_pv(x, e));
            }
            s.push_str(" ]");
            s
        }
        P::Map(m) => {
            let mut items: Vec<(String, String)> = m.iter().map(|(k, x)| (show_key(k), show_pv(x, e))).collect();
            items.sort();
            let mut s = String::from("P (");
            for (k, x) in items {
                s.push(' ');
                s.push_str(&k);
                s.push(' ');
                s.push_str(&x);
            }
            s.push_str(" )");
            s
        }
    }
}

/// the message as `has_field` / `get_field` show it (what `proto_to_value` can observe)
fn show_msg(m: &DynamicMessage, e: &Entry) -> String {
    let d = m.descriptor();
    let idx = e.msgs.iter().position(|x| x.full_name() == d.full_name()).map_or("?".to_string(), |i| i.to_string());
    let mut s = format!("M {idx} {{");
    for f in d.fields() {
        if m.has_field(&f) {
            s.push_str(&format!(" {} {}", f.number(), show_pv(m.get_field(&f).as_ref(), e)));
        }
    }
    s.push_str(" }");
    s
}

// ---- DynamicMessage from the text of an abstract wire value (for c26.parse) ----

fn parse_key(t: &str) -> Option<MapKey> {
    Some(match t {
        "kb:t" => MapKey::Bool(true),
        "kb:f" => MapKey::Bool(false),
        _ => {
            if let Some(x) = t.strip_prefix("ki32:") {
                MapKey::I32(x.parse().ok()?)
            } else if let Some(x) = t.strip_prefix("ki64:") {
                MapKey::I64(x.parse().ok()?)
            } else if let Some(x) = t.strip_prefix("ku32:") {
                MapKey::U32(x.parse().ok()?)
            } else if let Some(x) = t.strip_prefix("ku64:") {
                MapKey::U64(x.parse().ok()?)
            } else if let Some(x) = t.strip_prefix("ks:") {
                MapKey::String(String::from_utf8(unhex(x)?).ok()?)
            } else {
                return None;
            }
        }
    })
}

fn parse_pv(toks: &[&str], pos: &mut usize, e: &Entry) -> Option<prost_reflect::Value> {
    use prost_reflect::Value as P;
    let t = *toks.get(*pos)?;
    *pos += 1;
    Some(match t {
        "B:t" => P::Bool(true),
        "B:f" => P::Bool(false),
        "M" => {
            let r: usize = toks.get(*pos)?.parse().ok()?;
            *pos += 1;
            if *toks.get(*pos)? != "{" {
                return None;
            }
            *pos += 1;
            let d = e.msgs.get(r)?.clone();
            let mut m = DynamicMessage::new(d.clone());
            while *toks.get(*pos)? != "}" {
                let num: u32 = toks.get(*pos)?.parse().ok()?;
                *pos += 1;
                let v = parse_pv(toks, pos, e)?;
                let f: FieldDescriptor = d.get_field(num)?;
                m.try_set_field(&f, v).ok()?;
            }
            *pos += 1;
            P::Message(m)
        }
        "L" => {
            if *toks.get(*pos)? != "[" {
                return None;
            }
            *pos += 1;
            let mut xs = Vec::new();
            while *toks.get(*pos)? != "]" {
                xs.push(parse_pv(toks, pos, e)?);
            }
            *pos += 1;
            P::List(xs)
        }
        "P" => {
            if *toks.get(*pos)? != "(" {
                return None;
            }
            *pos += 1;
            let mut m = std::collections::HashMap::new();
            while *toks.get(*pos)? != ")" {
                let k = parse_key(toks.get(*pos)?)?;
                *pos += 1;
                let v = parse_pv(toks, pos, e)?;
                m.insert(k, v);
            }
            *pos += 1;
            P::Map(m)
        }
        _ => {
            if let Some(x) = t.strip_prefix("i32:") {
                P::I32(x.parse().ok()?)
            } else if let Some(x) = t.strip_prefix("i64:") {
                P::I64(x.parse().ok()?)
            } else if let Some(x) = t.strip_prefix("u32:") {
                P::U32(x.parse().ok()?)
            } else if let Some(x) = t.strip_prefix("u64:") {
                P::U64(x.parse().ok()?)
            } else if let Some(x) = t.strip_prefix("f32:") {
                P::F32(f32::from_bits(u32::from_str_radix(x, 16).ok()?))
            } else if let Some(x) = t.strip_prefix("f64:") {
                P::F64(f64::from_bits(u64::from_str_radix(x, 16).ok()?))
            } else if let Some(x) = t.strip_prefix("s:") {
                P::String(String::from_utf8(unhex(x)?).ok()?)
            } else if let Some(x) = t.strip_prefix("y:") {
                P::Bytes(unhex(x)?.into())
            } else if let Some(x) = t.strip_prefix("en:") {
                P::EnumNumber(x.parse().ok()?)
            } else {
                return None;
            }
        }
    })
}

fn pv_of_text(s: &str, e: &Entry) -> Option<prost_reflect::Value> {
    let toks: Vec<&str> = s.split(' ').filter(|t| !t.is_empty()).collect();
    let mut pos = 0;
    let v = parse_pv(&toks, &mut pos, e)?;
    if pos == toks.len() { Some(v) } else { None }
}

fn encode_message_opt(e: &Entry, v: &Value, lossy: bool) -> Result<Result<DynamicMessage, String>, String> {
    let (d, v) = (e.desc.clone(), v.clone());
    let options = vrl::protobuf::encode::Options { use_json_names: false, allow_lossy_string_coercion: lossy };
    guarded(move || vrl::protobuf::encode::encode_message(&d, v, &options))
}

fn encode_message(e: &Entry, v: &Value) -> Result<Result<DynamicMessage, String>, String> {
    encode_message_opt(e, v, true)
}

fn hx(s: &str, n: usize) -> Option<u64> {
    if s.len() != n {
        return None;
    }
    u64::from_str_radix(s, 16).ok()
}

pub fn exec(op: &str, a: &[String]) -> Option<Reply> {
    match (op, a) {
        ("c26.rt", [id, pool, v]) => {
            let e = entry(id)?;
            if *pool != e.pool_text {
                return None;
            }
            let v = parse_value(v)?;
            Some(Reply::plain(match round_trip(e, &v)? {
                Rt::EncErr => "err".to_string(),
                Rt::ParseErr => "perr".to_string(),
                Rt::Ok(x) => format!("ok {}", show_value(&x)),
                Rt::Panic => "panic".to_string(),
            }))
        }
        ("c26.pv", [id, pool, v]) => {
            let e = entry(id)?;
            if *pool != e.pool_text {
                return None;
            }
            let v = parse_value(v)?;
            Some(Reply::plain(match encode_message(e, &v) {
                Ok(Ok(m)) => format!("ok {}", show_msg(&m, e)),
                Ok(Err(_)) => "err".to_string(),
                Err(_) => "panic".to_string(),
            }))
        }
        // strict mode: `allow_lossy_string_coercion: false`
        ("c26.pvs", [id, pool, v]) => {
            let e = entry(id)?;
            if *pool != e.pool_text {
                return None;
            }
            let v = parse_value(v)?;
            Some(Reply::plain(match encode_message_opt(e, &v, false) {
                Ok(Ok(m)) => format!("ok {}", show_msg(&m, e)),
                Ok(Err(_)) => "err".to_string(),
                Err(_) => "panic".to_string(),
            }))
        }
        ("c26.parse", [id, pool, pv]) => {
            let e = entry(id)?;
            if *pool != e.pool_text {
                return None;
            }
            let pv = pv_of_text(pv, e)?;
            let r = guarded(move || vrl::protobuf::parse::proto_to_value(&pv, None, &vrl::protobuf::parse::Options::default()));
            Some(Reply::plain(match r {
                Ok(Ok(x)) => format!("ok {}", show_value(&x)),
                Ok(Err(_)) => "perr".to_string(),
                Err(_) => "panic".to_string(),
            }))
        }
        ("o.c26", [id, pool, v]) => {
            let e = entry(id)?;
            if *pool != e.pool_text {
                return None;
            }
            let v = parse_value(v)?;
            let (acc, res) = match round_trip(e, &v)? {
                Rt::EncErr => ("err", "-".to_string()),
                Rt::ParseErr => ("ok", "perr".to_string()),
                Rt::Ok(x) => ("ok", format!("ok {}", show_value(&x))),
                Rt::Panic => ("ok", "panic".to_string()),
            };
            Some(Reply::oracle(vec![acc.to_string(), res]))
        }
        ("o.c26.wire", [id, pool, v]) => {
            let e = entry(id)?;
            if *pool != e.pool_text {
                return None;
            }
            let v = parse_value(v)?;
            let before = encode_message(e, &v).ok()?.ok()?;
            let d = e.desc.clone();
            let b2 = before.clone();
            let after = guarded(move || DynamicMessage::decode(d, b2.encode_to_vec().as_slice())).ok()?.ok()?;
            Some(Reply::oracle(vec![show_msg(&before, e), show_msg(&after, e)]))
        }
        ("f32.of_f64", [b]) => {
            let x = f64::from_bits(hx(b, 16)?);
            Some(Reply::plain(format!("{:08x}", (x as f32).to_bits())))
        }
        ("f32.to_f64", [b]) => {
            let x = f32::from_bits(hx(b, 8)? as u32);
            Some(Reply::plain(format!("{:016x}", f64::from(x).to_bits())))
        }
        ("f32.of_int", [i]) => {
            let i: i64 = i.parse().ok()?;
            Some(Reply::plain(format!("{:08x}", (i as f32).to_bits())))
        }
        _ => None,
    }
}

// ---------------------------------------------------------------------------------------------
// generators

fn float(f: f64) -> Value {
    Value::Float(ordered_float::NotNan::new(if f.is_nan() { 0.5 } else { f }).unwrap())
}

fn gen_f32_exact(rng: &mut Rng) -> f64 {
    let x = match rng.below(8) {
        0 => 0.0f32,
        1 => -0.0,
        2 => 1.5,
        3 => f32::MAX,
        4 => f32::from_bits(rng.below(1 << 23) as u32),
        5 => f32::INFINITY,
        6 => rng.range(-4000, 4000) as f32 / 16.0,
        _ => f32::from_bits(rng.next() as u32),
    };
    if x.is_nan() { 0.25 } else { f64::from(x) }
}

fn gen_text(rng: &mut Rng) -> Vec<u8> {
    match rng.below(8) {
        0 => Vec::new(),
        1 => b"a".to_vec(),
        2 => "héllo wörld".as_bytes().to_vec(),
        3 => "日本 \u{1F600} \u{FFFD}".as_bytes().to_vec(),
        4 => KEYS[rng.below(KEYS.len() as u64) as usize].as_bytes().to_vec(),
        5 => format!("{}", rng.range(-300, 300)).into_bytes(),
        _ => (0..rng.below(5)).map(|_| b'a' + rng.below(26) as u8).collect(),
    }
}

/// texts that the coercions of `convert_value_raw` parse (booleans, integers of every width)
const COERCE_TEXT: &[&str] = &[
    "true", "false", "t", "f", "T", "yes", "No", "y", "n", "0", "1", "-7", "maybe", "TRUE", "\u{ff54}\u{ff52}\u{ff55}\u{ff45}", "+5", "007", "-0", "+", "-",
    " 5", "5 ", "99999999999999999999", "2147483647", "2147483648", "-2147483648", "-2147483649", "4294967295", "4294967296",
    "9223372036854775807", "9223372036854775808", "-9223372036854775808", "-9223372036854775809", "18446744073709551615",
    "18446744073709551616", "-1", "1_0", "0x10", "\u{661}\u{662}", "1e3", "FRUIT_OLIVE", "fruit_tomato", "PHONE_TYPE_HOME",
];

fn gen_bad_utf8(rng: &mut Rng) -> Vec<u8> {
    const BAD: &[&[u8]] = &[
        b"\xff", b"a\x80b", b"\xc3", b"\xe2\x82", b"\xf0\x9f\x98", b"\xed\xa0\x80", b"\xc0\xaf", b"\xf4\x90\x80\x80",
        b"\xe0\x80\x80", b"ok\xe2\x28\xa1", b"\xf0\x28\x8c\xbc", b"\xf8\x88\x80\x80\x80",
    ];
    if rng.chance(2, 3) {
        rng.pick(BAD).to_vec()
    } else {
        (0..1 + rng.below(6)).map(|_| rng.below(256) as u8).collect()
    }
}

fn gen_int_for(rng: &mut Rng, k: &Kind, clean: bool) -> i64 {
    let (lo, hi): (i64, i64) = match k {
        Kind::Int32 | Kind::Sint32 | Kind::Sfixed32 => (i32::MIN as i64, i32::MAX as i64),
        Kind::Uint32 | Kind::Fixed32 => (0, u32::MAX as i64),
        Kind::Uint64 | Kind::Fixed64 => (0, i64::MAX),
        _ => (i64::MIN, i64::MAX),
    };
    let x = match rng.below(8) {
        0 => 0,
        1 => lo,
        2 => hi,
        3 => rng.range(-3, 3),
        4 => *rng.pick(edge_ints()),
        5 => rng.next() as i64,
        _ => rng.range(0, 1000),
    };
    if clean && (x < lo || x > hi) {
        // fold into range
        if lo == 0 { (x as i128).rem_euclid(hi as i128 + 1) as i64 } else { (x as i32) as i64 }
    } else {
        x
    }
}

/// a value for one (non-repeated) occurrence of kind `k`; `clean` = stay message-shaped
fn gen_single(rng: &mut Rng, k: &Kind, depth: u32, clean: bool) -> Value {
    if !clean && rng.chance(1, 6) {
        // a value of an arbitrary other kind (coercions / type errors)
        return match rng.below(8) {
            0 => Value::Bytes(gen_text(rng).into()),
            1 => Value::Integer(rng.range(-2, 300)),
            2 => Value::Boolean(rng.chance(1, 2)),
            3 | 4 => Value::Bytes(rng.pick(COERCE_TEXT).as_bytes().to_vec().into()),
            5 => Value::Regex(vrl::value::ValueRegex::new(std::sync::Arc::new(
                regex::Regex::new(*rng.pick(&["a+", "^x$", "", "[0-9]", "7"])).unwrap(),
            ))),
            _ => gen_value(rng, 1, SIMPLE_KEYS),
        };
    }
    match k {
        Kind::Double => float(gen_float(rng)),
        Kind::Float => {
            if clean || rng.chance(1, 2) {
                float(gen_f32_exact(rng))
            } else {
                float(gen_float(rng))
            }
        }
        Kind::Bool => Value::Boolean(rng.chance(1, 2)),
        Kind::String => {
            if !clean && rng.chance(1, 3) {
                Value::Bytes(gen_bad_utf8(rng).into())
            } else {
                Value::Bytes(gen_text(rng).into())
            }
        }
        Kind::Bytes => Value::Bytes(if rng.chance(1, 2) { gen_bytes(rng) } else { gen_bad_utf8(rng) }.into()),
        Kind::Enum(ed) => {
            let vals: Vec<_> = ed.values().collect();
            let v = rng.pick(&vals);
            if clean {
                Value::Bytes(v.name().as_bytes().to_vec().into())
            } else {
                match rng.below(6) {
                    0 => Value::Bytes(v.name().to_ascii_lowercase().into_bytes().into()),
                    1 => Value::Integer(i64::from(v.number())),
                    2 => Value::Integer(rng.range(-2, 9)),
                    3 => Value::Bytes(b"NO_SUCH_VALUE".to_vec().into()),
                    4 => Value::Integer(*rng.pick(edge_ints())),
                    _ => Value::Bytes(v.name().as_bytes().to_vec().into()),
                }
            }
        }
        Kind::Message(md) => {
            if md.full_name() == "google.protobuf.Timestamp" && !clean && rng.chance(1, 2) {
                return Value::Timestamp(
                    chrono::DateTime::from_timestamp(rng.range(-10_000_000_000, 10_000_000_000), rng.below(1_000_000_000) as u32)
                        .unwrap(),
                );
            }
            gen_message(rng, md, depth.saturating_sub(1), clean)
        }
        k => Value::Integer(gen_int_for(rng, k, clean)),
    }
}

fn gen_map_key(rng: &mut Rng, k: &Kind, clean: bool) -> String {
    if !clean && rng.chance(1, 3) {
        return rng.pick(&["01", "+1", "-0", "x", "", "1.0", " 1", "TRUE", "4294967296", "-1", "18446744073709551616"]).to_string();
    }
    match k {
        Kind::String => rng.pick(KEYS).to_string(),
        Kind::Bool => if rng.chance(1, 2) { "true" } else { "false" }.to_string(),
        k => gen_int_for(rng, k, true).to_string(),
    }
}

fn gen_field(rng: &mut Rng, f: &FieldDescriptor, depth: u32, clean: bool) -> Value {
    if !clean && rng.chance(1, 12) {
        // wrong container
        return if f.is_list() || f.is_map() {
            gen_single(rng, &f.kind(), depth, false)
        } else {
            Value::Array(vec![gen_single(rng, &f.kind(), depth, true)])
        };
    }
    if f.is_map() {
        let Kind::Message(entry) = f.kind() else { unreachable!() };
        let (kk, vk) = (entry.map_entry_key_field().kind(), entry.map_entry_value_field().kind());
        let mut m = ObjectMap::new();
        for _ in 0..rng.below(4) {
            m.insert(gen_map_key(rng, &kk, clean).into(), gen_single(rng, &vk, depth, clean));
        }
        Value::Object(m)
    } else if f.is_list() {
        Value::Array((0..rng.below(4)).map(|_| gen_single(rng, &f.kind(), depth, clean)).collect())
    } else {
        gen_single(rng, &f.kind(), depth, clean)
    }
}

/// edge values for one field (single occurrence, or wrapped in the field's container)
fn edge_values(f: &FieldDescriptor) -> Vec<Value> {
    let bytes = |b: &[u8]| Value::Bytes(b.to_vec().into());
    let single = |k: &Kind| -> Vec<Value> {
        match k {
            Kind::Double | Kind::Float => [
                0u64, 1 << 63, 0x3ff8000000000000, 0x3fb999999999999a, 0x3fb99999a0000000, 0x7ff0000000000000, 0xfff0000000000000,
                0x47efffffe0000000, 0x47efffffffffffff, 0x36a0000000000000, 0x3690000000000000, 1, 0x7fefffffffffffff,
            ]
            .iter()
            .map(|b| float(f64::from_bits(*b)))
            .collect(),
            Kind::Bool => vec![Value::Boolean(false), Value::Boolean(true)],
            Kind::String | Kind::Bytes => {
                vec![bytes(b""), bytes(b"a"), bytes("h\u{e9}".as_bytes()), bytes(b"\xff"), bytes(b"\xe2\x82"), bytes(b"\xed\xa0\x80")]
            }
            Kind::Enum(ed) => {
                let mut out = Vec::new();
                for v in ed.values() {
                    out.push(bytes(v.name().as_bytes()));
                    out.push(bytes(v.name().to_ascii_lowercase().as_bytes()));
                    out.push(Value::Integer(i64::from(v.number())));
                }
                out.push(Value::Integer(-1));
                out.push(Value::Integer(99));
                out.push(Value::Integer(4294967296));
                out.push(bytes(b"NOPE"));
                out
            }
            Kind::Message(_) => vec![Value::Object(ObjectMap::new())],
            _ => edge_ints().iter().map(|i| Value::Integer(*i)).chain([Value::Integer(4294967295), Value::Integer(-2147483649)]).collect(),
        }
    };
    if f.is_map() {
        let Kind::Message(entry) = f.kind() else { unreachable!() };
        let vk = entry.map_entry_value_field().kind();
        let mut out = vec![Value::Object(ObjectMap::new())];
        let val = single(&vk).into_iter().next().unwrap_or(Value::Null);
        for k in [
            "0", "1", "-1", "01", "+1", "-0", "true", "false", "TRUE", "", "a", "4294967295", "4294967296", "2147483648", "-2147483649",
            "18446744073709551615", "18446744073709551616", "9223372036854775808",
        ] {
            let mut m = ObjectMap::new();
            m.insert(k.into(), val.clone());
            out.push(Value::Object(m));
        }
        for x in single(&vk) {
            let mut m = ObjectMap::new();
            m.insert("1".into(), x.clone());
            m.insert("true".into(), x);
            out.push(Value::Object(m));
        }
        out
    } else if f.is_list() {
        let xs = single(&f.kind());
        let mut out = vec![Value::Array(vec![]), Value::Array(xs.clone())];
        out.extend(xs.into_iter().take(3));
        out
    } else {
        let mut out = single(&f.kind());
        out.push(Value::Null);
        out.push(Value::Array(vec![]));
        out
    }
}

/// an object for message type `md`
pub fn gen_message(rng: &mut Rng, md: &MessageDescriptor, depth: u32, clean: bool) -> Value {
    let mut m = ObjectMap::new();
    for f in md.fields() {
        let p = if depth == 0 && matches!(f.kind(), Kind::Message(_)) { 4 } else { 1 };
        if rng.chance(p, 5) {
            continue;
        }
        if !clean && rng.chance(1, 25) {
            m.insert(f.name().into(), Value::Null);
            continue;
        }
        m.insert(f.name().into(), gen_field(rng, &f, depth, clean));
    }
    if !clean && rng.chance(1, 10) {
        m.insert((*rng.pick(&["bogus", "Name", "zz"])).into(), gen_scalar(rng));
    }
    Value::Object(m)
}

/// mutate tokens of an abstract wire value into things `encode_message` never produces
fn mutate_pv(rng: &mut Rng, text: &str) -> String {
    text.split(' ')
        .map(|t| {
            if !rng.chance(1, 3) {
                return t.to_string();
            }
            if t.starts_with("en:") {
                format!("en:{}", rng.range(-2, 12))
            } else if t.starts_with("u64:") {
                format!("u64:{}", u64::MAX - rng.below(3))
            } else if t.starts_with("f64:") {
                rng.pick(&["f64:7ff8000000000000", "f64:fff0000000000001", "f64:7ff0000000000000"]).to_string()
            } else if t.starts_with("f32:") {
                rng.pick(&["f32:7fc00000", "f32:ff800001", "f32:7f800000", "f32:00000001"]).to_string()
            } else {
                t.to_string()
            }
        })
        .collect::<Vec<_>>()
        .join(" ")
}

fn emit_value(sink: &mut Sink, rng: &mut Rng, e: &Entry, v: &Value, tag: &str) {
    let args = [e.id.clone(), e.pool_text.clone(), show_value(v)];
    let r = sink.emit("c26.rt", &args);
    if let Some(r) = &r {
        sink.count(&format!(
            "c26:{tag}:{}",
            if r.reply.starts_with("ok") { "roundtrip_ok" } else { r.reply.as_str() }
        ));
    }
    let pv = sink.emit("c26.pv", &args);
    if tag == "mutated" {
        sink.emit("c26.pvs", &args);
    }
    sink.emit("o.c26", &args);
    if sink.emit("o.c26.wire", &args).is_some() {
        sink.count("c26:wire_law_samples");
    }
    if let Some(pv) = pv {
        if let Some(text) = pv.reply.strip_prefix("ok ") {
            let t = if rng.chance(1, 2) { text.to_string() } else { mutate_pv(rng, text) };
            if sink.emit("c26.parse", &[e.id.clone(), e.pool_text.clone(), t]).is_some() {
                sink.count("c26:parse_cases");
            }
        }
    }
}

pub fn generate(sink: &mut Sink, rng: &mut Rng, n: u64) {
    let cat = catalogue();
    sink.stats.insert("c26:message_types".into(), cat.len() as u64);
    // float casts: fixed edge cases, then random
    let edge64: &[u64] = &[
        0, 1 << 63, 0x7ff0000000000000, 0xfff0000000000000, 0x3ff0000000000000, 0x3fb999999999999a, 0x47efffffe0000000,
        0x47efffffefffffff, 0x47effffff0000000, 0x47f0000000000000, 0x36a0000000000000, 0x3690000000000000, 0x3690000000000001,
        0x3680000000000000, 0x380fffffffffffff, 0x3810000000000000, 0x380ffffff0000000, 0x3ff0000010000000, 0x3ff0000030000000,
        0x3ff0000010000001, 0x0000000000000001, 0x7fefffffffffffff,
    ];
    for b in edge64 {
        sink.emit("f32.of_f64", &[format!("{b:016x}")]);
    }
    for i in edge_ints() {
        sink.emit("f32.of_int", &[i.to_string()]);
    }
    for i in [16777216i64, 16777217, 16777218, 16777219, -16777217, 33554434, 33554435] {
        sink.emit("f32.of_int", &[i.to_string()]);
    }
    for b in [0u32, 1, 0x80000000, 0x007fffff, 0x00800000, 0x7f7fffff, 0x7f800000, 0xff800000, 0x3f800000, 0x7fc00000, 0x7f800001] {
        sink.emit("f32.to_f64", &[format!("{b:08x}")]);
    }
    for _ in 0..n / 4 {
        let b = match rng.below(4) {
            0 => rng.next(),
            1 => f64::from(f32::from_bits(rng.next() as u32)).to_bits() ^ rng.below(2),
            2 => (rng.next() & 0x800f_ffff_ffff_ffff) | ((873 + rng.below(60)) << 52), // around the f32 subnormal range
            _ => (rng.next() & 0x800f_ffff_ffff_ffff) | ((1140 + rng.below(12)) << 52), // around f32::MAX
        };
        sink.emit("f32.of_f64", &[format!("{b:016x}")]);
        sink.emit("f32.to_f64", &[format!("{:08x}", rng.next() as u32)]);
        let i = if rng.chance(1, 2) { rng.next() as i64 } else { rng.range(-(1 << 26), 1 << 26) };
        sink.emit("f32.of_int", &[i.to_string()]);
    }
    if cat.is_empty() {
        return;
    }
    // every message type: the empty object, every field alone at its default, then random values
    for e in cat {
        emit_value(sink, rng, e, &Value::Object(ObjectMap::new()), "edge");
        emit_value(sink, rng, e, &Value::Integer(1), "edge");
    }
    // message types whose fields exercise the finding classes get a third of the cases
    let rich: Vec<&Entry> = cat
        .iter()
        .filter(|e| {
            e.desc.fields().any(|f| f.is_map() || matches!(f.kind(), Kind::Float | Kind::Double | Kind::Enum(_) | Kind::Uint32 | Kind::Bytes))
        })
        .collect();
    // every field of every message type alone, at each edge value of its kind (deterministic)
    for e in cat {
        for f in e.desc.fields() {
            for v in edge_values(&f) {
                let mut m = ObjectMap::new();
                m.insert(f.name().into(), v);
                let args = [e.id.clone(), e.pool_text.clone(), show_value(&Value::Object(m))];
                sink.emit("c26.rt", &args);
                sink.emit("o.c26", &args);
                sink.count("c26:edge_field_cases");
            }
        }
    }
    for i in 0..n {
        let e = if i % 3 == 2 && !rich.is_empty() { rich[(i / 3 % rich.len() as u64) as usize] } else { &cat[(i % cat.len() as u64) as usize] };
        let clean = rng.chance(3, 5);
        let v = gen_message(rng, &e.desc, 2, clean);
        emit_value(sink, rng, e, &v, if clean { "clean" } else { "mutated" });
    }
}
