//! C17 – target faults: (a) `lang.run` + `o.c17` on generated programs under random fault schedules
//! (model vs implementation under the same schedule); (b) `o.c17.nopanic`: hand-written programs
//! touching the target through many constructs and stdlib functions (modelled or not), run under
//! EVERY single-fault schedule (and all pairs among the first 6 operations): the run must not panic
//! and a rejected root read must end in an error.
use crate::lang;
use crate::rng::Rng;
use crate::sink::{Reply, Sink};
use crate::vrlrun::{self, Outcome};
use crate::wire::*;
use vrl::compiler::TimeZone;

/// (tag, program)
pub const PROGRAMS: &[(&str, &str)] = &[
    ("query", ".a"),
    ("query_meta", "%m.k"),
    ("assign", ".a = 1\n.b = .a"),
    ("assign_meta", "%m = .a\n%m"),
    ("assign_path", ".x.y[2] = .arr\n.x"),
    ("del", "del(.a)\n."),
    ("del_compact", "del(.obj.x, compact: true)\n.obj"),
    ("exists", "[exists(.a), exists(.zz), exists(%m)]"),
    ("merge", ". = merge!(., {\"k\": 1})\n.k"),
    ("root_assign", ". = {\"z\": 1}\n.z"),
    ("ok_err", ".o, .e = to_int(.s)\n[.o, .e]"),
    ("coalesce", ".r = to_int(.s) ?? .n\n.r"),
    ("if", "if exists(.a) { .a = 2 } else { .b = 3 }\n."),
    ("for_each", "for_each(object!(.obj)) -> |k, v| { . = set!(., [k], v) }\n."),
    ("map_values", ".obj = map_values(object!(.obj)) -> |v| { .n }\n.obj"),
    ("filter", ".arr = filter(array!(.arr)) -> |_i, v| { v == .n }\n.arr"),
    ("unnest", ".arr = [1, 2]\nunnest!(.arr)"),
    ("unnest_var", "x = {\"a\": [1, 2]}\nunnest!(x.a)"),
    ("get", "get!(., [\"a\"])"),
    ("set", ". = set!(., [\"q\"], .a)\n.q"),
    ("remove", ". = remove!(., [\"a\"])\n."),
    ("push", ".arr = push(array!(.arr), .n)\n.arr"),
    ("compact", ". = compact(.)\n."),
    ("flatten", ".f = flatten(.)\n.f"),
    ("keys", "keys(.)"),
    ("encode_json", "encode_json(.)"),
    ("parse_json", ".p = parse_json!(\"{\\\"a\\\": 1}\")\n.p.a"),
    ("del_meta", "del(%m)\n%"),
    ("exists_del", "if exists(.obj.x) { del(.obj) }\n.obj"),
    ("abort", "if exists(.a) { abort }\n.a"),
    ("return", ".a = 5\nreturn .a\n.b = 6"),
    ("to_string", ".t2 = to_string(.t)\n.t2"),
];

pub fn exec(op: &str, a: &[String]) -> Option<Reply> {
    match (op, a) {
        ("o.c17.nopanic", [tag, src, event, metadata, faults]) => {
            let _ = tag;
            let src = String::from_utf8(unhex(src)?).ok()?;
            let program = vrlrun::compile(&src).ok()?;
            let faults_v = lang::parse_faults(faults)?;
            let r = vrlrun::run_program(&program, parse_value(event)?, parse_value(metadata)?, faults_v, &TimeZone::Named(chrono_tz::UTC));
            let class = match &r.outcome {
                Outcome::Ok(_) => "ok",
                Outcome::Error(_) => "error",
                Outcome::Abort(_) => "abort",
                Outcome::Panic(_) => "panic",
            };
            Some(Reply::oracle(vec![class.to_string(), r.log.len().to_string()]))
        }
        _ => None,
    }
}

pub fn generate(sink: &mut Sink, rng: &mut Rng, n: u64) {
    // (b) exhaustive single faults (+ pairs among the first 6 ops) on the hand-written programs
    let events = [lang::gen_event(rng), parse_value("{ k:61 i:1 k:617272 [ i:1 i:2 ] k:6e i:2 k:6f626a { k:78 i:1 } k:73 b:3132 k:74 t }").unwrap()];
    let meta = parse_value("{ k:6d { k:6b i:7 } }").unwrap();
    for (tag, src) in PROGRAMS {
        let Ok(program) = vrlrun::compile(src) else {
            sink.count("c17:program_rejected");
            continue;
        };
        for event in &events {
            // number of target operations of a fault-free run
            let r = vrlrun::run_program(&program, event.clone(), meta.clone(), vec![], &TimeZone::Named(chrono_tz::UTC));
            let nops = r.log.len() as u64;
            sink.count("c17:programs_x_events");
            let mut schedules: Vec<String> = (0..nops).map(|i| i.to_string()).collect();
            for i in 0..nops.min(6) {
                for j in (i + 1)..nops.min(6) {
                    schedules.push(format!("{i} {j}"));
                }
            }
            for f in schedules {
                sink.count("c17:fault_schedules");
                sink.emit("o.c17.nopanic", &[(*tag).to_string(), hex(src.as_bytes()), show_value(event), show_value(&meta), f.clone()]);
                // modelled programs are also compared with the model under the same schedule
                sink.emit("lang.run", &[hex(src.as_bytes()), show_value(event), show_value(&meta), f]);
            }
        }
    }
    // (a) generated programs under random schedules
    lang::generate(sink, rng, n, true, Some("o.c17"));
}

/// C16: the hand-written programs (many stdlib functions) + generated programs through `o.c16`.
pub fn generate_c16(sink: &mut Sink, rng: &mut Rng, n: u64) {
    let events = [lang::gen_event(rng), parse_value("{ k:61 i:1 k:617272 [ i:1 i:2 ] k:6e i:2 k:6f626a { k:78 i:1 } k:73 b:3132 k:74 t }").unwrap()];
    let meta = parse_value("{ k:6d { k:6b i:7 } }").unwrap();
    for (_tag, src) in PROGRAMS {
        for event in &events {
            sink.count("c16:handwritten_programs_x_events");
            sink.emit("o.c16", &[hex(src.as_bytes()), show_value(event), show_value(&meta), "-".to_string()]);
        }
    }
    lang::generate(sink, rng, n, true, Some("o.c16"));
}
