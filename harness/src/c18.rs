//! C18 – value path operations: correspondence ops `val.get/insert/remove` and oracle `o.c18`.
use crate::gens::*;
use crate::rng::Rng;
use crate::sink::{guarded, Reply, Sink};
use crate::wire::*;
use vrl::path::{OwnedSegment, OwnedValuePath};
use vrl::value::Value;

fn b(x: bool) -> String {
    if x { "1".into() } else { "0".into() }
}
fn pb(s: &str) -> Option<bool> {
    match s {
        "1" => Some(true),
        "0" => Some(false),
        _ => None,
    }
}

fn do_insert(v: &Value, p: &OwnedValuePath, x: &Value) -> Result<(Value, Option<Value>), String> {
    let (v, p, x) = (v.clone(), p.clone(), x.clone());
    guarded(move || {
        let mut v2 = v;
        let prev = v2.insert(&p, x);
        (v2, prev)
    })
}

pub fn exec(op: &str, a: &[String]) -> Option<Reply> {
    match (op, a) {
        ("val.get", [v, p]) => {
            let (v, p) = (parse_value(v)?, parse_path(p)?);
            Some(Reply::plain(show_opt(v.get(&p))))
        }
        ("val.insert", [v, p, x]) => {
            let (v, p, x) = (parse_value(v)?, parse_path(p)?, parse_value(x)?);
            Some(Reply::plain(match do_insert(&v, &p, &x) {
                Ok((v2, prev)) => format!("ok\t{}\t{}", show_value(&v2), show_opt(prev.as_ref())),
                Err(_) => "panic".to_string(),
            }))
        }
        ("val.remove", [v, p, prune]) => {
            let (mut v, p, prune) = (parse_value(v)?, parse_path(p)?, pb(prune)?);
            let removed = v.remove(&p, prune);
            Some(Reply::plain(format!("{}\t{}", show_opt(removed.as_ref()), show_value(&v))))
        }
        ("o.c18", [v, p, q, x, prune]) => {
            let (v, p, q, x, prune) = (parse_value(v)?, parse_path(p)?, parse_path(q)?, parse_value(x)?, pb(prune)?);
            let (v2, prev) = do_insert(&v, &p, &x).ok()?;
            let mut vr = v.clone();
            let removed = vr.remove(&p, prune);
            Some(Reply::oracle(vec![
                show_value(&v2),
                show_opt(v2.get(&p)),
                show_opt(v.get(&q)),
                show_opt(v2.get(&q)),
                show_opt(removed.as_ref()),
                show_opt(v.get(&p)),
                show_value(&vr),
                show_opt(prev.as_ref()),
                show_opt(vr.get(&p)),
            ]))
        }
        _ => None,
    }
}

pub fn emit_case(sink: &mut Sink, v: &Value, p: &OwnedValuePath, q: &OwnedValuePath, x: &Value, prune: bool) {
    let (sv, sp, sq, sx) = (show_value(v), show_path(p), show_path(q), show_value(x));
    sink.emit("val.get", &[sv.clone(), sp.clone()]);
    sink.emit("val.insert", &[sv.clone(), sp.clone(), sx.clone()]);
    sink.emit("val.remove", &[sv.clone(), sp.clone(), b(prune)]);
    if sink.emit("o.c18", &[sv, sp, sq, sx, b(prune)]).is_some() {
        sink.count(if v.get(p).is_some() { "c18:path_present" } else { "c18:path_absent" });
        if v.get(q).is_some() {
            sink.count("c18:q_present");
        }
    } else {
        sink.count("c18:insert_panic");
    }
}

pub fn generate(sink: &mut Sink, rng: &mut Rng, n: u64) {
    // fixed edge cases first
    let edge_paths: Vec<OwnedValuePath> = vec![
        OwnedValuePath::root(),
        OwnedValuePath { segments: vec![OwnedSegment::Index(isize::MIN)] },
        OwnedValuePath { segments: vec![OwnedSegment::Field("a".into()), OwnedSegment::Index(isize::MIN)] },
        OwnedValuePath { segments: vec![OwnedSegment::Field("a".into()), OwnedSegment::Index(0)] },
        OwnedValuePath { segments: vec![OwnedSegment::Index(-3)] },
    ];
    let vals = [
        Value::Null,
        parse_value("{ k:61 { k:62 i:1 } }").unwrap(),
        parse_value("[ i:1 ]").unwrap(),
        parse_value("{ k:61 [ i:0 i:1 ] }").unwrap(),
    ];
    let qs = [
        OwnedValuePath { segments: vec![OwnedSegment::Field("a".into()), OwnedSegment::Field("b".into())] },
        OwnedValuePath { segments: vec![OwnedSegment::Index(0)] },
        OwnedValuePath { segments: vec![OwnedSegment::Index(-1)] },
    ];
    for v in &vals {
        for p in &edge_paths {
            for q in &qs {
                emit_case(sink, v, p, q, &Value::Integer(9), true);
            }
        }
    }
    // prepending inserts on top-level arrays, read back through negative indices (class D_shift refined)
    for len in 1..=3i64 {
        let v = Value::Array((0..len).map(Value::Integer).collect());
        for k in (len + 1)..=(len + 3) {
            for j in 1..=len {
                let p = OwnedValuePath { segments: vec![OwnedSegment::Index(-(k as isize))] };
                let q = OwnedValuePath { segments: vec![OwnedSegment::Index(-(j as isize))] };
                emit_case(sink, &v, &p, &q, &Value::Integer(9), false);
            }
        }
    }
    for _ in 0..n {
        let keys: &[&str] = if rng.chance(1, 2) { SIMPLE_KEYS } else { KEYS };
        let v = gen_value(rng, 3, keys);
        let p = gen_path_for(rng, &v, keys, 4);
        let q = gen_related_path(rng, &v, &p, keys);
        let x = gen_value(rng, 2, keys);
        let prune = rng.chance(1, 2);
        emit_case(sink, &v, &p, &q, &x, prune);
    }
}
