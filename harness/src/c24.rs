//! C24 – key-value / logfmt / CSV codecs. Every op runs the REAL stdlib functions through tiny
//! compiled VRL programs (arguments are taken from the event).
//!
//! correspondence ops: `kv.encode`, `kv.logfmt.enc`, `kv.parse`, `kv.logfmt.dec`, `csv.encode`,
//! `csv.parse`; oracle ops (round trip on the implementation): `o.c24.kv`, `o.c24.logfmt`,
//! `o.c24.csv`. Formats are documented in lean/VrlModel/Driver/C24.lean.
use crate::rng::Rng;
use crate::sink::{guarded, Reply, Sink};
use crate::vrlrun::run_vrl;
use crate::wire::*;
use vrl::value::{ObjectMap, Value};

fn event(fields: &[(&str, Value)]) -> Value {
    let mut m = ObjectMap::new();
    for (k, v) in fields {
        m.insert((*k).into(), v.clone());
    }
    Value::Object(m)
}

fn bytes(b: &[u8]) -> Value {
    Value::Bytes(bytes::Bytes::copy_from_slice(b))
}

/// `Ok(value)`, `Err("err")` for a runtime error, `Err("panic")`.
fn run(src: &'static str, ev: Value) -> Result<Value, &'static str> {
    match guarded(move || run_vrl(src, ev)) {
        Ok(Ok(v)) => Ok(v),
        Ok(Err(e)) => {
            assert!(e != "compile-error", "harness program rejected: {src}");
            Err("err")
        }
        Err(_) => Err("panic"),
    }
}

const P_ENCODE: &str = "encode_key_value(object!(.v), key_value_delimiter: string!(.kd), field_delimiter: string!(.fd), flatten_boolean: bool!(.fb))";
const P_LOGFMT_ENC: &str = "encode_logfmt(object!(.v))";
const P_PARSE_L: &str = "parse_key_value!(string!(.s), key_value_delimiter: string!(.kd), field_delimiter: string!(.fd), whitespace: \"lenient\", accept_standalone_key: bool!(.sk))";
const P_PARSE_S: &str = "parse_key_value!(string!(.s), key_value_delimiter: string!(.kd), field_delimiter: string!(.fd), whitespace: \"strict\", accept_standalone_key: bool!(.sk))";
const P_PARSE_DEFAULT: &str = "parse_key_value!(string!(.s), key_value_delimiter: string!(.kd), field_delimiter: string!(.fd))";
const P_LOGFMT_DEC: &str = "parse_logfmt!(string!(.s))";
const P_CSV_ENC: &str = "encode_csv!(.v, delimiter: string!(.d))";
const P_CSV_DEC: &str = "parse_csv!(string!(.s), delimiter: string!(.d))";

fn kv_encode(v: &Value, kd: &[u8], fd: &[u8], fb: bool) -> Result<Vec<u8>, &'static str> {
    let ev = event(&[("v", v.clone()), ("kd", bytes(kd)), ("fd", bytes(fd)), ("fb", Value::Boolean(fb))]);
    run(P_ENCODE, ev).map(|r| r.as_bytes().expect("bytes").to_vec())
}
fn logfmt_encode(v: &Value) -> Result<Vec<u8>, &'static str> {
    run(P_LOGFMT_ENC, event(&[("v", v.clone())])).map(|r| r.as_bytes().expect("bytes").to_vec())
}
fn kv_parse(s: &[u8], kd: &[u8], fd: &[u8], ws: &str, sk: bool) -> Result<Value, &'static str> {
    let ev = event(&[("s", bytes(s)), ("kd", bytes(kd)), ("fd", bytes(fd)), ("sk", Value::Boolean(sk))]);
    run(if ws == "s" { P_PARSE_S } else { P_PARSE_L }, ev)
}
fn kv_parse_default(s: &[u8], kd: &[u8], fd: &[u8]) -> Result<Value, &'static str> {
    run(P_PARSE_DEFAULT, event(&[("s", bytes(s)), ("kd", bytes(kd)), ("fd", bytes(fd))]))
}
fn logfmt_parse(s: &[u8]) -> Result<Value, &'static str> {
    run(P_LOGFMT_DEC, event(&[("s", bytes(s))]))
}
fn csv_encode(v: &Value, d: &[u8]) -> Result<Vec<u8>, &'static str> {
    run(P_CSV_ENC, event(&[("v", v.clone()), ("d", bytes(d))])).map(|r| r.as_bytes().expect("bytes").to_vec())
}
fn csv_parse(s: &[u8], d: &[u8]) -> Result<Value, &'static str> {
    run(P_CSV_DEC, event(&[("s", bytes(s)), ("d", bytes(d))]))
}

fn show_bytes_result(r: Result<Vec<u8>, &'static str>) -> String {
    match r {
        Ok(b) => format!("ok\t{}", hex(&b)),
        Err(e) => e.to_string(),
    }
}
fn show_value_result(r: Result<Value, &'static str>) -> String {
    match r {
        Ok(v) => format!("ok\t{}", show_value(&v)),
        Err(e) => e.to_string(),
    }
}
/// observations of a round trip: encoded text, status, parsed value
fn round_trip_obs(enc: Result<Vec<u8>, &'static str>, parse: impl FnOnce(&[u8]) -> Result<Value, &'static str>) -> Vec<String> {
    match enc {
        Err(e) => vec![e.to_string(), "err".into(), "-".into()],
        Ok(b) => match parse(&b) {
            Ok(v) => vec![hex(&b), "ok".into(), show_value(&v)],
            Err(e) => vec![hex(&b), e.to_string(), "-".into()],
        },
    }
}
fn pb(s: &str) -> Option<bool> {
    match s {
        "1" => Some(true),
        "0" => Some(false),
        _ => None,
    }
}

pub fn exec(op: &str, a: &[String]) -> Option<Reply> {
    match (op, a) {
        ("kv.encode", [v, kd, fd, fb]) => {
            let (v, kd, fd, fb) = (parse_value(v)?, unhex(kd)?, unhex(fd)?, pb(fb)?);
            Some(Reply::plain(show_bytes_result(kv_encode(&v, &kd, &fd, fb))))
        }
        ("kv.logfmt.enc", [v]) => Some(Reply::plain(show_bytes_result(logfmt_encode(&parse_value(v)?)))),
        ("kv.parse", [s, kd, fd, ws, sk]) => {
            let (s, kd, fd, sk) = (unhex(s)?, unhex(kd)?, unhex(fd)?, pb(sk)?);
            if ws != "s" && ws != "l" {
                return None;
            }
            Some(Reply::plain(show_value_result(kv_parse(&s, &kd, &fd, ws, sk))))
        }
        ("kv.logfmt.dec", [s]) => Some(Reply::plain(show_value_result(logfmt_parse(&unhex(s)?)))),
        ("csv.encode", [v, d]) => {
            let (v, d) = (parse_value(v)?, unhex(d)?);
            Some(Reply::plain(show_bytes_result(csv_encode(&v, &d))))
        }
        ("csv.parse", [s, d]) => {
            let (s, d) = (unhex(s)?, unhex(d)?);
            Some(Reply::plain(show_value_result(csv_parse(&s, &d))))
        }
        ("o.c24.kv", [v, kd, fd]) => {
            let (v, kd, fd) = (parse_value(v)?, unhex(kd)?, unhex(fd)?);
            let enc = kv_encode(&v, &kd, &fd, false);
            Some(Reply::oracle(round_trip_obs(enc, |b| kv_parse_default(b, &kd, &fd))))
        }
        ("o.c24.logfmt", [v]) => {
            let v = parse_value(v)?;
            Some(Reply::oracle(round_trip_obs(logfmt_encode(&v), logfmt_parse)))
        }
        ("o.c24.csv", [v, d]) => {
            let (v, d) = (parse_value(v)?, unhex(d)?);
            Some(Reply::oracle(round_trip_obs(csv_encode(&v, &d), |b| csv_parse(b, &d))))
        }
        _ => None,
    }
}

// ------------------------------------------------------------------------------------------------
// generators

/// plain characters (never special for any delimiter choice below)
const PLAIN: &[&str] = &["a", "b", "c", "k", "v", "x", "0", "1", "n", "t", "_", ".", "é", "ü", "日", "😀", "#", "@", "/"];
/// characters that matter to the encoders/parsers
const SPECIAL: &[&str] = &[
    " ", "\t", "\"", "'", "\\", "=", ":", ",", "|", "-", ";", ">", "\n", "\r", "\u{a0}", "\u{2003}", "\u{85}", "\u{feff}", "\u{3000}",
];
/// (key_value_delimiter, field_delimiter) pairs of the round-trip oracle ("matching delimiters")
const DELIMS: &[(&str, &str)] = &[
    ("=", " "),
    ("=", " "),
    (":", ","),
    ("=", ","),
    (":", " "),
    ("=", "\t"),
    (":", "\n"),
    ("=", ";"),
    ("--", "||"),
    ("=>", ";"),
    (":", "|"),
    (" ", ","),
];
/// further pairs for the correspondence of encoder and parser alone
const ODD_DELIMS: &[(&str, &str)] = &[("", " "), ("=", ""), ("", ""), (" ", " "), ("=", "="), ("a", "b"), (" ", ","), ("=", "  "), ("\"", "'"), ("\\", ","), ("é", "日"), ("\t", " ")];

fn gen_token(rng: &mut Rng, min_len: u64) -> String {
    let len = match rng.below(10) {
        0 => min_len,
        1..=5 => 1 + rng.below(3),
        6..=8 => 2 + rng.below(5),
        _ => 4 + rng.below(10),
    };
    // how "dirty" the token is: mostly plain characters with a few special ones
    let dirt = match rng.below(4) {
        0 => 0,
        1 => 1,
        2 => 3,
        _ => 6,
    };
    let mut s = String::new();
    for _ in 0..len {
        if rng.below(10) < dirt {
            s.push_str(*rng.pick(SPECIAL));
        } else {
            s.push_str(*rng.pick(PLAIN));
        }
    }
    s
}

fn gen_flat_object(rng: &mut Rng, allow_empty_strings: bool) -> Value {
    let n = match rng.below(10) {
        0 => 0,
        1..=4 => 1,
        5..=7 => 2,
        _ => 3 + rng.below(3),
    };
    let min = if allow_empty_strings { 0 } else { 1 };
    let mut m = ObjectMap::new();
    for _ in 0..n {
        let k = gen_token(rng, min);
        let v = gen_token(rng, min);
        m.insert(k.into(), Value::from(v));
    }
    Value::Object(m)
}

/// objects with non-string leaves and nesting (encoder only)
fn gen_any_object(rng: &mut Rng, depth: u32) -> Value {
    let n = rng.below(4);
    let mut m = ObjectMap::new();
    for _ in 0..n {
        let k = gen_token(rng, 0);
        m.insert(k.into(), gen_leaf_or_nested(rng, depth));
    }
    Value::Object(m)
}
fn gen_leaf_or_nested(rng: &mut Rng, depth: u32) -> Value {
    match rng.below(if depth == 0 { 6 } else { 9 }) {
        0 => Value::Null,
        1 => Value::Boolean(rng.chance(1, 2)),
        2 => Value::Integer(*rng.pick(&[0i64, 1, -1, 42, i64::MIN, i64::MAX, -1234567])),
        3..=5 => Value::from(gen_token(rng, 0)),
        6 => Value::Array((0..rng.below(3)).map(|_| gen_leaf_or_nested(rng, depth - 1)).collect()),
        _ => gen_any_object(rng, depth - 1),
    }
}

fn quote_token(rng: &mut Rng, t: &str) -> String {
    // the way a writer might quote: either quote character, escapes of the quote / backslash / n
    let q = if rng.chance(2, 3) { '"' } else { '\'' };
    let mut s = String::new();
    s.push(q);
    for c in t.chars() {
        if c == q || (c == '\\' && rng.chance(1, 2)) {
            s.push('\\');
        }
        s.push(c);
    }
    if !rng.chance(1, 12) {
        s.push(q);
    }
    s
}
fn spaces(rng: &mut Rng) -> &'static str {
    match rng.below(8) {
        0 => " ",
        1 => "  ",
        2 => "\t",
        _ => "",
    }
}

/// a line built the way the grammar expects, with the liberties the parser allows
fn gen_line(rng: &mut Rng, kd: &str, fd: &str) -> String {
    let n = 1 + rng.below(4);
    let mut line = String::new();
    let mut first_key = String::new();
    line.push_str(spaces(rng));
    for i in 0..n {
        if i > 0 {
            line.push_str(spaces(rng));
            line.push_str(fd);
            if rng.chance(1, 6) {
                line.push_str(fd);
            }
            line.push_str(spaces(rng));
        }
        // duplicate keys exercise the grouping into arrays
        let k = if i > 0 && rng.chance(1, 4) { first_key.clone() } else { gen_token(rng, 1) };
        if i == 0 {
            first_key = k.clone();
        }
        if rng.chance(1, 3) {
            line.push_str(&quote_token(rng, &k));
        } else {
            line.push_str(&k);
        }
        if rng.chance(1, 6) {
            continue; // standalone key
        }
        line.push_str(spaces(rng));
        line.push_str(kd);
        line.push_str(spaces(rng));
        let v = gen_token(rng, 0);
        if rng.chance(1, 3) {
            line.push_str(&quote_token(rng, &v));
        } else {
            line.push_str(&v);
        }
    }
    line.push_str(spaces(rng));
    line
}

fn mutate(rng: &mut Rng, s: &str) -> String {
    let mut cs: Vec<char> = s.chars().collect();
    for _ in 0..1 + rng.below(2) {
        let pos = rng.below(cs.len() as u64 + 1) as usize;
        match rng.below(3) {
            0 if pos < cs.len() => {
                cs.remove(pos);
            }
            1 if pos < cs.len() => {
                let c = rng.pick(SPECIAL).chars().next().unwrap();
                cs[pos] = c;
            }
            _ => {
                let c = rng.pick(SPECIAL).chars().next().unwrap();
                cs.insert(pos, c);
            }
        }
    }
    cs.into_iter().collect()
}

fn h(s: &str) -> String {
    hex(s.as_bytes())
}

fn emit_parse(sink: &mut Sink, rng: &mut Rng, line: &str, kd: &str, fd: &str, bucket: &str) {
    let ws = if rng.chance(1, 2) { "l" } else { "s" };
    let sk = if rng.chance(2, 3) { "1" } else { "0" };
    if let Some(r) = sink.emit("kv.parse", &[h(line), h(kd), h(fd), ws.into(), sk.into()]) {
        sink.count(&format!("c24:parse:{bucket}"));
        sink.count(if r.reply.starts_with("ok") { "c24:parse:accepted" } else { "c24:parse:rejected" });
    }
    if kd == "=" && fd == " " && rng.chance(1, 2) {
        sink.emit("kv.logfmt.dec", &[h(line)]);
    }
}

fn emit_kv_oracle(sink: &mut Sink, o: &Value, kd: &str, fd: &str) {
    sink.emit("kv.encode", &[show_value(o), h(kd), h(fd), "0".into()]);
    let in_domain = o.as_object().unwrap().iter().all(|(k, v)| !k.is_empty() && !v.as_bytes().unwrap().is_empty());
    if !in_domain {
        // the property quantifies over non-empty keys and values: encoder correspondence only
        sink.count("c24:kv:outside_domain");
        return;
    }
    if let Some(r) = sink.emit("o.c24.kv", &[show_value(o), h(kd), h(fd)]) {
        sink.count(if r.obs[1] == "ok" { "c24:kv:roundtrip_parsed" } else { "c24:kv:roundtrip_rejected" });
        if let Some(enc) = unhex(&r.obs[0]) {
            sink.count(if enc.contains(&b'"') { "c24:kv:some_token_quoted" } else { "c24:kv:no_token_quoted" });
        }
    }
    if kd == "=" && fd == " " {
        sink.emit("kv.logfmt.enc", &[show_value(o)]);
        sink.emit("o.c24.logfmt", &[show_value(o)]);
    }
}

const CSV_BYTES: &[&[u8]] = &[
    b"a", b"b", b"c", b"1", b"x", b"y", b" ", b",", b"\"", b"\r", b"\n", b";", b"\t", b"|", b"'", b"\\", b"\xef\xbb\xbf", b"\xc3\xa9", b"\xff", b"\xef", b"\xbb", b"#",
];
const CSV_DELIMS: &[&[u8]] = &[b",", b",", b",", b";", b"\t", b"|", b" ", b"a", b"\xff", b"#"];
const CSV_ODD_DELIMS: &[&[u8]] = &[b"\"", b"\n", b"\r", b"", b",,", b"\xc3\xa9"];

fn gen_csv_field(rng: &mut Rng) -> Vec<u8> {
    let len = match rng.below(8) {
        0 => 0,
        1..=4 => 1 + rng.below(3),
        _ => 2 + rng.below(8),
    };
    let plain = rng.chance(1, 3);
    let mut f = Vec::new();
    for _ in 0..len {
        let i = if plain { rng.below(6) } else { rng.below(CSV_BYTES.len() as u64) };
        f.extend_from_slice(CSV_BYTES[i as usize]);
    }
    f
}
fn gen_csv_list(rng: &mut Rng) -> Value {
    let n = match rng.below(10) {
        0 => 0,
        1..=3 => 1,
        4..=6 => 2,
        _ => 3 + rng.below(4),
    };
    Value::Array((0..n).map(|_| bytes(&gen_csv_field(rng))).collect())
}

fn emit_csv(sink: &mut Sink, l: &Value, d: &[u8], oracle: bool) {
    if let Some(r) = sink.emit("csv.encode", &[show_value(l), hex(d)]) {
        // what was written is parser input as well
        if let Some(rest) = r.reply.strip_prefix("ok\t") {
            sink.emit("csv.parse", &[rest.to_string(), hex(d)]);
        }
    }
    if oracle {
        if let Some(r) = sink.emit("o.c24.csv", &[show_value(l), hex(d)]) {
            sink.count(if r.obs[1] == "ok" { "c24:csv:roundtrip_parsed" } else { "c24:csv:roundtrip_rejected" });
            if let Some(enc) = unhex(&r.obs[0]) {
                sink.count(if enc.contains(&b'"') { "c24:csv:some_field_quoted" } else { "c24:csv:no_field_quoted" });
            }
        }
    }
}

pub fn generate(sink: &mut Sink, rng: &mut Rng, n: u64) {
    // ---- fixed edge cases first
    let obj = |pairs: &[(&str, &str)]| {
        let mut m = ObjectMap::new();
        for (k, v) in pairs {
            m.insert((*k).into(), Value::from(*v));
        }
        Value::Object(m)
    };
    let edge_objects = [
        obj(&[]),
        obj(&[("k", "v")]),
        obj(&[("k", "a\\b")]),
        obj(&[("k", "a\nb")]),
        obj(&[("k", "'a'")]),
        obj(&[("k", "'a")]),
        obj(&[("'a", "b'")]),
        obj(&[("k", "a b")]),
        obj(&[("k", "a b\\c")]),
        obj(&[("k", "a \"b\" c")]),
        obj(&[("k", "a=b")]),
        obj(&[("k", "a,b")]),
        obj(&[("k", "a:b")]),
        obj(&[("a:b", "v")]),
        obj(&[("a,b", "v")]),
        obj(&[("a b", "v"), ("c", "d e")]),
        obj(&[("k", " ")]),
        obj(&[("k", "a ")]),
        obj(&[("k", "\u{a0}a")]),
        obj(&[("k", "")]),
        obj(&[("", "v")]),
        obj(&[("k", "true")]),
        obj(&[("k-", "v")]),
        obj(&[("k", "v|")]),
        obj(&[("k", "\\")]),
        obj(&[("k", "\"")]),
        obj(&[("a", "1"), ("b", "2"), ("c", "3")]),
    ];
    for o in &edge_objects {
        for (kd, fd) in [("=", " "), (":", ","), ("--", "||"), (" ", ",")] {
            emit_kv_oracle(sink, o, kd, fd);
        }
    }
    // flattening: nesting, arrays, key collisions, empty containers, non-string leaves
    for v in [
        "{ k:61 { k:62 i:1 } k:612e62 i:2 }",
        "{ k:61 [ i:1 [ i:2 i:3 ] ] k:612e30 b:78 }",
        "{ k:61 { } k:62 [ ] }",
        "{ k:61 t k:62 f k:63 n k:64 i:-9223372036854775808 }",
        "{ k:61 { k:62 { k:63 b:7820 } } k:7a t }",
        "{ k:6120 { k:2062 b:78 } }",
        "{ k:61 [ t f ] }",
    ] {
        for fb in ["0", "1"] {
            for (kd, fd) in [("=", " "), (":", ","), ("", "")] {
                sink.emit("kv.encode", &[v.to_string(), h(kd), h(fd), fb.into()]);
            }
        }
        sink.emit("kv.logfmt.enc", &[v.to_string()]);
    }
    let edge_lines = [
        "", " ", "k", "k=", "=v", "k=v", "k = v", "k=v  k2=v2", "\"k\"=\"v\"", "'k'='v'", "k='v' x", "k=\"v\" x", "k=\"a\\\"b\"", "k=\"a\\nb\"",
        "k=\"a\\\\b\"", "k=\"a\\", "k=\"a", "k=\"\"", "\"\"=v", "''=v", "k=a\\b", "a b c", "a=1 a=2 a=3", "a a=1", "a=1 a", "k=\"v\"x", "k=v=w", "k==v",
        "k=\t v", " \t k=v \t ", "k=v\n", "k=v\u{a0}", "\u{a0}k=v", "k=\"a b\" \"c d\"=e", "'a b'", "'a b'=c d", "k='a", "argh=no '=", "\\=\"oh boy\"",
        "level=error field=\"no quote here \"\"", "level=info =(key)", "argh=no =",
    ];
    for l in &edge_lines {
        for ws in ["l", "s"] {
            for sk in ["1", "0"] {
                for (kd, fd) in [("=", " "), ("=", ","), (":", "\n")] {
                    sink.emit("kv.parse", &[h(l), h(kd), h(fd), ws.into(), sk.into()]);
                }
            }
        }
        sink.emit("kv.logfmt.dec", &[h(l)]);
    }
    let list = |fs: &[&[u8]]| Value::Array(fs.iter().map(|f| bytes(f)).collect());
    let edge_lists = [
        list(&[]),
        list(&[b""]),
        list(&[b"", b""]),
        list(&[b"a"]),
        list(&[b"a", b"b"]),
        list(&[b"a,b", b"c"]),
        list(&[b"a\"b"]),
        list(&[b"\""]),
        list(&[b"a\nb", b"c\rd"]),
        list(&[b"\n"]),
        list(&[b"\xef\xbb\xbfabc", b"d"]),
        list(&[b"\xef\xbb\xbf"]),
        list(&[b"\xef\xbb\xbf,"]),
        list(&[b"", b"\xef\xbb\xbf"]),
        list(&[b" a ", b"#x"]),
        list(&[b"", b"x"]),
    ];
    for l in &edge_lists {
        for d in [&b","[..], b";", b"\"", b"\n", b"\r", b"", b",,"] {
            emit_csv(sink, l, d, d.len() == 1);
        }
    }
    for s in [&b""[..], b"\n", b"\n\na,b", b"a,b\nc,d", b"a,b\r\nc", b"\"a", b"\"a\"b\",c", b"a\"b,c", b"\"a\"\"", b"a,", b",", b"\xef\xbb\xbf", b"\xef\xbb\xbfa,b", b"\xef\xbb", b"\"\"", b"\"\"\"", b"\"a\"\r\"b\""] {
        for d in [&b","[..], b";", b"\"", b"\n"] {
            sink.emit("csv.parse", &[hex(s), hex(d)]);
        }
    }

    // ---- seeded generation
    for _ in 0..n {
        // round trip of a flat string object, encoder and parser on the way
        let (kd, fd) = *rng.pick(DELIMS);
        let allow_empty = rng.chance(1, 20);
        let o = gen_flat_object(rng, allow_empty);
        emit_kv_oracle(sink, &o, kd, fd);

        // encoder alone: odd delimiters, non-string leaves, nesting, flatten_boolean
        if rng.chance(1, 2) {
            let (kd, fd) = if rng.chance(1, 3) { *rng.pick(ODD_DELIMS) } else { *rng.pick(DELIMS) };
            let o = if rng.chance(1, 2) { gen_any_object(rng, 2) } else { gen_flat_object(rng, true) };
            let fb = if rng.chance(1, 2) { "1" } else { "0" };
            if let Some(r) = sink.emit("kv.encode", &[show_value(&o), h(kd), h(fd), fb.into()]) {
                sink.count("c24:encode:any_object");
                // what the encoder wrote is parser input as well
                if let Some(rest) = r.reply.strip_prefix("ok\t") {
                    let ws = if rng.chance(1, 2) { "l" } else { "s" };
                    let sk = if rng.chance(2, 3) { "1" } else { "0" };
                    sink.emit("kv.parse", &[rest.to_string(), h(kd), h(fd), ws.into(), sk.into()]);
                }
            }
            if rng.chance(1, 4) {
                sink.emit("kv.logfmt.enc", &[show_value(&o)]);
            }
        }

        // parser alone: grammar-shaped lines, mutations, noise
        let (kd, fd) = if rng.chance(1, 5) { *rng.pick(ODD_DELIMS) } else { *rng.pick(DELIMS) };
        let line = gen_line(rng, kd, fd);
        emit_parse(sink, rng, &line, kd, fd, "generated");
        if rng.chance(1, 2) {
            let m = mutate(rng, &line);
            emit_parse(sink, rng, &m, kd, fd, "mutated");
        }
        if rng.chance(1, 3) {
            let len = rng.below(12);
            let mut noise = String::new();
            for _ in 0..len {
                noise.push_str(if rng.chance(1, 2) { *rng.pick(SPECIAL) } else { *rng.pick(PLAIN) });
            }
            emit_parse(sink, rng, &noise, kd, fd, "noise");
        }

        // CSV
        let l = gen_csv_list(rng);
        let odd = rng.chance(1, 10);
        let d: &[u8] = if odd { *rng.pick(CSV_ODD_DELIMS) } else { *rng.pick(CSV_DELIMS) };
        emit_csv(sink, &l, d, d.len() == 1);
        if rng.chance(1, 2) {
            // parser alone: raw byte strings, possibly several lines
            let len = rng.below(14);
            let mut s = Vec::new();
            for _ in 0..len {
                s.extend_from_slice(*rng.pick(CSV_BYTES));
            }
            if sink.emit("csv.parse", &[hex(&s), hex(d)]).is_some() {
                sink.count("c24:csv:parse_noise");
            }
        }
    }
}
