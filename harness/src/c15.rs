//! C15 – read-only paths. `c15.ro`: `CompileConfig::is_read_only_path` vs the model, exhaustively over
//! a small segment alphabet; `o.c15`: programs accepted under a read-only configuration are run and
//! every read-only location is compared before/after (observations classified by the Lean driver).
use crate::lang;
use crate::rng::Rng;
use crate::sink::{Reply, Sink};
use crate::vrlrun;
use crate::wire::*;
use vrl::compiler::{CompileConfig, TimeZone};
use vrl::path::{OwnedSegment, OwnedTargetPath, OwnedValuePath, PathPrefix};

/// cfg text: entries `<e|m><r|n>:<path>` separated by ` ; ` (`-` = empty)
pub fn parse_cfg(s: &str) -> Option<Vec<(OwnedTargetPath, bool)>> {
    if s == "-" {
        return Some(vec![]);
    }
    s.split(" ; ")
        .map(|e| {
            let (head, p) = e.split_once(':')?;
            let mut cs = head.chars();
            let prefix = match cs.next()? {
                'e' => PathPrefix::Event,
                'm' => PathPrefix::Metadata,
                _ => return None,
            };
            let rec = match cs.next()? {
                'r' => true,
                'n' => false,
                _ => return None,
            };
            Some((OwnedTargetPath { prefix, path: parse_path(p)? }, rec))
        })
        .collect()
}

fn config_of(entries: &[(OwnedTargetPath, bool)]) -> CompileConfig {
    let mut c = CompileConfig::default();
    for (p, r) in entries {
        c.set_read_only_path(p.clone(), *r);
    }
    c
}

pub fn exec(op: &str, a: &[String]) -> Option<Reply> {
    match (op, a) {
        ("c15.ro", [cfg, m, p]) => {
            let entries = parse_cfg(cfg)?;
            let c = config_of(&entries);
            let prefix = if m == "m" { PathPrefix::Metadata } else { PathPrefix::Event };
            let r = c.is_read_only_path(&OwnedTargetPath { prefix, path: parse_path(p)? });
            Some(Reply::plain(if r { "1" } else { "0" }))
        }
        ("o.c15", [src, cfg, event, metadata]) => {
            let entries = parse_cfg(cfg)?;
            let srct = String::from_utf8(unhex(src)?).ok()?;
            let program = vrlrun::compile_cfg(&srct, config_of(&entries)).ok()?;
            let ev = parse_value(event)?;
            let md = parse_value(metadata)?;
            let r = vrlrun::run_program(&program, ev.clone(), md.clone(), vec![], &TimeZone::Named(chrono_tz::UTC));
            // per read-only entry: 1 = value at the path unchanged
            let same: Vec<String> = entries
                .iter()
                .map(|(p, _)| {
                    let (b, a) = match p.prefix {
                        PathPrefix::Event => (ev.get(&p.path), r.event.get(&p.path)),
                        PathPrefix::Metadata => (md.get(&p.path), r.metadata.get(&p.path)),
                    };
                    if b == a { "1".to_string() } else { "0".to_string() }
                })
                .collect();
            let log = if r.log.is_empty() { "-".to_string() } else { r.log.join(" | ") };
            Some(Reply::oracle(vec![same.join(" "), log]))
        }
        _ => None,
    }
}

fn show_entry(p: &OwnedTargetPath, rec: bool) -> String {
    format!(
        "{}{}:{}",
        if p.prefix == PathPrefix::Event { "e" } else { "m" },
        if rec { "r" } else { "n" },
        show_path(&p.path)
    )
}

fn all_paths(max_len: usize) -> Vec<OwnedValuePath> {
    let segs = [
        OwnedSegment::Field("a".into()),
        OwnedSegment::Field("b".into()),
        OwnedSegment::Index(0),
        OwnedSegment::Index(1),
        OwnedSegment::Index(-1),
    ];
    let mut out = vec![OwnedValuePath::root()];
    let mut frontier = vec![OwnedValuePath::root()];
    for _ in 0..max_len {
        let mut next = Vec::new();
        for p in &frontier {
            for s in &segs {
                let mut q = p.clone();
                q.segments.push(s.clone());
                next.push(q);
            }
        }
        out.extend(next.iter().cloned());
        frontier = next;
    }
    out
}

pub fn generate(sink: &mut Sink, rng: &mut Rng, n: u64) {
    // (1) is_read_only_path exhaustively: single-entry configs x paths up to depth 3 (quick: 2)
    let depth = if n >= 5000 { 3 } else { 2 };
    let paths = all_paths(depth);
    for ro in &paths {
        for rec in [false, true] {
            for rom in [PathPrefix::Event, PathPrefix::Metadata] {
                let cfg = show_entry(&OwnedTargetPath { prefix: rom, path: ro.clone() }, rec);
                for p in &paths {
                    for m in ["e", "m"] {
                        if rom == PathPrefix::Metadata && m == "e" && rng.chance(3, 4) {
                            continue; // cross-target pairs are all alike: sample them
                        }
                        sink.emit("c15.ro", &[cfg.clone(), m.to_string(), show_path(p)]);
                    }
                }
            }
        }
    }
    // two-entry configs, sampled
    for _ in 0..n {
        let e1 = show_entry(&OwnedTargetPath { prefix: PathPrefix::Event, path: rng.pick(&paths).clone() }, rng.chance(1, 2));
        let e2 = show_entry(
            &OwnedTargetPath { prefix: if rng.chance(1, 2) { PathPrefix::Event } else { PathPrefix::Metadata }, path: rng.pick(&paths).clone() },
            rng.chance(1, 2),
        );
        let p = rng.pick(&paths).clone();
        sink.emit("c15.ro", &[format!("{e1} ; {e2}"), if rng.chance(1, 4) { "m" } else { "e" }.to_string(), show_path(&p)]);
    }
    // (2) programs accepted under read-only configurations
    let ro_pool: &[(&str, bool)] = &[
        ("e:.61", false), ("e:.61 .62", false), ("e:.6f626a", false), ("e:.6f626a .78", false), ("e:.617272", false),
        ("e:.617272 #1", false), ("e:.617272 #0", false), ("m:.6d", false), ("m:.6d .6b", false), ("e:.6e", false), ("e:.73", false),
        ("e:.6f7574", false), ("e:.6f626a .79", false), ("e:.657272", false), ("m:.6d .65", false), ("m:.61", false), ("e:.6d", false),
    ];
    let mut accepted = 0u64;
    let mut tried = 0u64;
    while accepted < n && tried < n * 40 {
        tried += 1;
        let src = {
            let mut g = lang::Gen::new(rng);
            g.program()
        };
        if crate::typed::risky_alloc(&src) {
            continue;
        }
        let k = 1 + rng.below(2);
        let cfg: Vec<String> = (0..k)
            .map(|_| {
                let (p, _) = *rng.pick(ro_pool);
                let (pre, rest) = p.split_once(':').unwrap();
                format!("{pre}{}:{rest}", if rng.chance(1, 2) { "r" } else { "n" })
            })
            .collect();
        let cfg_s = cfg.join(" ; ");
        let entries = parse_cfg(&cfg_s).unwrap();
        if vrlrun::compile_cfg(&src, config_of(&entries)).is_err() {
            sink.count("c15:rejected");
            continue;
        }
        // only keep programs that write to the target at all
        if !(src.contains(". =") || src.contains("del(") || src.contains("% =") || src.contains("] =") || src.contains(" |= ")) && rng.chance(3, 4) {
            continue;
        }
        accepted += 1;
        sink.count("c15:accepted");
        for _ in 0..2 {
            let event = lang::gen_event(rng);
            let meta = lang::gen_metadata(rng);
            sink.emit("o.c15", &[hex(src.as_bytes()), cfg_s.clone(), show_value(&event), show_value(&meta)]);
        }
    }
}
