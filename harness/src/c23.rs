//! C23 – encryption round trips: `encrypt`/`decrypt`/`encrypt_ip`/`decrypt_ip` run through compiled
//! VRL programs (arguments taken from the event as bytes). See lean/VrlModel/Driver/C23.lean for the
//! op list. The raw AES-CBC of the `cbc`/`aes` crates (the same versions vrl links) is used only to
//! *observe* what the real functions padded/unpadded; nothing here re-implements vrl's glue.
use crate::rng::Rng;
use crate::sink::{guarded, Reply, Sink};
use crate::vrlrun::run_vrl;
use crate::wire::{hex, unhex};
use cbc::cipher::block_padding::array::{typenum::U16, Array};
use cbc::cipher::block_padding::{AnsiX923, Iso10126, Iso7816, NoPadding, PaddedData, Padding, Pkcs7};
use cbc::cipher::{BlockModeDecrypt, BlockModeEncrypt, KeyIvInit};
use std::collections::BTreeMap;
use std::net::IpAddr;
use vrl::value::Value;

fn hx(b: &[u8]) -> String {
    if b.is_empty() { "-".into() } else { hex(b) }
}
fn unhx(s: &str) -> Option<Vec<u8>> {
    if s == "-" { Some(Vec::new()) } else { unhex(s) }
}

fn event(fields: &[(&str, &[u8])]) -> Value {
    let mut m = BTreeMap::new();
    for (k, v) in fields {
        m.insert((*k).into(), Value::Bytes(bytes::Bytes::copy_from_slice(v)));
    }
    Value::Object(m)
}

const ENC: &str = "encrypt!(.p, .a, .k, .iv)";
const DEC: &str = "decrypt!(.p, .a, .k, .iv)";
const ENC_IP: &str = "encrypt_ip!(.ip, .k, .m)";
const DEC_IP: &str = "decrypt_ip!(.ip, .k, .m)";

enum Out {
    Ok(Vec<u8>),
    Err(String),
    Panic,
}

fn run(src: &'static str, ev: Value) -> Out {
    match guarded(move || run_vrl(src, ev)) {
        Ok(Ok(Value::Bytes(b))) => Out::Ok(b.to_vec()),
        Ok(Ok(other)) => Out::Err(format!("not-bytes:{other}")),
        Ok(Err(e)) => Out::Err(e),
        Err(_) => Out::Panic,
    }
}

fn crypt(src: &'static str, alg: &[u8], key: &[u8], iv: &[u8], data: &[u8]) -> Out {
    run(src, event(&[("p", data), ("a", alg), ("k", key), ("iv", iv)]))
}

fn two_numbers(msg: &str, after: &str) -> Option<(u64, u64)> {
    // "...<after>. Expected N bytes. Found M bytes"
    let rest = &msg[msg.find(after)? + after.len()..];
    let rest = rest.strip_prefix(". Expected ")?;
    let (n, rest) = rest.split_once(" bytes. Found ")?;
    let (m, _) = rest.split_once(" bytes")?;
    Some((n.parse().ok()?, m.parse().ok()?))
}

fn err_class(msg: &str) -> String {
    if msg.contains("Invalid algorithm: ") {
        "err:alg".into()
    } else if let Some((n, m)) = two_numbers(msg, "Invalid key size") {
        format!("err:key:{n}:{m}")
    } else if let Some((n, m)) = two_numbers(msg, "Invalid iv size") {
        format!("err:iv:{n}:{m}")
    } else if msg.ends_with("Invalid input") {
        "err:input".into()
    } else {
        format!("err:other:{}", msg.replace(['\t', '\n', ':'], " "))
    }
}

fn show_len(o: &Out) -> String {
    match o {
        Out::Ok(b) => format!("ok:{}", b.len()),
        Out::Err(m) => err_class(m),
        Out::Panic => "panic".into(),
    }
}
fn show_full(o: &Out) -> String {
    match o {
        Out::Ok(b) => format!("ok:{}", hx(b)),
        Out::Err(m) => err_class(m),
        Out::Panic => "panic".into(),
    }
}

/// AES key size of a CBC algorithm name (harness-side helper for the raw-CBC observation only).
fn cbc_key_bits(alg: &[u8]) -> Option<u32> {
    let s = String::from_utf8_lossy(alg).to_uppercase();
    for bits in [128u32, 192, 256] {
        if s.starts_with(&format!("AES-{bits}-CBC-")) {
            return Some(bits);
        }
    }
    None
}

fn raw_cbc(decrypt: bool, bits: u32, key: &[u8], iv: &[u8], data: &[u8]) -> Option<Vec<u8>> {
    if data.len() % 16 != 0 {
        return None;
    }
    macro_rules! go {
        ($aes:ty) => {{
            if decrypt {
                cbc::Decryptor::<$aes>::new_from_slices(key, iv).ok()?.decrypt_padded_vec::<NoPadding>(data).ok()
            } else {
                Some(cbc::Encryptor::<$aes>::new_from_slices(key, iv).ok()?.encrypt_padded_vec::<NoPadding>(data))
            }
        }};
    }
    match bits {
        128 => go!(aes::Aes128),
        192 => go!(aes::Aes192),
        256 => go!(aes::Aes256),
        _ => None,
    }
}

fn pad_direct<P: Padding>(data: &[u8]) -> Vec<u8> {
    match P::pad_detached::<U16>(data) {
        PaddedData::Pad { blocks, tail_block } => {
            let mut v: Vec<u8> = Array::slice_as_flattened(blocks).to_vec();
            v.extend_from_slice(tail_block.as_slice());
            v
        }
        _ => unreachable!("the four schemes always pad"),
    }
}
fn unpad_direct<P: Padding>(buf: &[u8]) -> Option<Result<Vec<u8>, ()>> {
    let (blocks, tail) = Array::<u8, U16>::slice_as_chunks(buf);
    if !tail.is_empty() {
        return None;
    }
    Some(P::unpad_blocks::<U16>(blocks).map(|s| s.to_vec()).map_err(|_| ()))
}

fn show_ip(ip: &IpAddr) -> String {
    match ip {
        IpAddr::V4(a) => format!("4:{}", hex(&a.octets())),
        IpAddr::V6(a) => format!("6:{}", hex(&a.octets())),
    }
}
fn parse_ip_bytes(text: &[u8]) -> Option<IpAddr> {
    String::from_utf8_lossy(text).parse().ok()
}
fn show_parsed(text: &[u8]) -> String {
    parse_ip_bytes(text).map(|ip| show_ip(&ip)).unwrap_or_else(|| "x".into())
}

fn ip_err_class(msg: &str) -> String {
    if msg.contains("unable to parse IP address") {
        return "err:ip".into();
    }
    if msg.contains("two 16-byte halves differ") {
        return "err:pfxhalves".into();
    }
    if msg.contains("Invalid mode '") {
        return "err:mode".into();
    }
    for mode in ["aes128", "pfx"] {
        for n in [16, 32] {
            for (v, label) in [("4", "IPv4"), ("6", "IPv6")] {
                if msg.ends_with(&format!("{mode} mode requires a {n}-byte key for {label}")) {
                    return format!("err:key:{mode}:{n}:{v}");
                }
            }
        }
    }
    format!("err:other:{}", msg.replace(['\t', '\n', ':'], " "))
}
fn ip_run(src: &'static str, text: &[u8], key: &[u8], mode: &[u8]) -> Out {
    run(src, event(&[("ip", text), ("k", key), ("m", mode)]))
}
/// `ok` | `err:…` | `panic`
fn show_ip_class(o: &Out) -> String {
    match o {
        Out::Ok(_) => "ok".into(),
        Out::Err(m) => ip_err_class(m),
        Out::Panic => "panic".into(),
    }
}
/// `ok:<parsed address>` | `err:…` | `panic`
fn show_ip_full(o: &Out) -> String {
    match o {
        Out::Ok(b) => format!("ok:{}", show_parsed(b)),
        Out::Err(m) => ip_err_class(m),
        Out::Panic => "panic".into(),
    }
}

fn ascii_projection(b: &[u8]) -> Vec<u8> {
    let mut out = Vec::new();
    let mut in_run = false;
    for &c in b {
        if c < 128 {
            out.push(c);
            in_run = false;
        } else if !in_run {
            out.push(b'?');
            in_run = true;
        }
    }
    out
}

/// characters allowed inside the string literal of `c23.compile`
fn literal_safe(s: &str) -> bool {
    s.chars().all(|c| !c.is_control() && !matches!(c, '"' | '\\' | '{' | '}'))
}

pub fn exec(op: &str, a: &[String]) -> Option<Reply> {
    match (op, a) {
        ("c23.enc", [alg, key, iv, pt]) => {
            let o = crypt(ENC, &unhx(alg)?, &unhx(key)?, &unhx(iv)?, &unhx(pt)?);
            Some(Reply::plain(show_len(&o)))
        }
        ("c23.dec", [alg, key, iv, ct]) => {
            let o = crypt(DEC, &unhx(alg)?, &unhx(key)?, &unhx(iv)?, &unhx(ct)?);
            Some(Reply::plain(show_len(&o)))
        }
        ("c23.compile", [f, alg]) => {
            let name = String::from_utf8(unhx(alg)?).ok()?;
            if !literal_safe(&name) {
                return None;
            }
            let f = match f.as_str() {
                "enc" => "encrypt",
                "dec" => "decrypt",
                _ => return None,
            };
            let src = format!("{f}!(.p, \"{name}\", .k, .iv)");
            Some(Reply::plain(match crate::vrlrun::compile(&src) {
                Ok(_) => "ok".to_string(),
                Err(e) if e.starts_with("panic") => "panic".to_string(),
                Err(_) => "compile-error".to_string(),
            }))
        }
        ("c23.upper", [b]) => {
            let b = unhx(b)?;
            let up = String::from_utf8_lossy(&b).to_uppercase();
            Some(Reply::plain(hx(&ascii_projection(up.as_bytes()))))
        }
        ("c23.pad", [scheme, pt]) => {
            let pt = unhx(pt)?;
            let v = match scheme.as_str() {
                "pkcs7" => pad_direct::<Pkcs7>(&pt),
                "ansix923" => pad_direct::<AnsiX923>(&pt),
                "iso7816" => pad_direct::<Iso7816>(&pt),
                "iso10126" => pad_direct::<Iso10126>(&pt),
                _ => return None,
            };
            Some(Reply::plain(hx(&v)))
        }
        ("c23.unpad", [scheme, buf]) => {
            let buf = unhx(buf)?;
            let r = guarded(|| match scheme.as_str() {
                "pkcs7" => unpad_direct::<Pkcs7>(&buf),
                "ansix923" => unpad_direct::<AnsiX923>(&buf),
                "iso7816" => unpad_direct::<Iso7816>(&buf),
                "iso10126" => unpad_direct::<Iso10126>(&buf),
                _ => None,
            });
            Some(Reply::plain(match r {
                Ok(Some(Ok(p))) => format!("ok:{}", hx(&p)),
                Ok(Some(Err(()))) => "err".to_string(),
                Ok(None) => return None,
                Err(_) => "panic".to_string(),
            }))
        }
        ("c23.ip.enc" | "c23.ip.dec", [text, parsed, key, mode]) => {
            let text = unhx(text)?;
            // `parsed` is std's answer for `text`, passed along for the model; refuse stale cases
            if *parsed != show_parsed(&text) {
                return Some(Reply::plain("bad-case"));
            }
            let src = if op == "c23.ip.enc" { ENC_IP } else { DEC_IP };
            Some(Reply::plain(show_ip_class(&ip_run(src, &text, &unhx(key)?, &unhx(mode)?))))
        }
        ("o.c23", [alg, key, iv, pt]) => {
            let (alg, key, iv, pt) = (unhx(alg)?, unhx(key)?, unhx(iv)?, unhx(pt)?);
            let enc = crypt(ENC, &alg, &key, &iv, &pt);
            let dec = match &enc {
                Out::Ok(c) => crypt(DEC, &alg, &key, &iv, c),
                _ => crypt(DEC, &alg, &key, &iv, &pt),
            };
            Some(Reply::oracle(vec![show_full(&enc), show_full(&dec)]))
        }
        ("o.c23.pad", [alg, key, iv, pt]) => {
            let (alg, key, iv, pt) = (unhx(alg)?, unhx(key)?, unhx(iv)?, unhx(pt)?);
            let bits = cbc_key_bits(&alg)?;
            let Out::Ok(ct) = crypt(ENC, &alg, &key, &iv, &pt) else { return None };
            let raw = raw_cbc(true, bits, &key, &iv, &ct)?;
            Some(Reply::oracle(vec![ct.len().to_string(), hx(&raw)]))
        }
        ("o.c23.unpad", [alg, key, iv, ct]) => {
            let (alg, key, iv, ct) = (unhx(alg)?, unhx(key)?, unhx(iv)?, unhx(ct)?);
            let bits = cbc_key_bits(&alg)?;
            // for a ciphertext that is not whole blocks no raw decryption exists (and none is used)
            let raw = raw_cbc(true, bits, &key, &iv, &ct).unwrap_or_default();
            let dec = crypt(DEC, &alg, &key, &iv, &ct);
            Some(Reply::oracle(vec![hx(&raw), show_full(&dec)]))
        }
        ("o.c23.garbage", [alg, key, iv, ct]) => {
            let dec = crypt(DEC, &unhx(alg)?, &unhx(key)?, &unhx(iv)?, &unhx(ct)?);
            Some(Reply::oracle(vec![show_full(&dec)]))
        }
        ("o.c23.ip", [text, key, mode]) => {
            let (text, key, mode) = (unhx(text)?, unhx(key)?, unhx(mode)?);
            let enc = ip_run(ENC_IP, &text, &key, &mode);
            let dec = match &enc {
                Out::Ok(c) => ip_run(DEC_IP, c, &key, &mode),
                _ => ip_run(DEC_IP, &text, &key, &mode),
            };
            Some(Reply::oracle(vec![show_parsed(&text), show_ip_full(&enc), show_ip_full(&dec)]))
        }
        _ => None,
    }
}

// ---------------------------------------------------------------------------------------------
// generation

/// (name, key bytes, iv bytes) – used to *generate* well-sized inputs; never to judge an answer.
pub fn algorithms() -> Vec<(String, usize, usize)> {
    let mut v = Vec::new();
    for (bits, k) in [(256, 32), (192, 24), (128, 16)] {
        for mode in [
            "CFB", "OFB", "CTR", "CTR-LE", "CTR-BE", "CBC-PKCS7", "CBC-ANSIX923", "CBC-ISO7816", "CBC-ISO10126",
        ] {
            v.push((format!("AES-{bits}-{mode}"), k, 16));
        }
    }
    v.push(("AES-128-SIV".into(), 32, 16));
    v.push(("AES-256-SIV".into(), 64, 16));
    v.push(("CHACHA20-POLY1305".into(), 32, 12));
    v.push(("XCHACHA20-POLY1305".into(), 32, 24));
    v.push(("XSALSA20-POLY1305".into(), 32, 24));
    v
}

fn rand_bytes(rng: &mut Rng, n: usize) -> Vec<u8> {
    (0..n).map(|_| rng.below(256) as u8).collect()
}

fn is_aead(name: &str) -> bool {
    name.contains("SIV") || name.contains("POLY1305")
}
fn is_cbc(name: &str) -> bool {
    name.contains("-CBC-")
}

fn emit4(sink: &mut Sink, op: &str, alg: &[u8], key: &[u8], iv: &[u8], data: &[u8]) -> Option<Reply> {
    sink.emit(op, &[hx(alg), hx(key), hx(iv), hx(data)])
}

/// spelling variants of a name: case changes and the two non-ASCII letters that upper-case to ASCII.
fn spell(rng: &mut Rng, name: &str) -> String {
    match rng.below(6) {
        0 => name.to_string(),
        1 => name.to_lowercase(),
        2 => name.chars().map(|c| if rng.chance(1, 2) { c.to_ascii_lowercase() } else { c }).collect(),
        3 => name.to_lowercase().replace('s', "ſ"),
        4 => name.to_lowercase().replace('i', "ı"),
        _ => name
            .chars()
            .map(|c| match (c, rng.below(3)) {
                ('S', 0) => 'ſ',
                ('I', 0) => 'ı',
                (c, 1) => c.to_ascii_lowercase(),
                (c, _) => c,
            })
            .collect(),
    }
}

fn wrong_names() -> Vec<Vec<u8>> {
    let mut v: Vec<Vec<u8>> = [
        "", " ", "AES", "AES-256", "AES-256-GCM", "AES-512-CFB", "AES_256_CFB", "AES-256-CFB ", " AES-256-CFB",
        "AES-256-CFB\0", "AES-256-CBC", "AES-256-CBC-", "AES-256-CBC-PKCS5", "AES-256-CBC-NOPADDING",
        "AES-256-CBC-ZERO", "AES-128-CTR-", "AES-128-CTR-ME", "AES-64-CTR", "AES-192-SIV", "AES-512-SIV",
        "CHACHA20", "CHACHA20POLY1305", "CHACHA20_POLY1305", "XCHACHA20-POLY1305 ", "SALSA20-POLY1305",
        "XSALSA20-POLY1306", "DES-CBC", "3DES", "RC4", "aes256cfb", "AES–256–CFB", "ΑES-256-CFB",
        "AES-128-CBC-P\u{212A}CS7", "AES-128-CBC-PKCß7", "AEß-128-CFB", "AES-128-C\u{FB00}B", "AES-128-CﬁB",
        "AE\u{FB06}-128", "AES-128-\u{FB05}IV", "aes-128-ſiv ", "ǰ", "ŉ", "İES-128-CFB", "aes-128-sİv",
    ]
    .iter()
    .map(|s| s.as_bytes().to_vec())
    .collect();
    // invalid UTF-8 around and inside a valid name
    v.push(b"AES-256-CFB\xff".to_vec());
    v.push(b"\xffAES-256-CFB".to_vec());
    v.push(b"AES-256\xc3-CFB".to_vec());
    v.push(b"AES-128-\xc5\xbfIV".to_vec()); // valid: ſ
    v.push(b"AES-128-\xc5IV".to_vec()); // truncated ſ
    v.push(b"AES-128-S\xc4\xb1V".to_vec()); // valid: ı
    v.push(b"AES-128-S\xb1V".to_vec()); // stray continuation
    v.push(b"\xe1\xba\x96\xef\xac\x83".to_vec());
    v
}

const KEY_LENS: [usize; 14] = [0, 1, 15, 16, 17, 23, 24, 25, 31, 32, 33, 63, 64, 65];
const IV_LENS: [usize; 11] = [0, 1, 11, 12, 13, 15, 16, 17, 23, 24, 25];

fn pt_lengths(rng: &mut Rng) -> Vec<usize> {
    let mut v: Vec<usize> = (0..=80).collect();
    v.extend([95, 96, 97, 127, 128, 129, 255, 256, 257, 1000, 1024, 4095, 4096, 4097]);
    v.push(100 + rng.below(3000) as usize);
    v
}

fn ip_corners() -> Vec<&'static str> {
    vec![
        "0.0.0.0", "255.255.255.255", "127.0.0.1", "192.168.1.1", "10.0.0.1", "1.2.3.4", "224.0.0.1", "169.254.0.1",
        "::", "::1", "ffff:ffff:ffff:ffff:ffff:ffff:ffff:ffff", "2001:db8::1", "fe80::1", "ff02::1", "::ffff:0:0",
        "::ffff:1.2.3.4", "::ffff:255.255.255.255", "::fffe:1.2.3.4", "::1.2.3.4", "0:0:0:0:0:ffff:102:304",
        "64:ff9b::1.2.3.4", "2001:DB8:0:0:0:0:0:1", "2001:0db8:0000:0000:0000:0000:0000:0001", "1::", "::ffff:0.0.0.0",
        "0:0:0:0:0:fffe:ffff:ffff", "0:0:0:0:1:ffff:1.2.3.4", "100::ffff:1.2.3.4",
    ]
}
fn ip_malformed() -> Vec<&'static [u8]> {
    vec![
        b"", b" ", b"1.2.3", b"1.2.3.4.5", b"256.1.1.1", b"01.2.3.4", b"1.2.3.4 ", b" 1.2.3.4", b"1.2.3.4/24", b"::g",
        b":::", b"1:2:3:4:5:6:7", b"1:2:3:4:5:6:7:8:9", b"[::1]", b"::1%eth0", b"localhost", b"not an ip", b"\xff\xfe",
        b"1.2.3.4\0", b"0x7f.0.0.1", b"::ffff:1.2.3", b"1.2.3.\xef\xbc\x94",
    ]
}

fn rand_ip(rng: &mut Rng) -> String {
    match rng.below(8) {
        0..=2 => std::net::Ipv4Addr::from(rng.next() as u32).to_string(),
        3..=5 => std::net::Ipv6Addr::from(((rng.next() as u128) << 64) | rng.next() as u128).to_string(),
        // IPv6 with many zero groups (compressed forms, near the mapped range)
        6 => {
            let mut o = [0u8; 16];
            for _ in 0..rng.below(5) {
                o[rng.below(16) as usize] = rng.below(256) as u8;
            }
            std::net::Ipv6Addr::from(o).to_string()
        }
        // IPv4-mapped IPv6
        _ => format!("::ffff:{}", std::net::Ipv4Addr::from(rng.next() as u32)),
    }
}

fn pfx_key(rng: &mut Rng) -> Vec<u8> {
    loop {
        let k = rand_bytes(rng, 32);
        if k[..16] != k[16..] {
            return k;
        }
    }
}

fn emit_ip(sink: &mut Sink, text: &[u8], key: &[u8], mode: &[u8]) {
    let parsed = show_parsed(text);
    sink.emit("c23.ip.enc", &[hx(text), parsed.clone(), hx(key), hx(mode)]);
    sink.emit("c23.ip.dec", &[hx(text), parsed, hx(key), hx(mode)]);
}

/// last blocks that exercise every branch of the four `raw_unpad`s
fn crafted_last_block(rng: &mut Rng) -> Vec<u8> {
    let mut b = rand_bytes(rng, 16);
    let n = match rng.below(8) {
        0 => 0,
        1 => 16,
        2 => 17 + rng.below(239) as u8,
        _ => 1 + rng.below(16) as u8,
    };
    match rng.below(9) {
        // PKCS#7-shaped, possibly with one wrong filler byte
        0 | 1 => {
            let k = (n as usize).min(16);
            for x in &mut b[16 - k..] {
                *x = n;
            }
            if rng.chance(1, 3) && k > 1 {
                b[16 - k + rng.below(k as u64 - 1) as usize] ^= 1 + rng.below(255) as u8;
            }
        }
        // ANSI X9.23-shaped
        2 | 3 => {
            let k = (n as usize).min(16);
            for x in &mut b[16 - k..] {
                *x = 0;
            }
            b[15] = n;
            if rng.chance(1, 3) && k > 1 {
                b[16 - k + rng.below(k as u64 - 1) as usize] = 1 + rng.below(255) as u8;
            }
        }
        // ISO 7816-shaped
        4 | 5 => {
            let k = (n as usize).clamp(1, 16);
            for x in &mut b[16 - k..] {
                *x = 0;
            }
            match rng.below(4) {
                0 => {}                       // all zeros at the end, marker (maybe) missing
                1 => b[16 - k] = 0x80,
                2 => b[16 - k] = 0x81,
                _ => {
                    b[16 - k] = 0x80;
                    if k > 1 {
                        b[15] = rng.below(256) as u8;
                    }
                }
            }
        }
        6 => b = vec![0; 16],
        7 => b[15] = n,
        _ => {}
    }
    b
}

pub fn generate(sink: &mut Sink, rng: &mut Rng, n: u64) {
    let algs = algorithms();
    let thorough = n > 20_000;

    // --- every character whose upper-case form touches ASCII (exhaustive), then random strings
    for cp in 0u32..=0x10FFFF {
        let Some(c) = char::from_u32(cp) else { continue };
        let up: String = c.to_uppercase().collect();
        if c.is_ascii() || up.bytes().any(|b| b < 128) {
            let mut buf = [0u8; 4];
            sink.emit("c23.upper", &[hx(c.encode_utf8(&mut buf).as_bytes())]);
            sink.count("c23:upper_exhaustive_chars");
        }
    }
    for w in wrong_names() {
        sink.emit("c23.upper", &[hx(&w)]);
    }
    for _ in 0..(n / 4).max(500) {
        let len = rng.below(12) as usize;
        let mut s = Vec::new();
        for _ in 0..len {
            match rng.below(6) {
                0 => s.push(rng.below(256) as u8),
                1 => {
                    let c = char::from_u32(rng.below(0x3000) as u32).unwrap_or('x');
                    let mut buf = [0u8; 4];
                    s.extend_from_slice(c.encode_utf8(&mut buf).as_bytes());
                }
                2 => s.extend_from_slice(rng.pick(&["ſ", "ı", "ß", "ﬁ", "ﬆ", "ŉ", "ẚ", "K", "İ"]).as_bytes()),
                _ => s.push(32 + rng.below(95) as u8),
            }
        }
        sink.emit("c23.upper", &[hx(&s)]);
        sink.count("c23:upper_random");
    }

    // --- algorithm names: accept/reject, which key/IV sizes they demand, compile-time check
    let mut names: Vec<(Vec<u8>, bool)> = Vec::new();
    for (name, _, _) in &algs {
        names.push((name.as_bytes().to_vec(), true));
        names.push((name.to_lowercase().into_bytes(), true));
        for _ in 0..4 {
            names.push((spell(rng, name).into_bytes(), true));
        }
        // one-character damage
        let mut b = name.as_bytes().to_vec();
        let i = rng.below(b.len() as u64) as usize;
        match rng.below(3) {
            0 => {
                b.remove(i);
            }
            1 => b.insert(i, *rng.pick(b"-_ 0X")),
            _ => b[i] = b[i].wrapping_add(1),
        }
        names.push((b, false));
    }
    for w in wrong_names() {
        names.push((w, false));
    }
    for (name, listed) in &names {
        sink.count(if *listed { "c23:name_spelling_of_listed" } else { "c23:name_other" });
        // empty key: the error tells whether the name was accepted and which key size it wants
        emit4(sink, "c23.enc", name, b"", b"", b"x");
        emit4(sink, "c23.dec", name, b"", b"", b"x");
        for k in [16usize, 24, 32, 64] {
            // right key (if this is the size), empty IV: reveals the IV size
            emit4(sink, "c23.enc", name, &rand_bytes(rng, k), b"", b"x");
            emit4(sink, "c23.dec", name, &rand_bytes(rng, k), b"", b"x");
        }
        if let Ok(s) = std::str::from_utf8(name) {
            if literal_safe(s) {
                let h = hx(name);
                sink.emit("c23.compile", &["enc".into(), h.clone()]);
                sink.emit("c23.compile", &["dec".into(), h]);
            }
        }
    }

    // --- key / IV size grid for every algorithm (stream algorithms also with sizes right)
    for (name, klen, ivlen) in &algs {
        for &k in &KEY_LENS {
            for &i in &IV_LENS {
                let key = rand_bytes(rng, k);
                let iv = rand_bytes(rng, i);
                let dlen = rng.below(40) as usize;
                let data = rand_bytes(rng, dlen);
                emit4(sink, "c23.enc", name.as_bytes(), &key, &iv, &data);
                let sizes_ok = k == *klen && i == *ivlen;
                // decrypt: determined by the glue unless an AEAD / CBC sees attacker-chosen blocks
                let determined =
                    !sizes_ok || (!is_aead(name) && (!is_cbc(name) || data.len() % 16 != 0 || data.is_empty()));
                if determined {
                    emit4(sink, "c23.dec", name.as_bytes(), &key, &iv, &data);
                }
                sink.count(if sizes_ok { "c23:grid_sizes_ok" } else { "c23:grid_sizes_wrong" });
            }
        }
    }

    // --- padding crate called directly: every scheme x every length 0..=80
    for scheme in ["pkcs7", "ansix923", "iso7816", "iso10126"] {
        for len in 0..=80usize {
            sink.emit("c23.pad", &[scheme.into(), hx(&rand_bytes(rng, len))]);
        }
        for blocks in 0..=3usize {
            for _ in 0..(if thorough { 4000 } else { 120 }) {
                let mut buf = rand_bytes(rng, blocks.saturating_sub(1) * 16);
                if blocks > 0 {
                    buf.extend(crafted_last_block(rng));
                }
                sink.emit("c23.unpad", &[scheme.into(), hx(&buf)]);
                sink.count("c23:unpad_direct");
            }
        }
    }

    // --- the round trip: every algorithm name x plaintext lengths 0..=80 (+ longer) x random key/IV
    let sweeps = if thorough { (n / 9000).max(2) } else { 1 };
    for sweep in 0..sweeps {
        for (name, klen, ivlen) in &algs {
            for len in pt_lengths(rng) {
                let key = rand_bytes(rng, *klen);
                // counter / nonce edge values: all ones, a low or high half of ones (a block counter that
                // wraps inside the message), all zeros
                let iv = match rng.below(10) {
                    0 => vec![0xff; *ivlen],
                    1 => (0..*ivlen).map(|i| if i >= *ivlen / 2 { 0xff } else { rng.below(256) as u8 }).collect(),
                    2 => (0..*ivlen).map(|i| if i < *ivlen / 2 { 0xff } else { rng.below(256) as u8 }).collect(),
                    3 => {
                        let mut v = vec![0xff; *ivlen];
                        if let Some(l) = v.last_mut() {
                            *l = 0xfe;
                        }
                        v
                    }
                    4 => vec![0; *ivlen],
                    _ => rand_bytes(rng, *ivlen),
                };
                let pt = if rng.chance(1, 8) { vec![*rng.pick(&[0u8, 0x80, 1, 16, 255]); len] } else { rand_bytes(rng, len) };
                let spelled = if sweep == 0 { name.clone() } else { spell(rng, name) };
                emit4(sink, "o.c23", spelled.as_bytes(), &key, &iv, &pt);
                sink.count("c23:roundtrip");
                // ciphertext length as the model predicts it; for the length-preserving ciphers also
                // the length of `decrypt` on arbitrary bytes
                emit4(sink, "c23.enc", spelled.as_bytes(), &key, &iv, &pt);
                if !is_aead(name) && !is_cbc(name) {
                    emit4(sink, "c23.dec", spelled.as_bytes(), &key, &iv, &pt);
                }
                if is_cbc(name) {
                    emit4(sink, "o.c23.pad", spelled.as_bytes(), &key, &iv, &pt);
                    sink.count("c23:pad_observed");
                }
            }
        }
    }
    // rejected on both sides alike
    for _ in 0..(n / 10).max(200) {
        let (name, klen, ivlen) = rng.pick(&algs).clone();
        let (k, i) = match rng.below(3) {
            0 => (*rng.pick(&KEY_LENS), ivlen),
            1 => (klen, *rng.pick(&IV_LENS)),
            _ => (*rng.pick(&KEY_LENS), *rng.pick(&IV_LENS)),
        };
        let name = if rng.chance(1, 6) { rng.pick(&wrong_names()).clone() } else { spell(rng, &name).into_bytes() };
        let plen = rng.below(50) as usize;
        let pt = rand_bytes(rng, plen);
        emit4(sink, "o.c23", &name, &rand_bytes(rng, k), &rand_bytes(rng, i), &pt);
        sink.count("c23:roundtrip_mostly_rejected");
    }

    // --- decrypting garbage
    let garbage = if thorough { n / 40 } else { 60 };
    for (name, klen, ivlen) in &algs {
        for g in 0..garbage {
            let key = rand_bytes(rng, *klen);
            let iv = rand_bytes(rng, *ivlen);
            if is_cbc(name) {
                // chosen padded blocks, encrypted with raw CBC, so that every unpad branch is reached
                let blocks = rng.below(4) as usize;
                let mut raw = rand_bytes(rng, blocks * 16);
                raw.extend(crafted_last_block(rng));
                let bits = cbc_key_bits(name.as_bytes()).unwrap();
                let ct = raw_cbc(false, bits, &key, &iv, &raw).unwrap();
                emit4(sink, "o.c23.unpad", name.as_bytes(), &key, &iv, &ct);
                sink.count("c23:unpad_crafted");
                // random bytes of any length (mostly not whole blocks), and the empty ciphertext
                let len = if g == 0 { 0 } else { rng.below(70) as usize };
                let ct = rand_bytes(rng, len);
                emit4(sink, "o.c23.unpad", name.as_bytes(), &key, &iv, &ct);
                emit4(sink, "o.c23.garbage", name.as_bytes(), &key, &iv, &ct);
                sink.count("c23:garbage_cbc");
            } else {
                let len = if g == 0 { 0 } else if g == 1 { 15 } else if g == 2 { 16 } else { rng.below(70) as usize };
                let ct = rand_bytes(rng, len);
                emit4(sink, "o.c23.garbage", name.as_bytes(), &key, &iv, &ct);
                sink.count(if is_aead(name) { "c23:garbage_aead" } else { "c23:garbage_stream" });
            }
        }
    }
    // AEAD: a valid ciphertext with one bit flipped / truncated / extended
    for (name, klen, ivlen) in algs.iter().filter(|a| is_aead(&a.0)) {
        for _ in 0..(if thorough { 200 } else { 10 }) {
            let key = rand_bytes(rng, *klen);
            let iv = rand_bytes(rng, *ivlen);
            let plen = rng.below(40) as usize;
            let pt = rand_bytes(rng, plen);
            if let Out::Ok(mut ct) = crypt(ENC, name.as_bytes(), &key, &iv, &pt) {
                match rng.below(4) {
                    0 => {
                        let i = rng.below(ct.len() as u64) as usize;
                        ct[i] ^= 1 << rng.below(8);
                    }
                    1 => {
                        ct.pop();
                    }
                    2 => ct.push(0),
                    _ => {} // untouched: must decrypt
                }
                emit4(sink, "o.c23.garbage", name.as_bytes(), &key, &iv, &ct);
                sink.count("c23:garbage_aead_tampered");
            }
        }
    }

    // --- IP addresses
    let modes: [&[u8]; 2] = [b"aes128", b"pfx"];
    let bad_modes: [&[u8]; 9] = [b"", b"AES128", b"PFX", b"Pfx", b"aes-128", b"aes128 ", b"pfx\0", b"aes256", b"\xffpfx"];
    let corners = ip_corners();
    for text in &corners {
        for mode in modes {
            let klen = if mode == b"pfx" { 32 } else { 16 };
            for _ in 0..3 {
                let key = if klen == 32 { pfx_key(rng) } else { rand_bytes(rng, 16) };
                sink.emit("o.c23.ip", &[hx(text.as_bytes()), hx(&key), hx(mode)]);
                emit_ip(sink, text.as_bytes(), &key, mode);
                sink.count("c23:ip_corner");
            }
            for k in [0usize, 15, 16, 17, 31, 32, 33] {
                emit_ip(sink, text.as_bytes(), &rand_bytes(rng, k), mode);
            }
        }
        for mode in bad_modes {
            emit_ip(sink, text.as_bytes(), &rand_bytes(rng, 16), mode);
            emit_ip(sink, text.as_bytes(), &rand_bytes(rng, 32), mode);
        }
    }
    for text in ip_malformed() {
        for mode in modes.iter().chain(bad_modes.iter()) {
            emit_ip(sink, text, &rand_bytes(rng, 16), mode);
            let klen = *rng.pick(&[0usize, 16, 32]);
            emit_ip(sink, text, &rand_bytes(rng, klen), mode);
            sink.count("c23:ip_malformed");
        }
    }
    // pfx keys with equal halves (IpcryptPfx::new asserts)
    for text in ["1.2.3.4", "2001:db8::1"] {
        let half = rand_bytes(rng, 16);
        let key = [half.clone(), half].concat();
        emit_ip(sink, text.as_bytes(), &key, b"pfx");
        emit_ip(sink, text.as_bytes(), &key, b"aes128");
        emit_ip(sink, b"nonsense", &key, b"pfx");
        sink.emit("o.c23.ip", &[hx(text.as_bytes()), hx(&key), hx(b"pfx")]);
        sink.count("c23:ip_pfx_equal_halves");
    }
    // an IPv6 address whose pfx ciphertext lies in ::ffff:0:0/96 (found by decrypting such a ciphertext as IPv6)
    for _ in 0..(if thorough { 50 } else { 3 }) {
        let key = pfx_key(rng);
        let target = format!("::ffff:{}", std::net::Ipv4Addr::from(rng.next() as u32));
        if let Out::Ok(x) = ip_run(DEC_IP, target.as_bytes(), &key, b"pfx") {
            sink.emit("o.c23.ip", &[hx(&x), hx(&key), hx(b"pfx")]);
            sink.count("c23:ip_pfx_ciphertext_in_mapped_range");
        }
        let key = rand_bytes(rng, 16);
        if let Out::Ok(x) = ip_run(DEC_IP, target.as_bytes(), &key, b"aes128") {
            sink.emit("o.c23.ip", &[hx(&x), hx(&key), hx(b"aes128")]);
            sink.count("c23:ip_aes128_ciphertext_in_mapped_range");
        }
    }
    for _ in 0..(n / 2).max(300) {
        let text = rand_ip(rng);
        let mode = *rng.pick(&modes);
        let key = if mode == b"pfx" { pfx_key(rng) } else { rand_bytes(rng, 16) };
        sink.emit("o.c23.ip", &[hx(text.as_bytes()), hx(&key), hx(mode)]);
        if rng.chance(1, 4) {
            emit_ip(sink, text.as_bytes(), &key, mode);
        }
        sink.count(if text.contains('.') && !text.contains(':') { "c23:ip_random_v4" } else { "c23:ip_random_v6" });
    }
}
