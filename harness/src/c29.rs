//! C29 (integer/conversion part) – `abs`, `mod`, `to_int`, `to_string` through compiled VRL
//! programs; oracles on integers. Cases whose result is decided by float arithmetic or by
//! float/timestamp printing are outside the Lean model (`unmodelled`) and are not generated here.
use crate::gens::*;
use crate::rng::Rng;
use crate::sink::{Reply, Sink};
use crate::vrlrun::tagged::run_vrl;
use crate::wire::*;
use vrl::value::{ObjectMap, Value};

fn show_res(r: &Result<Value, String>) -> String {
    match r {
        Ok(v) => format!("ok\t{}", show_value(v)),
        Err(e) if e.starts_with("panic") => "panic".to_string(),
        Err(e) if e.starts_with("compile") => format!("compile-error {e}"),
        Err(_) => "err".to_string(),
    }
}
fn obs_res(r: &Result<Value, String>) -> String {
    show_res(r).replace('\t', " ")
}

fn call1(src: &str, a: &Value) -> Result<Value, String> {
    let mut m = ObjectMap::new();
    m.insert("a".into(), a.clone());
    run_vrl(src, Value::Object(m))
}
fn call2(src: &str, a: &Value, b: &Value) -> Result<Value, String> {
    let mut m = ObjectMap::new();
    m.insert("a".into(), a.clone());
    m.insert("b".into(), b.clone());
    run_vrl(src, Value::Object(m))
}

fn is_float(v: &Value) -> bool {
    matches!(v, Value::Float(_))
}

pub fn exec(op: &str, a: &[String]) -> Option<Reply> {
    let r = match (op, a) {
        ("c29.abs", [v]) => call1("abs!(.a)", &parse_value(v)?),
        ("c29.mod", [x, y]) => {
            let (x, y) = (parse_value(x)?, parse_value(y)?);
            // float remainders belong to the float part of C29
            let float_op = match (&x, &y) {
                (_, Value::Float(f)) if f.into_inner() == 0.0 => false,
                (_, Value::Integer(0)) => false,
                (a, b) => (is_float(a) || is_float(b)) && matches!(a, Value::Integer(_) | Value::Float(_)) && matches!(b, Value::Integer(_) | Value::Float(_)),
            };
            if float_op {
                return None;
            }
            call2("mod!(.a, .b)", &x, &y)
        }
        ("c29.to_int", [v]) => call1("to_int!(.a)", &parse_value(v)?),
        ("c29.to_string", [v]) => {
            let v = parse_value(v)?;
            if matches!(v, Value::Float(_) | Value::Timestamp(_)) {
                return None;
            }
            call1("to_string!(.a)", &v)
        }
        ("o.c29.abs", [n]) => {
            let r = call1("abs!(.a)", &Value::Integer(n.parse().ok()?));
            return Some(Reply::oracle(vec![obs_res(&r)]));
        }
        ("o.c29.mod", [x, y]) => {
            let r = call2("mod!(.a, .b)", &Value::Integer(x.parse().ok()?), &Value::Integer(y.parse().ok()?));
            return Some(Reply::oracle(vec![obs_res(&r)]));
        }
        ("o.c29.text", [i]) => {
            let t = call1("to_string!(.a)", &Value::Integer(i.parse().ok()?));
            let (pa, p10, ti) = match &t {
                Ok(s) => (call1("parse_int!(.a)", s), call1("parse_int!(.a, base: 10)", s), call1("to_int!(.a)", s)),
                Err(e) => (Err(e.clone()), Err(e.clone()), Err(e.clone())),
            };
            return Some(Reply::oracle(vec![obs_res(&t), obs_res(&pa), obs_res(&p10), obs_res(&ti)]));
        }
        _ => return None,
    };
    Some(Reply::plain(show_res(&r)))
}

fn gen_i(rng: &mut Rng) -> i64 {
    match rng.below(6) {
        0 => *rng.pick(edge_ints()),
        1 => rng.range(-20, 20),
        2 => (rng.next() >> rng.below(64)) as i64,
        3 => -((rng.next() >> (1 + rng.below(63))) as i64),
        4 => i64::MIN + rng.range(0, 3),
        _ => rng.next() as i64,
    }
}

pub fn generate(sink: &mut Sink, rng: &mut Rng, n: u64) {
    let s = show_value;
    for &x in edge_ints() {
        sink.emit("c29.abs", &[s(&Value::Integer(x))]);
        sink.emit("o.c29.abs", &[x.to_string()]);
        sink.emit("c29.to_string", &[s(&Value::Integer(x))]);
        sink.emit("c29.to_int", &[s(&Value::Integer(x))]);
        sink.emit("o.c29.text", &[x.to_string()]);
        for &y in edge_ints() {
            sink.emit("c29.mod", &[s(&Value::Integer(x)), s(&Value::Integer(y))]);
            sink.emit("o.c29.mod", &[x.to_string(), y.to_string()]);
        }
    }
    for v in ["n", "t", "f", "b:", "b:31", "b:2d35", "b:2b35", "b:2035", "b:352e30", "b:307835", "b:39323233333732303336383534373735383038",
        "b:2d39323233333732303336383534373735383038", "b:ff", "[ ]", "{ }", "re:61", "ts:0", "ts:-1", "ts:-1500000000", "ts:1500000000",
        "ts:8210266876799999999999", "ts:-8334601228800000000000"] {
        sink.emit("c29.abs", &[v.into()]);
        sink.emit("c29.to_int", &[v.into()]);
        sink.emit("c29.to_string", &[v.into()]);
        sink.emit("c29.mod", &[v.into(), "i:3".into()]);
        sink.emit("c29.mod", &["i:3".into(), v.into()]);
        sink.emit("c29.mod", &[v.into(), "i:0".into()]);
        sink.emit("c29.mod", &[v.into(), "d:0000000000000000".into()]);
        sink.emit("c29.mod", &[v.into(), "d:8000000000000000".into()]);
        sink.emit("c29.mod", &[v.into(), "d:3ff0000000000000".into()]);
    }
    for _ in 0..n {
        let (x, y) = (gen_i(rng), gen_i(rng));
        sink.emit("c29.abs", &[s(&Value::Integer(x))]);
        sink.emit("o.c29.abs", &[x.to_string()]);
        sink.emit("c29.mod", &[s(&Value::Integer(x)), s(&Value::Integer(y))]);
        sink.emit("o.c29.mod", &[x.to_string(), y.to_string()]);
        sink.emit("c29.to_string", &[s(&Value::Integer(x))]);
        sink.emit("o.c29.text", &[x.to_string()]);
        // floats: abs (sign bit) and the `as i64` cast of to_int, by bit pattern
        let f = match rng.below(6) {
            0 => gen_float(rng),
            1 => (gen_i(rng) as f64) + 0.5,
            2 => gen_i(rng) as f64,
            3 => f64::from_bits(0x43E0_0000_0000_0000u64.wrapping_add(rng.below(5)).wrapping_sub(2) | (rng.below(2) << 63)),
            4 => rng.range(-3000, 3000) as f64 / 16.0,
            _ => f64::from_bits(rng.next()),
        };
        if !f.is_nan() {
            let fv = Value::Float(ordered_float::NotNan::new(f).unwrap());
            sink.emit("c29.abs", &[s(&fv)]);
            sink.emit("c29.to_int", &[s(&fv)]);
            sink.count("c29:float_cast");
        }
        let v = gen_scalar(rng);
        sink.emit("c29.to_int", &[s(&v)]);
        sink.emit("c29.to_string", &[s(&v)]);
        if matches!(v, Value::Bytes(_)) {
            sink.count("c29:to_int_bytes");
        }
        // decimal texts with noise for to_int
        let mut t = x.to_string();
        match rng.below(8) {
            0 => t.insert(0, '+'),
            1 => t.insert(0, ' '),
            2 => t.push('0'),
            3 => t.push_str(".0"),
            4 => t = format!("0{t}"),
            _ => {}
        }
        sink.emit("c29.to_int", &[s(&Value::from(t))]);
    }
}
