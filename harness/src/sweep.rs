//! Stdlib sweep (C03/C04/C05): every registered function x argument tuples built by reflection on
//! `Function::parameters()`, executed in a killable worker process under a wall-clock watchdog so
//! that panics, aborts (stack overflow, allocation failure) and hangs are all observed.
//!
//! ops (inputs: function name, hex source, event):
//!   o.c04.fn -> observation: outcome class  ok | err | panic | abort | timeout | compile-error
//!   o.c05.fn -> observation: outcome class + elapsed milliseconds + output size
use crate::rng::Rng;
use crate::sink::{Reply, Sink};
use crate::wire::*;
use std::io::{BufRead, BufReader, Write};
use std::process::{Child, ChildStdin, Command, Stdio};
use std::sync::mpsc::{channel, Receiver};
use std::sync::Mutex;
use std::time::{Duration, Instant};
use vrl::value::{ObjectMap, Value};

/// functions that reach for the network (excluded everywhere)
pub const NETWORK: &[&str] = &["http_request", "dns_lookup", "reverse_dns"];

/// nondeterministic / environment-dependent functions: excluded where a result is compared with another run
pub const EXCLUDED: &[&str] = &[
    "http_request", "dns_lookup", "reverse_dns", "get_hostname", "get_env_var", "now", "random_bool", "random_bytes",
    "random_float", "random_int", "uuid_v4", "uuid_v7", "uuid_from_friendly_id", "log", "get_secret", "set_secret",
    "remove_secret", "set_semantic_meaning", "get_timezone_name", "assert", "assert_eq",
];

// ---------------------------------------------------------------------------------------------
// worker

pub fn worker_main() {
    std::panic::set_hook(Box::new(|_| {}));
    let stdin = std::io::stdin();
    let mut out = std::io::stdout();
    for line in stdin.lock().lines() {
        let Ok(line) = line else { break };
        let mut parts = line.split('\t');
        let src = parts.next().and_then(unhex).and_then(|b| String::from_utf8(b).ok());
        let event = parts.next().and_then(parse_value);
        let reply = match (src, event) {
            (Some(src), Some(event)) => run_one(&src, event),
            _ => "bad-case".to_string(),
        };
        let _ = writeln!(out, "{reply}");
        let _ = out.flush();
    }
}

fn run_one(src: &str, event: Value) -> String {
    let src = src.to_string();
    let r = crate::sink::guarded(move || {
        let fns = vrl::stdlib::all();
        let program = match vrl::compiler::compile(&src, &fns) {
            Ok(r) => r.program,
            Err(_) => return "compile-error".to_string(),
        };
        let mut target = vrl::compiler::TargetValue { value: event, metadata: Value::Object(ObjectMap::new()), secrets: vrl::value::Secrets::default() };
        match vrl::compiler::runtime::Runtime::default().resolve(&mut target, &program, &vrl::compiler::TimeZone::Named(chrono_tz::UTC)) {
            Ok(v) => {
                let s = show_value(&v);
                format!("ok\t{}\t{}", s.len(), if s.len() > 4000 { "-".to_string() } else { s })
            }
            Err(_) => "err".to_string(),
        }
    });
    match r {
        Ok(s) => s,
        Err(p) => format!("panic\t{}", p.replace(['\t', '\n'], " ").chars().take(160).collect::<String>()),
    }
}

struct Worker {
    child: Child,
    stdin: ChildStdin,
    rx: Receiver<String>,
}

static WORKER: Mutex<Option<Worker>> = Mutex::new(None);

fn spawn_worker() -> Worker {
    let exe = std::env::current_exe().expect("current exe");
    let mut child = Command::new(exe).arg("sweep-worker").stdin(Stdio::piped()).stdout(Stdio::piped()).stderr(Stdio::null()).spawn().expect("spawn worker");
    let stdin = child.stdin.take().unwrap();
    let stdout = child.stdout.take().unwrap();
    let (tx, rx) = channel();
    std::thread::spawn(move || {
        for line in BufReader::new(stdout).lines() {
            match line {
                Ok(l) => {
                    if tx.send(l).is_err() {
                        break;
                    }
                }
                Err(_) => break,
            }
        }
    });
    Worker { child, stdin, rx }
}

pub fn timeout_ms() -> u64 {
    std::env::var("VERIF_SWEEP_TIMEOUT_MS").ok().and_then(|s| s.parse().ok()).unwrap_or(2000)
}

/// run one case in the worker: (class, detail, elapsed ms)
pub fn run_guarded(src: &str, event: &Value) -> (String, String, u128) {
    let mut guard = WORKER.lock().unwrap();
    if guard.is_none() {
        *guard = Some(spawn_worker());
    }
    let w = guard.as_mut().unwrap();
    let line = format!("{}\t{}\n", hex(src.as_bytes()), show_value(event));
    let t0 = Instant::now();
    if w.stdin.write_all(line.as_bytes()).is_err() || w.stdin.flush().is_err() {
        let _ = w.child.kill();
        let _ = w.child.wait();
        *guard = None;
        return ("abort".into(), "worker died before the case".into(), 0);
    }
    match w.rx.recv_timeout(Duration::from_millis(timeout_ms())) {
        Ok(reply) => {
            let ms = t0.elapsed().as_millis();
            let mut it = reply.splitn(2, '\t');
            let class = it.next().unwrap_or("").to_string();
            (class, it.next().unwrap_or("").to_string(), ms)
        }
        Err(std::sync::mpsc::RecvTimeoutError::Timeout) => {
            let _ = w.child.kill();
            let _ = w.child.wait();
            *guard = None;
            ("timeout".into(), String::new(), t0.elapsed().as_millis())
        }
        Err(std::sync::mpsc::RecvTimeoutError::Disconnected) => {
            let _ = w.child.kill();
            let _ = w.child.wait();
            *guard = None;
            ("abort".into(), "worker process died (stack overflow / allocation failure / abort)".into(), t0.elapsed().as_millis())
        }
    }
}

pub fn exec(op: &str, a: &[String]) -> Option<Reply> {
    match (op, a) {
        ("o.c04.fn", [_fname, src, event]) => {
            let src = String::from_utf8(unhex(src)?).ok()?;
            let (class, detail, _) = run_guarded(&src, &parse_value(event)?);
            let detail = if class == "panic" || class == "abort" { detail } else { String::new() };
            Some(Reply::oracle(vec![class, if detail.is_empty() { "-".into() } else { detail }]))
        }
        ("o.c05.fn", [_fname, src, event]) => {
            let src = String::from_utf8(unhex(src)?).ok()?;
            let ev = parse_value(event)?;
            let (class, detail, ms) = run_guarded(&src, &ev);
            let out_size = if class == "ok" { detail.split('\t').next().unwrap_or("0").to_string() } else { "0".into() };
            // coarse, stable buckets: never compare wall-clock values
            let bucket = if class == "timeout" { "timeout" } else if ms > u128::from(timeout_ms()) / 2 { "slow" } else { "fast" };
            Some(Reply::oracle(vec![class, bucket.to_string(), out_size, show_value(&ev).len().to_string()]))
        }
        _ => None,
    }
}

// ---------------------------------------------------------------------------------------------
// call generator

pub const K_BYTES: u16 = 1 << 1;
pub const K_INTEGER: u16 = 1 << 2;
pub const K_FLOAT: u16 = 1 << 3;
pub const K_BOOLEAN: u16 = 1 << 4;
pub const K_OBJECT: u16 = 1 << 5;
pub const K_ARRAY: u16 = 1 << 6;
pub const K_TIMESTAMP: u16 = 1 << 7;
pub const K_REGEX: u16 = 1 << 8;
pub const K_NULL: u16 = 1 << 9;

pub fn literal_pool(kind: u16) -> &'static [&'static str] {
    match kind {
        K_BYTES => &[
            "\"\"", "\"a\"", "\"abc\"", "\"%ba\"", "\"12\"", "\"-7\"", "\"héllo wörld\"", "\"2021-01-01T00:00:00Z\"", "\"{\\\"a\\\":1}\"",
            "\"a=b c=d\"", "\"1.2.3.4\"", "\"::1\"", "\"a,b,c\"", "\"%Y-%m-%d\"", "\"x y z\"", "\"0x1f\"", "\"utf-8\"", "\"SHA-256\"",
            "\"aes128\"", "\"seconds\"", "\"nanoseconds\"", "\"milliseconds\"", "\"microseconds\"", "\"16 bytes of key!\"", "\"thirty-two bytes key for pfx use\"", "\".\"", "\"0\"",
        ],
        K_INTEGER => &[
            "0", "1", "-1", "2", "3", "10", "16", "36", "37", "64", "255", "256", "65536", "2147483647", "-2147483648", "4294967296",
            "9223372036854775807", "(-9223372036854775807 - 1)", "-9223372036854775807", "1000000", "22", "-131073",
        ],
        K_FLOAT => &["0.0", "-0.0", "1.5", "-2.25", "0.1", "100.0", "123456789.125", "0.000001", "99999999999999999999.0"],
        K_BOOLEAN => &["true", "false"],
        K_OBJECT => &["{}", "{\"a\": 1}", "{\"a\": {\"b\": [1, \"x\"]}, \"c\": null}", "{\"k\": \"v\", \"n\": 2}", "{\"a.b\": 1, \"\": 2}"],
        K_ARRAY => &["[]", "[1]", "[1, \"a\", null]", "[[1], [2]]", "[\"a\", \"b\", \"a\"]", "[{\"key\": \"k\", \"value\": 1}]", "[1.5, 2, 3]"],
        K_TIMESTAMP => &[
            "t'2021-01-01T00:00:00Z'", "t'1970-01-01T00:00:00Z'", "t'1969-12-31T23:59:59.5Z'", "t'2262-04-11T23:47:16Z'",
            // beyond the i64 range of nanoseconds, and the ends of the calendar chrono accepts
            "t'2262-04-11T23:47:17Z'", "t'9999-12-31T23:59:59Z'", "t'0001-01-01T00:00:00Z'", "t'1677-09-21T00:12:43Z'",
        ],
        K_REGEX => &["r'a'", "r''", "r'(?P<x>\\d+)'", "r'.*'", "r'\\s+'"],
        K_NULL => &["null"],
        _ => &["null"],
    }
}

pub fn runtime_pool(kind: u16, rng: &mut Rng) -> Value {
    let f = |x: f64| Value::Float(ordered_float::NotNan::new(x).unwrap());
    match kind {
        K_BYTES => match rng.below(8) {
            0 => Value::Bytes(vec![0xff, 0xfe, 0x00, 0x80].into()),
            1 => Value::Bytes("a".repeat(300).into()),
            2 => Value::Bytes("".into()),
            3 => Value::Bytes("9223372036854775808".into()),
            4 => Value::Bytes("💩 ǆ İ ß".into()),
            5 => Value::Bytes("1e400".into()),
            _ => Value::Bytes((*rng.pick(&["abc", "12", "a=b", "[1,2]", "2021-01-01T00:00:00+05:00", "%41%zz", "xn--bcher-kva"])).into()),
        },
        K_INTEGER => Value::Integer(*rng.pick(crate::gens::edge_ints())),
        K_FLOAT => f(*rng.pick(&[0.0, -0.0, 1.5, f64::INFINITY, f64::NEG_INFINITY, 1e300, -1e300, 5e-324, 1e-300, 0.1, 2.5, -6630686.7451171875])),
        K_BOOLEAN => Value::Boolean(rng.chance(1, 2)),
        K_OBJECT => crate::lang::strip_floats(match rng.below(3) {
            0 => Value::Object(ObjectMap::new()),
            _ => {
                let v = crate::gens::gen_value(rng, 3, crate::gens::KEYS);
                if matches!(v, Value::Object(_)) { v } else { parse_value("{ k:61 { k:62 [ i:1 b:78 ] } k:63 n }").unwrap() }
            }
        }),
        K_ARRAY => match rng.below(3) {
            0 => Value::Array(vec![]),
            _ => {
                let v = crate::gens::gen_value(rng, 3, crate::gens::KEYS);
                if matches!(v, Value::Array(_)) { v } else { parse_value("[ i:1 b:61 n [ i:2 ] ]").unwrap() }
            }
        },
        K_TIMESTAMP => Value::Timestamp(
            chrono::DateTime::from_timestamp(*rng.pick(&[0i64, -1, 1_600_000_000, 253_402_300_799, -62_135_596_800, 9_223_372_036]), rng.below(1_000_000_000) as u32)
                .unwrap_or_default(),
        ),
        K_NULL => Value::Null,
        _ => Value::Null,
    }
}

pub fn kinds_of(mask: u16) -> Vec<u16> {
    [K_BYTES, K_INTEGER, K_FLOAT, K_BOOLEAN, K_OBJECT, K_ARRAY, K_TIMESTAMP, K_REGEX, K_NULL].into_iter().filter(|k| mask & k != 0).collect()
}

pub fn closure_suffix(name: &str) -> &'static str {
    match name {
        "for_each" => " -> |_k, _v| { null }",
        "filter" => " -> |_k, _v| { true }",
        "map_keys" => " -> |k| { k }",
        "map_values" => " -> |v| { v }",
        "replace_with" => " -> |m| { m.string }",
        _ => "",
    }
}

pub struct Call {
    pub fname: String,
    pub src: String,
    pub event: Value,
    pub shape: String,
}

/// one call of `f` with arguments chosen from the edge pools
pub fn gen_call(f: &dyn vrl::compiler::Function, rng: &mut Rng) -> Call {
    let mut args: Vec<String> = Vec::new();
    let mut event = ObjectMap::new();
    let mut shape = Vec::new();
    for (i, p) in f.parameters().iter().enumerate() {
        if !p.required && rng.chance(1, 2) {
            continue;
        }
        let allowed = kinds_of(p.kind);
        let wrong = rng.chance(1, 12);
        let kind = if wrong || allowed.is_empty() { *rng.pick(&[K_BYTES, K_INTEGER, K_FLOAT, K_BOOLEAN, K_OBJECT, K_ARRAY, K_NULL]) } else { *rng.pick(&allowed) };
        // regex values cannot live in an event: always literal
        let literal = kind == K_REGEX || rng.chance(3, 5);
        let text = if (kind == K_ARRAY || kind == K_OBJECT) && rng.chance(1, 4) {
            // a collection whose ELEMENT kind is known but whose length / keys are not
            // (`split` gives an array of strings, `parse_key_value` an object of strings)
            let key = format!("p{i}");
            shape.push(format!("{}:T{}", p.keyword, kind));
            if kind == K_ARRAY {
                event.insert(key.clone().into(), Value::from(*rng.pick(&["a,b", "", "x", "1,2,3"])));
                format!("split(string!(.{key}), \",\")")
            } else {
                event.insert(key.clone().into(), Value::from(*rng.pick(&["a=b c=d", "k=v"])));
                format!("parse_key_value!(string!(.{key}))")
            }
        } else if literal {
            shape.push(format!("{}:L{}", p.keyword, kind));
            (*rng.pick(literal_pool(kind))).to_string()
        } else {
            let key = format!("p{i}");
            event.insert(key.clone().into(), runtime_pool(kind, rng));
            shape.push(format!("{}:R{}", p.keyword, kind));
            format!(".{key}")
        };
        if i > 0 && rng.chance(1, 3) || !p.required {
            args.push(format!("{}: {}", p.keyword, text));
        } else {
            args.push(text);
        }
    }
    let name = f.identifier();
    let src = format!("{name}!({}){}", args.join(", "), closure_suffix(name));
    Call { fname: name.to_string(), src, event: Value::Object(event), shape: shape.join(",") }
}

/// `f!(…)` is rejected when the call is infallible: fall back to `f(…)`.
pub fn compilable(call: &Call) -> Option<String> {
    let bang = call.src.clone();
    let plain = call.src.replacen("!(", "(", 1);
    for s in [bang, plain] {
        let c = s.clone();
        // compile in-process is fine (compile-time panics are caught); known compile-time panics are rare
        let ok = crate::sink::guarded(move || vrl::compiler::compile(&c, &vrl::stdlib::all()).is_ok()).unwrap_or(true);
        if ok {
            return Some(s);
        }
    }
    None
}

/// source texts that stress the lexer / parser: every context in which a multi-byte character (or none)
/// can follow something the lexer measures (C04: compiling never panics)
fn tricky_sources() -> Vec<String> {
    let chars = ["é", "\u{a0}", "\u{2003}", "\u{3000}", "😀", "", "a", "\n", "\\", "\""];
    let ctx: &[&str] = &[
        "\"a\\\n{C}b\"", "\"\\\n{C}\"", "\"\\{C}\"", "\"\\u{{12{C}}}\"", "\"\\u{{{C}\"", "s'{C}'", "r'{C}'", "t'{C}'", ".a{C}", ".{C}", "[{C}", "# {C}",
        ".a # {C}\n", "\"{{{{ {C} }}}}\"", "x ={C}1", "{C}", "1 +{C}2", ".a.\"{C}\" = 1", "%{C}", "\"{C}", "'{C}", "s'{C}", ".a[{C}]", "x{C} = 1",
        "if {C} {{ }}", "f({C})", "upcase(\"{C}\")", "\"{C}{{{{ x }}}}\"", "-{C}", "!{C}", "{{ {C} }}", "[1,{C}]", "{{\"{C}\": 1}}", "x = 1\n{C}\ny = 2",
    ];
    let mut out = Vec::new();
    for t in ctx {
        for c in chars {
            out.push(t.replace("{{", "\u{1}").replace("}}", "\u{2}").replace("{C}", c).replace('\u{1}', "{").replace('\u{2}', "}"));
        }
    }
    out
}

pub fn generate(sink: &mut Sink, rng: &mut Rng, n: u64, op: &str) {
    if op == "o.c04.fn" {
        for src in tricky_sources() {
            if sink.emit(op, &["source".to_string(), hex(src.as_bytes()), "{ }".to_string()]).is_some() {
                sink.count("sweep:tricky_sources");
            }
        }
    }
    let fns = vrl::stdlib::all();
    let per_fn = (n / fns.len() as u64).max(2);
    for f in &fns {
        let name = f.identifier();
        // the no-panic and termination sweeps (C04, C05) do not care about nondeterminism: only the functions
        // that reach for the network stay out of them
        let skip = if op == "o.c04.fn" || op == "o.c05.fn" { NETWORK.contains(&name) } else { EXCLUDED.contains(&name) };
        if skip {
            sink.count("sweep:excluded_functions");
            continue;
        }
        let mut emitted = 0;
        let mut tries = 0;
        while emitted < per_fn && tries < per_fn * 6 {
            tries += 1;
            let call = gen_call(f.as_ref(), rng);
            let Some(src) = compilable(&call) else {
                sink.count("sweep:rejected_by_compiler");
                continue;
            };
            emitted += 1;
            if let Some(r) = sink.emit(op, &[call.fname.clone(), hex(src.as_bytes()), show_value(&call.event)]) {
                sink.count(&format!("sweep:outcome:{}", r.obs.first().cloned().unwrap_or_default()));
            }
        }
        // integer-only signatures: the full cross product of the critical integers (overflow pairs such
        // as (i64::MIN, -1) are too rare in the random stream)
        let all: Vec<_> = f.parameters().iter().collect();
        let req: Vec<_> = if (1..=2).contains(&all.len()) && all.iter().all(|p| p.kind & K_INTEGER != 0) {
            all // optional integer parameters too (`format_int(value, base)`)
        } else {
            f.parameters().iter().filter(|p| p.required).collect()
        };
        if (1..=2).contains(&req.len()) && req.iter().all(|p| p.kind & K_INTEGER != 0) {
            const EDGE: &[&str] = &["(-9223372036854775807 - 1)", "-1", "0", "1", "2", "9223372036854775807"];
            let combos: Vec<Vec<&str>> = if req.len() == 1 {
                EDGE.iter().map(|a| vec![*a]).collect()
            } else {
                EDGE.iter().flat_map(|a| EDGE.iter().map(move |b| vec![*a, *b])).collect()
            };
            for c in combos {
                let call = Call { fname: name.to_string(), src: format!("{name}!({})", c.join(", ")), event: Value::Object(ObjectMap::new()), shape: "edge-ints".into() };
                if let Some(src) = compilable(&call) {
                    sink.count("sweep:edge_int_combos");
                    sink.emit(op, &[call.fname.clone(), hex(src.as_bytes()), show_value(&call.event)]);
                }
            }
        }
        if emitted > 0 {
            sink.count("sweep:functions_exercised");
        } else {
            sink.count("sweep:functions_without_accepted_call");
        }
    }
}
