//! C21 – JSON encoding round-trips.
//!
//! Correspondence ops (all on the REAL functions):
//!   c21.enc   <pretty> <value>        | <table>   `encode_json(.v[, pretty: true])` through a compiled VRL program
//!   c21.ser   <pretty> <value>        | <table>   `serde_json::to_string{,_pretty}(&value)`
//!   c21.parse <mode> <hex text>                    `parse_json!(.s …)` / `serde_json::from_slice::<Value>`
//!        mode = plain | strict (lossy: false) | depth:<n> (max_depth: n) | depthstrict:<n> | serde
//!   c21.float <bits>                  | <hex text> text printed for a double and the double read back
//! Oracle:
//!   o.c21     <pretty> <value>        | r1 r2 r3   `parse_json!(encode_json(.v, pretty: P))`, the same with
//!                                                  `lossy: false`, and the serde path; the Lean driver compares
//!                                                  with the original (ulp distance from the bit patterns).
//!
//! `<table>` carries the texts of third-party primitives the model takes as parameters: for every finite
//! float in the value `d:<bits>=<hex text>` (`serde_json::to_string(&f64)`, i.e. zmij), for every timestamp
//! `ts:<ns>=<hex text>` (`timestamp_to_string`, chrono).
use crate::rng::Rng;
use crate::sink::{guarded, Reply, Sink};
use crate::vrlrun::run_vrl;
use crate::wire::*;
use std::collections::BTreeMap;
use vrl::value::{ObjectMap, Value};

fn pb(s: &str) -> Option<bool> {
    match s {
        "1" => Some(true),
        "0" => Some(false),
        _ => None,
    }
}
fn b(x: bool) -> String {
    if x { "1".into() } else { "0".into() }
}

fn event(fields: Vec<(&str, Value)>) -> Value {
    let mut m = ObjectMap::new();
    for (k, v) in fields {
        m.insert(k.into(), v);
    }
    Value::Object(m)
}

/// texts of the floats / timestamps in `v`, as printed by the third-party code
fn table(v: &Value) -> String {
    let mut out: BTreeMap<String, String> = BTreeMap::new();
    fn walk(v: &Value, out: &mut BTreeMap<String, String>) {
        match v {
            Value::Float(f) => {
                let x = f.into_inner();
                if x.is_finite() {
                    let text = serde_json::to_string(&x).unwrap();
                    out.insert(format!("d:{:016x}", x.to_bits()), hex(text.as_bytes()));
                }
            }
            Value::Timestamp(t) => {
                let ns = i128::from(t.timestamp()) * 1_000_000_000 + i128::from(t.timestamp_subsec_nanos());
                out.insert(format!("ts:{ns}"), hex(vrl::value::value::timestamp_to_string(t).as_bytes()));
            }
            Value::Array(a) => a.iter().for_each(|x| walk(x, out)),
            Value::Object(m) => m.values().for_each(|x| walk(x, out)),
            _ => {}
        }
    }
    walk(v, &mut out);
    if out.is_empty() {
        "-".to_string()
    } else {
        out.iter().map(|(k, t)| format!("{k}={t}")).collect::<Vec<_>>().join(" ")
    }
}

fn enc_program(pretty: bool) -> &'static str {
    if pretty { "encode_json(.v, pretty: true)" } else { "encode_json(.v)" }
}

fn run_enc(v: &Value, pretty: bool) -> Result<Vec<u8>, String> {
    let ev = event(vec![("v", v.clone())]);
    match guarded(|| run_vrl(enc_program(pretty), ev)) {
        Ok(Ok(Value::Bytes(b))) => Ok(b.to_vec()),
        Ok(Ok(other)) => Err(format!("not-bytes:{other}")),
        Ok(Err(e)) => Err(e),
        Err(p) => Err(format!("panic:{p}")),
    }
}

fn parse_program(mode: &str) -> Option<String> {
    let parts: Vec<&str> = mode.split(':').collect();
    Some(match parts.as_slice() {
        ["plain"] => "parse_json!(.s)".to_string(),
        ["strict"] => "parse_json!(.s, lossy: false)".to_string(),
        ["depth", n] => format!("parse_json!(.s, max_depth: {})", n.parse::<i64>().ok()?),
        ["depthstrict", n] => format!("parse_json!(.s, max_depth: {}, lossy: false)", n.parse::<i64>().ok()?),
        _ => return None,
    })
}

fn run_parse(mode: &str, text: &[u8]) -> Option<Result<Value, String>> {
    if mode == "serde" {
        let t = text.to_vec();
        return Some(match guarded(move || serde_json::from_slice::<Value>(&t)) {
            Ok(Ok(v)) => Ok(v),
            Ok(Err(e)) => Err(e.to_string()),
            Err(p) => Err(format!("panic:{p}")),
        });
    }
    let src = parse_program(mode)?;
    let ev = event(vec![("s", Value::Bytes(text.to_vec().into()))]);
    Some(match guarded(|| run_vrl(&src, ev)) {
        Ok(r) => r,
        Err(p) => Err(format!("panic:{p}")),
    })
}

fn show_res(r: &Result<Value, String>, sep: char) -> String {
    match r {
        Ok(v) => format!("ok{sep}{}", show_value(v)),
        Err(e) if e.starts_with("panic:") => "panic".to_string(),
        Err(e) if e == "compile-error" => "compile-error".to_string(),
        Err(_) => "err".to_string(),
    }
}

pub fn exec(op: &str, a: &[String]) -> Option<Reply> {
    match (op, a) {
        ("c21.enc", [pretty, v]) => {
            let (pretty, v) = (pb(pretty)?, parse_value(v)?);
            let reply = match run_enc(&v, pretty) {
                Ok(bytes) => hex(&bytes),
                Err(e) => format!("err:{}", e.chars().take(40).collect::<String>().replace(['\t', '\n'], " ")),
            };
            Some(Reply { obs: vec![table(&v)], reply })
        }
        ("c21.ser", [pretty, v]) => {
            let (pretty, v) = (pb(pretty)?, parse_value(v)?);
            let v2 = v.clone();
            let r = guarded(move || {
                if pretty { serde_json::to_string_pretty(&v2) } else { serde_json::to_string(&v2) }
            });
            let reply = match r {
                Ok(Ok(s)) => hex(s.as_bytes()),
                _ => "err".to_string(),
            };
            Some(Reply { obs: vec![table(&v)], reply })
        }
        ("c21.parse", [mode, text]) => {
            let text = unhex(text)?;
            let r = run_parse(mode, &text)?;
            Some(Reply::plain(show_res(&r, '\t')))
        }
        ("c21.float", [bits]) => {
            let x = f64::from_bits(u64::from_str_radix(bits, 16).ok()?);
            if !x.is_finite() {
                return None;
            }
            let text = serde_json::to_string(&x).ok()?;
            let back = match serde_json::from_str::<Value>(&text) {
                Ok(Value::Float(f)) => format!("{:016x}", f.into_inner().to_bits()),
                Ok(other) => format!("other:{}", show_value(&other)),
                Err(_) => "err".to_string(),
            };
            let class = if text.bytes().any(|c| c == b'.' || c == b'e' || c == b'E') { "float" } else { "int" };
            Some(Reply { obs: vec![hex(text.as_bytes())], reply: format!("{back} {class}") })
        }
        ("o.c21", [pretty, v]) => {
            let (pretty, v) = (pb(pretty)?, parse_value(v)?);
            let ev = event(vec![("v", v.clone())]);
            let p1 = if pretty { "parse_json!(encode_json(.v, pretty: true))" } else { "parse_json!(encode_json(.v))" };
            let p2 = if pretty {
                "parse_json!(encode_json(.v, pretty: true), lossy: false)"
            } else {
                "parse_json!(encode_json(.v), lossy: false)"
            };
            let r1 = guarded(|| run_vrl(p1, ev.clone())).unwrap_or_else(|p| Err(format!("panic:{p}")));
            let r2 = guarded(|| run_vrl(p2, ev.clone())).unwrap_or_else(|p| Err(format!("panic:{p}")));
            let v3 = v.clone();
            let r3 = guarded(move || {
                let text = if pretty { serde_json::to_string_pretty(&v3) } else { serde_json::to_string(&v3) };
                match text {
                    Ok(t) => serde_json::from_str::<Value>(&t).map_err(|e| e.to_string()),
                    Err(e) => Err(e.to_string()),
                }
            })
            .unwrap_or_else(|p| Err(format!("panic:{p}")));
            Some(Reply::oracle(vec![show_res(&r1, ' '), show_res(&r2, ' '), show_res(&r3, ' ')]))
        }
        _ => None,
    }
}

// ------------------------------------------------------------------------------------------------
// generators

const KEY_POOL: &[&str] = &[
    "a", "b", "c", "", "a b", "é", "\"q\"", "k\\n", "\u{0}", "\n", "\u{feff}x", "日本", "😀", "A", "aa", "a\u{1}", "~", "\u{7f}",
    "\u{d7ff}", "\u{e000}", "\u{10ffff}", "/",
];

fn gen_char(rng: &mut Rng) -> char {
    let c = match rng.below(16) {
        0..=4 => 0x20 + rng.below(0x5f) as u32,
        5 => rng.below(0x20) as u32,
        6 => *rng.pick(&[0x22u32, 0x5c, 0x2f, 0x7f, 0x08, 0x0c, 0x0a, 0x0d, 0x09, 0x00, 0x1f]),
        7 => 0x80 + rng.below(0x780) as u32,
        8 => 0x800 + rng.below(0xd000) as u32,
        9 => 0xe000 + rng.below(0x2000) as u32,
        10 => 0x10000 + rng.below(0x100000) as u32,
        11 => *rng.pick(&[0xfeffu32, 0xfffd, 0x2028, 0x2029, 0xd7ff, 0xe000, 0xffff, 0x10000, 0x10ffff, 0x80, 0x7ff, 0x800]),
        _ => 0x61 + rng.below(26) as u32,
    };
    char::from_u32(c).unwrap_or('?')
}

fn gen_string(rng: &mut Rng) -> String {
    let n = match rng.below(8) {
        0 => 0,
        1..=4 => rng.below(4),
        5 | 6 => rng.below(12),
        _ => rng.below(40),
    };
    (0..n).map(|_| gen_char(rng)).collect()
}

fn finite_float(rng: &mut Rng) -> f64 {
    loop {
        let f = match rng.below(12) {
            0 => 0.0,
            1 => -0.0,
            2 => 1.5,
            3 => rng.range(-1000, 1000) as f64 / 8.0,
            4 => f64::from_bits(rng.below(1 << 52)), // subnormal
            5 => (rng.next() as i64) as f64,
            6 => *rng.pick(&[
                f64::MAX,
                f64::MIN,
                f64::MIN_POSITIVE,
                5e-324,
                1e16,
                1e15,
                1e-5,
                1e-7,
                0.1,
                1e21,
                1e22,
                1e23,
                9007199254740993.0,
                -9.867437071726851e-60,
                123456789012345680.0,
                0.3,
                2.0f64.powi(63),
                2.0f64.powi(64),
                -(2.0f64.powi(63)),
                1.0,
                -1.0,
                100.0,
            ]),
            _ => f64::from_bits(rng.next()),
        };
        if f.is_finite() {
            return f;
        }
    }
}

fn gen_int(rng: &mut Rng) -> i64 {
    match rng.below(4) {
        0 => *rng.pick(crate::gens::edge_ints()),
        1 => rng.range(-20, 20),
        2 => rng.next() as i64,
        _ => {
            let bits = rng.below(63);
            let x = (rng.next() >> (63 - bits)) as i64;
            if rng.chance(1, 2) { -x } else { x }
        }
    }
}

/// JSON-representable scalar (`floats`: allow floats)
fn gen_repr_scalar(rng: &mut Rng, floats: bool) -> Value {
    match rng.below(if floats { 8 } else { 6 }) {
        0 => Value::Null,
        1 => Value::Boolean(rng.chance(1, 2)),
        2 | 3 => Value::Integer(gen_int(rng)),
        4 | 5 => Value::Bytes(gen_string(rng).into_bytes().into()),
        _ => Value::Float(ordered_float::NotNan::new(finite_float(rng)).unwrap()),
    }
}

fn gen_key(rng: &mut Rng) -> String {
    if rng.chance(2, 3) { (*rng.pick(KEY_POOL)).to_string() } else { gen_string(rng) }
}

fn gen_repr_value(rng: &mut Rng, depth: u32, floats: bool) -> Value {
    if depth == 0 || rng.chance(1, 3) {
        return gen_repr_scalar(rng, floats);
    }
    let n = match rng.below(6) {
        0 => 0,
        1 => 1,
        _ => rng.below(5),
    };
    if rng.chance(1, 2) {
        Value::Array((0..n).map(|_| gen_repr_value(rng, depth - 1, floats)).collect())
    } else {
        let mut m = ObjectMap::new();
        for _ in 0..n {
            m.insert(gen_key(rng).into(), gen_repr_value(rng, depth - 1, floats));
        }
        Value::Object(m)
    }
}

/// values JSON cannot represent faithfully (the printer must still agree byte for byte)
fn gen_odd_scalar(rng: &mut Rng) -> Value {
    match rng.below(6) {
        0 => Value::Bytes((0..rng.below(8)).map(|_| rng.below(256) as u8).collect::<Vec<u8>>().into()),
        1 => {
            // truncated / overlong / surrogate sequences around valid text
            let pool: &[&[u8]] = &[
                b"\xc3", b"\xe2\x82", b"\xf0\x9f\x98", b"\xed\xa0\x80", b"\xc0\xaf", b"\xe0\x80\x80", b"\xf4\x90\x80\x80", b"\xff",
                b"\x80", b"a", "é".as_bytes(), "😀".as_bytes(), b"\xf0\x9f", b"\xe2", b"\xf5\x80", b"\xc2\x41", b"\xe1\x80\x41",
            ];
            let mut v = Vec::new();
            for _ in 0..1 + rng.below(4) {
                v.extend_from_slice(*rng.pick(pool));
            }
            Value::Bytes(v.into())
        }
        2 => Value::Float(ordered_float::NotNan::new(if rng.chance(1, 2) { f64::INFINITY } else { f64::NEG_INFINITY }).unwrap()),
        3 => Value::Timestamp(
            chrono::DateTime::from_timestamp(
                rng.range(-10_000_000_000, 10_000_000_000),
                *rng.pick(&[0u32, 1, 1000, 1_000_000, 500_000_000, 123_456_789, 120_000_000, 999_999_999]),
            )
            .unwrap(),
        ),
        4 => {
            let pats = ["a.*b", "^\\d+$", "\"q\"", "x\\\\y", "[\\n\\t]", "é+"];
            Value::Regex(vrl::value::ValueRegex::new(std::sync::Arc::new(regex::Regex::new(*rng.pick(&pats)).unwrap())))
        }
        _ => gen_repr_scalar(rng, true),
    }
}

fn gen_any_value(rng: &mut Rng, depth: u32) -> Value {
    if depth == 0 || rng.chance(1, 3) {
        return if rng.chance(1, 2) { gen_odd_scalar(rng) } else { gen_repr_scalar(rng, true) };
    }
    let n = rng.below(4);
    if rng.chance(1, 2) {
        Value::Array((0..n).map(|_| gen_any_value(rng, depth - 1)).collect())
    } else {
        let mut m = ObjectMap::new();
        for _ in 0..n {
            m.insert(gen_key(rng).into(), gen_any_value(rng, depth - 1));
        }
        Value::Object(m)
    }
}

fn nested(depth: usize, object: u8, leaf: Value) -> Value {
    let mut v = leaf;
    for i in 0..depth {
        let as_obj = match object {
            0 => false,
            1 => true,
            _ => i % 2 == 0,
        };
        v = if as_obj {
            let mut m = ObjectMap::new();
            m.insert("k".into(), v);
            Value::Object(m)
        } else {
            Value::Array(vec![v])
        };
    }
    v
}

// ---- independent JSON text generator -----------------------------------------------------------

fn ws(rng: &mut Rng, out: &mut Vec<u8>) {
    match rng.below(14) {
        0 => out.push(b' '),
        1 => out.push(b'\n'),
        2 => out.push(b'\t'),
        3 => out.push(b'\r'),
        4 => out.extend_from_slice(b"  \n "),
        5 if rng.chance(1, 8) => out.extend_from_slice(*rng.pick(&[&b"\x0c"[..], "\u{a0}".as_bytes(), b"\x0b", b"\x00", b"//c\n", "\u{feff}".as_bytes()])),
        _ => {}
    }
}

fn digits(rng: &mut Rng, n: u64, out: &mut Vec<u8>) {
    for _ in 0..n {
        out.push(b'0' + rng.below(10) as u8);
    }
}

fn number_text(rng: &mut Rng) -> Vec<u8> {
    const FIXED: &[&str] = &[
        "0", "-0", "0.0", "-0.0", "1", "-1", "9223372036854775807", "9223372036854775808", "-9223372036854775808",
        "-9223372036854775809", "18446744073709551615", "18446744073709551616", "18446744073709551614", "-18446744073709551615",
        "-18446744073709551616", "123456789012345678901234567890", "-123456789012345678901234567890", "1e400", "-1e400", "1e-400",
        "1e308", "1e309", "1.7976931348623157e308", "1.7976931348623159e308", "1.8e308", "4.9e-324", "2e-324", "2.5e-324", "5e-324",
        "1e99999999999", "0e99999999999", "1e-99999999999", "0.0e99999999999", "-0e-99999999999", "1E5", "1e+5", "1E-5", "1.5e0",
        "0.1", "0.30000000000000004", "-9.867437071726851e-60", "1e22", "1e23", "8.5e22", "9007199254740993", "9007199254740993.0",
        "0.000000000000000000000000000000000000000000001", "100000000000000000000000000000000000000000000000000e-50",
        "1844674407370955161.5", "18446744073709551615.5", "18446744073709551616.5", "184467440737095516150", "1844674407370955161e1",
        "0.18446744073709551615", "0.184467440737095516159", "1.00000000000000000000000000000000000001", "123456789.123456789123456789e-10",
        "1e2147483647", "1e2147483648", "1e-2147483647", "1e-2147483648", "1e-2147483649", "10e2147483647", "0.1e-2147483648",
        "12345678901234567890123e-2147483648", "2.2250738585072011e-308", "2.2250738585072014e-308", "17976931348623157e292",
        "179769313486231570000000000000000000000000000000000000000000000000000000000000000000000000000000000000000000000000000000000000000000000000000000000000000000000000000000000000000000000000000000000000000000000000000000000000000000000000000000000000000000000000000000000000000000000000000000000000000000000000000",
        "1e0", "1e00", "1e01", "0e0", "0e-0", "1.0e+00", "01", "-01", "00", "1.", ".5", "1e", "1e+", "1e-", "+1", "--1", "0x10", "1.e5",
        "- 1", "-", "Infinity", "-Infinity", "NaN", "1_000", "1,5", "1.5.5", "1e5e5", "1e5.5", "١",
    ];
    let mut out = Vec::new();
    match rng.below(12) {
        0..=2 => out.extend_from_slice(rng.pick(FIXED).as_bytes()),
        3 => out.extend_from_slice(gen_int(rng).to_string().as_bytes()),
        4 => {
            // shortest text of a random double, as `{:?}`/`{:e}` print it (independent of serde_json)
            let f = finite_float(rng);
            let t = if rng.chance(1, 2) { format!("{f:?}") } else { format!("{f:e}") };
            out.extend_from_slice(t.as_bytes());
        }
        5 => {
            // many significant digits
            if rng.chance(1, 3) {
                out.push(b'-');
            }
            out.push(b'1' + rng.below(9) as u8);
            let n = rng.below(30);
            digits(rng, n, &mut out);
            if rng.chance(2, 3) {
                out.push(b'.');
                let n = 1 + rng.below(30);
                digits(rng, n, &mut out);
            }
            if rng.chance(1, 2) {
                out.push(*rng.pick(&[b'e', b'E']));
                if rng.chance(2, 3) {
                    out.push(*rng.pick(&[b'+', b'-']));
                }
                let n = 1 + rng.below(3);
                digits(rng, n, &mut out);
            }
        }
        6 => {
            // around the u64 boundary
            let base: u128 = *rng.pick(&[u64::MAX as u128, i64::MAX as u128, 1u128 << 63, 1u128 << 64, 1844674407370955161u128 * 10]);
            let x = base.wrapping_add(rng.below(12) as u128).wrapping_sub(6);
            if rng.chance(1, 2) {
                out.push(b'-');
            }
            out.extend_from_slice(x.to_string().as_bytes());
            if rng.chance(1, 4) {
                out.push(b'.');
                let n = 1 + rng.below(3);
                digits(rng, n, &mut out);
            }
        }
        7 => {
            // zero-ish and tiny
            if rng.chance(1, 2) {
                out.push(b'-');
            }
            out.extend_from_slice(b"0.");
            let z = rng.below(25);
            for _ in 0..z {
                out.push(b'0');
            }
            let n = rng.below(22);
            digits(rng, n, &mut out);
            if out.last() == Some(&b'.') {
                out.push(b'0');
            }
            if rng.chance(1, 2) {
                out.extend_from_slice(format!("e{}", rng.range(-330, 330)).as_bytes());
            }
        }
        8 => {
            // exponent extremes
            let m = rng.below(1000);
            out.extend_from_slice(format!("{}e{}", m, rng.range(-400, 400)).as_bytes());
        }
        _ => {
            let f = rng.range(-100000, 100000) as f64 / *rng.pick(&[1.0, 2.0, 8.0, 10.0, 100.0, 1000.0]);
            out.extend_from_slice(format!("{f}").as_bytes());
        }
    }
    out
}

fn string_body(rng: &mut Rng, out: &mut Vec<u8>) {
    let n = match rng.below(6) {
        0 => 0,
        1..=3 => rng.below(5),
        _ => rng.below(16),
    };
    for _ in 0..n {
        match rng.below(40) {
            0..=9 => out.push(0x20 + rng.below(0x5f) as u8).then_fix(out),
            10..=13 => {
                let mut buf = [0u8; 4];
                let c = loop {
                    let c = gen_char(rng);
                    if c as u32 >= 0x80 {
                        break c;
                    }
                };
                out.extend_from_slice(c.encode_utf8(&mut buf).as_bytes());
            }
            14..=17 => {
                out.push(b'\\');
                out.push(*rng.pick(b"\"\\/bfnrt"));
            }
            18..=21 => {
                // \uXXXX outside the surrogate range
                let cp = loop {
                    let c = match rng.below(4) {
                        0 => rng.below(0x80) as u32,
                        1 => rng.below(0x800) as u32,
                        _ => rng.below(0x10000) as u32,
                    };
                    if !(0xd800..0xe000).contains(&c) {
                        break c;
                    }
                };
                let t = if rng.chance(1, 2) { format!("\\u{cp:04x}") } else { format!("\\u{cp:04X}") };
                out.extend_from_slice(t.as_bytes());
            }
            22..=24 => {
                let hi = 0xd800 + rng.below(0x400);
                let lo = 0xdc00 + rng.below(0x400);
                out.extend_from_slice(format!("\\u{hi:04x}\\u{lo:04X}").as_bytes());
            }
            25 => out.extend_from_slice(format!("\\u{:04x}", 0xd800 + rng.below(0x400)).as_bytes()), // lone high
            26 => out.extend_from_slice(format!("\\u{:04x}", 0xdc00 + rng.below(0x400)).as_bytes()), // lone low
            27 => {
                // high surrogate followed by something that is not a low surrogate
                let hi = 0xd800 + rng.below(0x400);
                let tail: &[&str] = &["\\u0041", "\\n", "x", "\\ud800", "\\u", "\\", "\\udbff\\udfff"];
                out.extend_from_slice(format!("\\u{hi:04x}{}", rng.pick(tail)).as_bytes());
            }
            28 => out.push(rng.below(0x20) as u8), // raw control character
            29 => {
                out.push(b'\\');
                out.push(*rng.pick(b"xa0'UN v\n"));
            }
            30 => out.extend_from_slice(rng.pick(&["\\u12G4", "\\u12", "\\u", "\\u+123", "\\u00g0", "\\U0041", "\\u 041"]).as_bytes()),
            31 => out.extend_from_slice(*rng.pick(&[
                &b"\xff"[..],
                b"\xc3",
                b"\xed\xa0\x80",
                b"\xc0\xaf",
                b"\xe2\x82",
                b"\xf0\x9f\x98",
                b"\x80",
                b"\xf4\x90\x80\x80",
            ])),
            32 => out.extend_from_slice(b"\\u0000"),
            33 => out.push(0x7f),
            34 => out.extend_from_slice("\u{feff}".as_bytes()),
            _ => out.push(b'a' + rng.below(26) as u8),
        }
    }
}

trait ThenFix {
    fn then_fix(self, out: &mut Vec<u8>);
}
impl ThenFix for () {
    /// a raw `"` or `\` ends / escapes: keep them only rarely raw (they make the document malformed)
    fn then_fix(self, out: &mut Vec<u8>) {
        if let Some(&c) = out.last() {
            if c == b'"' || c == b'\\' {
                out.pop();
                out.push(b'_');
            }
        }
    }
}

fn string_text(rng: &mut Rng, out: &mut Vec<u8>) {
    out.push(b'"');
    string_body(rng, out);
    out.push(b'"');
}

fn value_text(rng: &mut Rng, depth: u32, out: &mut Vec<u8>) {
    let k = if depth == 0 { rng.below(7) } else { rng.below(12) };
    match k {
        0 => out.extend_from_slice(*rng.pick(&[&b"null"[..], b"true", b"false"])),
        1 | 2 => out.extend_from_slice(&number_text(rng)),
        3 | 4 => string_text(rng, out),
        5 => out.extend_from_slice(*rng.pick(&[&b"null"[..], b"true", b"false", b"[]", b"{}", b"[ ]", b"{ }", b"\"\"", b"0"])),
        6 if rng.chance(1, 6) => out.extend_from_slice(*rng.pick(&[
            &b"nul"[..],
            b"True",
            b"nulll",
            b"tru",
            b"fals",
            b"None",
            b"undefined",
            b"'a'",
            b"",
            b"[1,]",
            b"[,1]",
            b"[1 2]",
            b"{\"a\"}",
            b"{\"a\":}",
            b"{\"a\":1,}",
            b"{,}",
            b"{a:1}",
            b"{1:1}",
            b"{\"a\" 1}",
            b"{\"a\":1 \"b\":2}",
            b"[1}",
            b"{\"a\":1]",
            b"[",
            b"{",
            b"]",
            b"{\"a\":1,,\"b\":2}",
            b"[1,,2]",
            b"{null:1}",
            b"{\"a\"::1}",
        ])),
        6 => out.extend_from_slice(b"null"),
        7..=9 => {
            out.push(b'[');
            let n = rng.below(4);
            for i in 0..n {
                if i > 0 {
                    ws(rng, out);
                    out.push(b',');
                }
                ws(rng, out);
                value_text(rng, depth - 1, out);
            }
            ws(rng, out);
            out.push(b']');
        }
        _ => {
            out.push(b'{');
            let n = rng.below(4);
            for i in 0..n {
                if i > 0 {
                    ws(rng, out);
                    out.push(b',');
                }
                ws(rng, out);
                // small key alphabet so that duplicate keys happen
                if rng.chance(1, 2) {
                    out.extend_from_slice(*rng.pick(&[&b"\"a\""[..], b"\"b\"", b"\"\\u0061\"", b"\"\"", b"\"a\\n\"", b"\"\\ud83d\\ude00\"", b"\"\\ud800\""]));
                } else {
                    string_text(rng, out);
                }
                ws(rng, out);
                out.push(b':');
                ws(rng, out);
                value_text(rng, depth - 1, out);
            }
            ws(rng, out);
            out.push(b'}');
        }
    }
}

fn doc_text(rng: &mut Rng) -> Vec<u8> {
    let mut out = Vec::new();
    match rng.below(24) {
        0 => out.extend_from_slice(b"\xef\xbb\xbf"),
        1 if rng.chance(1, 2) => out.extend_from_slice(b"\xef\xbb\xbf\xef\xbb\xbf"),
        2 if rng.chance(1, 2) => out.extend_from_slice(b" \xef\xbb\xbf"),
        _ => {}
    }
    ws(rng, &mut out);
    let depth = match rng.below(8) {
        0 => 0,
        1 | 2 => 1,
        3 | 4 => 2,
        5 => 3,
        _ => 4,
    };
    value_text(rng, depth, &mut out);
    ws(rng, &mut out);
    if rng.chance(1, 20) {
        out.extend_from_slice(*rng.pick(&[&b"x"[..], b"1", b",", b"]", b"}", b"null", b"\x00", b"\"\"", b"[]"]));
    }
    out
}

fn mutate(rng: &mut Rng, text: &mut Vec<u8>) {
    if text.is_empty() {
        return;
    }
    let i = rng.below(text.len() as u64) as usize;
    match rng.below(6) {
        0 => {
            text.remove(i);
        }
        1 => text.insert(i, *rng.pick(b"\"\\,:[]{} \n0-e.1tnf\x00\xff")),
        2 => text[i] = *rng.pick(b"\"\\,:[]{} \n0-e.1tnf\x00\xff"),
        3 => text.truncate(i),
        4 => {
            let j = rng.below(text.len() as u64) as usize;
            text.swap(i, j);
        }
        _ => {
            let c = text[i];
            text.insert(i, c);
        }
    }
}

fn deep_text(open: &[u8], close: &[u8], depth: usize, leaf: &[u8]) -> Vec<u8> {
    let mut t = Vec::new();
    for _ in 0..depth {
        t.extend_from_slice(open);
    }
    t.extend_from_slice(leaf);
    for _ in 0..depth {
        t.extend_from_slice(close);
    }
    t
}

const MODES: &[&str] = &["plain", "strict", "serde"];

fn emit_parse_all(sink: &mut Sink, rng: &mut Rng, text: &[u8], bucket: &str) {
    let h = hex(text);
    let mut accepted = false;
    for m in MODES {
        if let Some(r) = sink.emit("c21.parse", &[(*m).to_string(), h.clone()]) {
            if *m == "plain" && r.reply.starts_with("ok") {
                accepted = true;
            }
        }
    }
    sink.count(&format!("c21:text:{bucket}:{}", if accepted { "accepted" } else { "rejected" }));
    // max_depth variants: a random one or two per text
    let d = *rng.pick(&[1i64, 1, 2, 2, 3, 3, 4, 128, 0, 129, -1, 255, 256]);
    let mode = if rng.chance(1, 4) { format!("depthstrict:{d}") } else { format!("depth:{d}") };
    sink.emit("c21.parse", &[mode, h]);
}

fn emit_value_cases(sink: &mut Sink, rng: &mut Rng, v: &Value, oracle: bool) {
    let sv = show_value(v);
    for pretty in [false, true] {
        sink.emit("c21.enc", &[b(pretty), sv.clone()]);
        if rng.chance(1, 3) {
            sink.emit("c21.ser", &[b(pretty), sv.clone()]);
        }
        // the parser on the printer's output
        if let Ok(text) = run_enc(v, pretty) {
            let h = hex(&text);
            let mode = *rng.pick(&["plain", "strict", "serde", "depth:1", "depth:2", "depth:3", "depthstrict:2", "depth:128"]);
            sink.emit("c21.parse", &[mode.to_string(), h]);
        }
        if oracle {
            sink.emit("o.c21", &[b(pretty), sv.clone()]);
        }
    }
}

fn count_ulp(sink: &mut Sink, x: f64) {
    let text = serde_json::to_string(&x).unwrap();
    let bucket = match serde_json::from_str::<Value>(&text) {
        Ok(Value::Float(f)) => {
            let key = |b: u64| -> i128 {
                let m = (b & 0x7fff_ffff_ffff_ffff) as i128;
                if b >> 63 == 1 { -m } else { m }
            };
            match (key(f.into_inner().to_bits()) - key(x.to_bits())).abs() {
                0 => "c21:float_readback:0ulp",
                1 => "c21:float_readback:1ulp",
                2 => "c21:float_readback:2ulp",
                _ => "c21:float_readback:3+ulp",
            }
        }
        _ => "c21:float_readback:not-a-float",
    };
    sink.count(bucket);
}

pub fn generate(sink: &mut Sink, rng: &mut Rng, n: u64) {
    // ---- fixed edge cases -------------------------------------------------------------------
    let fixed_texts: &[&[u8]] = &[
        b"", b" ", b"null", b" null ", b"nullx", b"null null", b"[]", b"{}", b"[[]]", b"{\"a\":{}}", b"\"\"", b"\"a\"", b"0", b"-0", b"1e400",
        b"\xef\xbb\xbfnull", b"\xef\xbb\xbf\xef\xbb\xbfnull", b" \xef\xbb\xbfnull", b"\xef\xbb\xbf", b"\xef\xbbnull",
        b"{\"a\":1,\"a\":2}", b"{\"a\":\"\\ud800\",\"a\":1}", b"{\"a\":1e400,\"a\":1}", b"{\"b\":1,\"a\":2,\"b\":3}",
        b"{\"a\":{\"a\":1,\"a\":[1,2,{\"x\":null}]}}", b"\"\\ud83d\\ude00\"", b"\"\\ud83d\"", b"\"\\ude00\"", b"\"\\ud83d\\u0041\"",
        b"\"\\ud83d\\ud83d\\ude00\"", b"\"\\uD83D\\uDE00\"", b"\"\\u0000\"", b"\"\x00\"", b"\"\x1f\"", b"\"\x7f\"", b"\"\\/\"", b"\"\xff\"",
        b"\"\xc3\xa9\"", b"\"\xc3\"", b"\"\xed\xa0\x80\"", b"[\"\xff\"]", b"{\"\xff\":1}", b"{\"k\xff\":1,\"k\xfe\":2}", b"\xff", b"[1,\xff]",
        b"18446744073709551615", b"[18446744073709551615]", b"{\"a\":18446744073709551615}", b"9223372036854775808", b"-9223372036854775809",
        b"[1, 2 , 3 ]", b"[1,2,]", b"{\"a\":1,}", b"{\"a\" : [ { \"b\" : [ ] } ] }", b"[{\"a\":[{\"b\":[{\"c\":[1.5]}]}]}]",
        b"{\"first_level\":{\"second_level\":\"finish\"}}", b"[ [ 1 , 2 ] , { \"a\" : [ 3 ] } ]", b"[\"\\ud800\"]", b"[[\"\\ud800\"]]",
        b"[[1e400]]", b"[[01]]", b"{\"a\":{\"b\":tru}}", b"[[[[[[[[[[1]]]]]]]]]]",
    ];
    for t in fixed_texts {
        let h = hex(t);
        for m in MODES {
            sink.emit("c21.parse", &[(*m).to_string(), h.clone()]);
        }
        for d in [1i64, 2, 3, 128, 0, 129, -1] {
            sink.emit("c21.parse", &[format!("depth:{d}"), h.clone()]);
            sink.emit("c21.parse", &[format!("depthstrict:{d}"), h.clone()]);
        }
        sink.count("c21:text:fixed");
    }
    // nesting around the recursion limit of serde_json (128)
    for depth in [1usize, 2, 126, 127, 128, 129, 200] {
        for (open, close, leaf) in [
            (&b"["[..], &b"]"[..], &b""[..]),
            (b"[", b"]", b"1"),
            (b"{\"a\":", b"}", b"null"),
            (b"[{\"a\":", b"}]", b"[]"),
            (b" [ ", b" ] ", b" "),
        ] {
            let t = deep_text(open, close, depth, leaf);
            let h = hex(&t);
            for m in ["plain", "strict", "serde", "depth:1", "depth:3", "depth:127", "depth:128", "depthstrict:128"] {
                sink.emit("c21.parse", &[m.to_string(), h.clone()]);
            }
            sink.count("c21:text:deep");
        }
    }
    for depth in [0usize, 1, 2, 126, 127, 128, 129, 140] {
        for object in [0u8, 1, 2] {
            for leaf in [Value::Null, Value::Integer(7), Value::Array(vec![])] {
                let v = nested(depth, object, leaf);
                let sv = show_value(&v);
                for pretty in [false, true] {
                    sink.emit("c21.enc", &[b(pretty), sv.clone()]);
                    sink.emit("o.c21", &[b(pretty), sv.clone()]);
                }
                sink.count("c21:value:deep");
            }
        }
    }
    for x in [
        0.0f64, -0.0, 1.0, -1.0, 0.1, 1e15, 1e16, 1e21, 1e22, 1e23, 1e-5, 1e-6, 1e-7, f64::MAX, f64::MIN, f64::MIN_POSITIVE, 5e-324, 1.5,
        123456.789, 9007199254740993.0, -9.867437071726851e-60, 2.2250738585072014e-308, 1.7976931348623157e308, 4.35e-310,
    ] {
        sink.emit("c21.float", &[format!("{:016x}", x.to_bits())]);
        let sv = show_value(&Value::Float(ordered_float::NotNan::new(x).unwrap()));
        sink.emit("c21.enc", &[b(false), sv.clone()]);
        sink.emit("o.c21", &[b(false), sv]);
    }
    for k in KEY_POOL {
        let mut m = ObjectMap::new();
        m.insert((*k).into(), Value::Bytes((*k).as_bytes().to_vec().into()));
        let v = Value::Object(m);
        emit_value_cases(sink, rng, &v, true);
    }
    for byte in 0u8..=0x7f {
        let v = Value::Bytes(vec![byte].into());
        emit_value_cases(sink, rng, &v, true);
    }
    for i in crate::gens::edge_ints() {
        emit_value_cases(sink, rng, &Value::Integer(*i), true);
    }

    // ---- random streams ---------------------------------------------------------------------
    for i in 0..n {
        // (a) float-free representable values: printer byte-exact, parser on printer output, oracle
        let v = gen_repr_value(rng, 3, false);
        emit_value_cases(sink, rng, &v, true);
        sink.count("c21:value:float_free");
        // (b) representable values with floats from random bit patterns
        let v = gen_repr_value(rng, 3, true);
        emit_value_cases(sink, rng, &v, true);
        sink.count("c21:value:with_floats");
        // (c) any value (invalid UTF-8, timestamps, regexes, infinities): printer only
        let v = gen_any_value(rng, 3);
        let sv = show_value(&v);
        let pretty = rng.chance(1, 2);
        sink.emit("c21.enc", &[b(pretty), sv.clone()]);
        if rng.chance(1, 4) {
            sink.emit("c21.ser", &[b(!pretty), sv]);
        }
        sink.count("c21:value:any");
        // (d) the float law on a random bit pattern
        let x = if i % 2 == 0 { finite_float(rng) } else { f64::from_bits(rng.next()) };
        if x.is_finite() {
            sink.emit("c21.float", &[format!("{:016x}", x.to_bits())]);
            let sv = show_value(&Value::Float(ordered_float::NotNan::new(x).unwrap()));
            sink.emit("o.c21", &[b(false), sv]);
            count_ulp(sink, x);
        }
        // (e) independently generated JSON texts
        let t = doc_text(rng);
        emit_parse_all(sink, rng, &t, "generated");
        // (f) number tokens on their own (the float conversion of serde_json)
        let t = number_text(rng);
        let h = hex(&t);
        sink.emit("c21.parse", &[(*rng.pick(&["plain", "serde", "depth:1", "strict"])).to_string(), h]);
        sink.count("c21:text:number");
        // (g) malformed: mutations of generated documents and of printer output
        let mut t = if rng.chance(1, 2) {
            doc_text(rng)
        } else {
            let v = gen_repr_value(rng, 2, true);
            run_enc(&v, rng.chance(1, 2)).unwrap_or_default()
        };
        for _ in 0..1 + rng.below(2) {
            mutate(rng, &mut t);
        }
        emit_parse_all(sink, rng, &t, "mutated");
    }
}
