//! Output of a generation run: `cases.tsv` (fed to the Lean driver) and `impl.tsv` (what the
//! implementation answered), line for line. `stats` collects the measured input distribution.
//!
//! A case is `op <tab> input…`. `exec` runs the real code on it and returns the implementation's
//! canonical reply plus, for oracle ops (`o.*`), the observations made on the implementation; those
//! are appended to the case line after a `|` field so that the Lean driver can evaluate the Spec
//! predicate on them. Because every case is re-executable from `op + inputs`, a replay file is just
//! such a line (`vrl-verif-harness exec <file>`).
use std::collections::BTreeMap;
use std::fs::File;
use std::io::{BufWriter, Write};
use std::path::Path;

pub struct Reply {
    pub obs: Vec<String>,
    pub reply: String,
}

impl Reply {
    pub fn plain(reply: impl Into<String>) -> Self {
        Reply { obs: Vec::new(), reply: reply.into() }
    }
    pub fn oracle(obs: Vec<String>) -> Self {
        Reply { obs, reply: "holds".into() }
    }
}

pub struct Sink {
    cases: BufWriter<File>,
    imp: BufWriter<File>,
    /// the case being executed right now (`op + inputs`), rewritten before every `exec`: if the
    /// implementation aborts the process or never returns, bin/check reads the culprit from here
    pending: File,
    pub n: u64,
    pub stats: BTreeMap<String, u64>,
}

impl Sink {
    pub fn new(dir: &Path) -> std::io::Result<Self> {
        std::fs::create_dir_all(dir)?;
        Ok(Sink {
            cases: BufWriter::new(File::create(dir.join("cases.tsv"))?),
            imp: BufWriter::new(File::create(dir.join("impl.tsv"))?),
            pending: File::create(dir.join("pending.case"))?,
            n: 0,
            stats: BTreeMap::new(),
        })
    }
    /// run one case on the implementation and record it.
    pub fn emit(&mut self, op: &str, inputs: &[String]) -> Option<Reply> {
        {
            use std::io::{Seek, SeekFrom};
            let mut line = String::from(op);
            for a in inputs {
                line.push('\t');
                line.push_str(a);
            }
            line.push('\n');
            let _ = self.pending.seek(SeekFrom::Start(0));
            let _ = self.pending.set_len(0);
            let _ = self.pending.write_all(line.as_bytes());
        }
        let r = crate::exec(op, inputs)?;
        let line = case_line(op, inputs, &r);
        writeln!(self.cases, "{line}").unwrap();
        writeln!(self.imp, "{}", r.reply).unwrap();
        self.n += 1;
        *self.stats.entry(format!("op:{op}")).or_insert(0) += 1;
        Some(r)
    }
    pub fn count(&mut self, key: &str) {
        *self.stats.entry(key.to_string()).or_insert(0) += 1;
    }
    pub fn finish(mut self, dir: &Path) {
        self.cases.flush().unwrap();
        self.imp.flush().unwrap();
        let _ = self.pending.set_len(0);
        let mut f = File::create(dir.join("stats.json")).unwrap();
        let body: Vec<String> = self.stats.iter().map(|(k, v)| format!("  {:?}: {}", k, v)).collect();
        writeln!(f, "{{\n{}\n}}", body.join(",\n")).unwrap();
    }
}

pub fn case_line(op: &str, inputs: &[String], r: &Reply) -> String {
    let mut line = String::from(op);
    for a in inputs {
        assert!(!a.contains('\t') && !a.contains('\n'), "arg contains separator: {a:?}");
        line.push('\t');
        line.push_str(a);
    }
    if !r.obs.is_empty() {
        line.push_str("\t|");
        for a in &r.obs {
            assert!(!a.contains('\t') && !a.contains('\n'), "obs contains separator: {a:?}");
            line.push('\t');
            line.push_str(a);
        }
    }
    assert!(!r.reply.contains('\n'));
    line
}

/// Run `f`, mapping a panic to `Err(message)`.
pub fn guarded<T>(f: impl FnOnce() -> T) -> Result<T, String> {
    std::panic::catch_unwind(std::panic::AssertUnwindSafe(f)).map_err(|e| {
        if let Some(s) = e.downcast_ref::<&str>() {
            (*s).to_string()
        } else if let Some(s) = e.downcast_ref::<String>() {
            s.clone()
        } else {
            "panic".to_string()
        }
    })
}
