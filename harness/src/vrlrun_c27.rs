//! Compile and run a small VRL program on the real crate (all stdlib functions available).
//! Errors are returned as text prefixed with the phase: `compile: …`, `runtime: …`, `panic: …`.
use crate::sink::guarded;
use std::panic::AssertUnwindSafe;
use vrl::compiler::runtime::Runtime;
use vrl::compiler::state::RuntimeState;
use vrl::compiler::{Program, TargetValue, TimeZone};
use vrl::value::{Secrets, Value};

/// Compile `src` with `vrl::stdlib::all()`.
pub fn compile_vrl(src: &str) -> Result<Program, String> {
    let r = guarded(AssertUnwindSafe(|| vrl::compiler::compile(src, &vrl::stdlib::all())));
    match r {
        Err(p) => Err(format!("panic: {p}")),
        Ok(Err(diags)) => {
            let msgs: Vec<String> = diags.iter().map(|d| d.message().to_string()).collect();
            Err(format!("compile: {}", msgs.join("; ")))
        }
        Ok(Ok(res)) => Ok(res.program),
    }
}

/// Run a compiled program with `event` as the target (`.`); returns the program's result.
pub fn run_program(program: &Program, event: Value) -> Result<Value, String> {
    let r = guarded(AssertUnwindSafe(|| {
        let mut target = TargetValue { value: event, metadata: Value::Object(Default::default()), secrets: Secrets::default() };
        let mut runtime = Runtime::new(RuntimeState::default());
        runtime.resolve(&mut target, program, &TimeZone::default())
    }));
    match r {
        Err(p) => Err(format!("panic: {p}")),
        Ok(Err(t)) => Err(format!("runtime: {t}")),
        Ok(Ok(v)) => Ok(v),
    }
}

/// Compile and run in one step.
#[allow(dead_code)]
pub fn run_vrl(src: &str, event: Value) -> Result<Value, String> {
    run_program(&compile_vrl(src)?, event)
}
