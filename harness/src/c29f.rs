//! C29 (float part) – round/ceil/floor with precision, to_float, parse_float.
//! Correspondence ops `c29f.<fn>` call the REAL stdlib functions through compiled VRL programs.
//! The libm/core primitives the model takes as parameters are passed as observations:
//! `10f64.powf(p as f64)` (bits) for the rounding functions, `str::parse::<f64>` for the conversions.
//! `c29f.rint <mode> <bits>` validates the model's integer rounding of a double against the hardware.
//! Oracle `o.c29f <x> <p>`: results of round/ceil/floor on the implementation (+ the multiplier).
use crate::gens::*;
use crate::rng::Rng;
use crate::sink::{guarded, Reply, Sink};
use crate::vrlrun::run_vrl;
use crate::wire::*;
use vrl::value::{ObjectMap, Value};

fn parse_opt(s: &str) -> Option<Option<Value>> {
    if s == "-" { Some(None) } else { parse_value(s).map(Some) }
}

fn call(name: &str, kws: &[&str], args: &[Option<Value>]) -> String {
    let mut src = format!("{name}!(");
    let mut ev = ObjectMap::new();
    let mut first = true;
    for (i, (kw, a)) in kws.iter().zip(args).enumerate() {
        if let Some(v) = a {
            if !first {
                src.push_str(", ");
            }
            first = false;
            src.push_str(&format!("{kw}: .a{i}"));
            ev.insert(format!("a{i}").into(), v.clone());
        }
    }
    src.push(')');
    match guarded(|| run_vrl(&src, Value::Object(ev))) {
        Ok(Ok(v)) => format!("ok\t{}", show_value(&v)),
        Ok(Err(e)) if e == "compile-error" => "compile-error".to_string(),
        Ok(Err(_)) => "err".to_string(),
        Err(_) => "panic".to_string(),
    }
}

fn pow10_obs(p: &Option<Value>) -> String {
    match p {
        None => format!("{:016x}", 10f64.powf(0.0).to_bits()),
        #[allow(clippy::cast_precision_loss)]
        Some(Value::Integer(p)) => format!("{:016x}", 10f64.powf(*p as f64).to_bits()),
        Some(_) => "-".to_string(),
    }
}

/// `String::from_utf8_lossy(b).parse::<f64>()` (what `Conversion::Float` calls)
fn parse_obs(v: &Value) -> String {
    match v {
        Value::Bytes(b) => match String::from_utf8_lossy(b).parse::<f64>() {
            Ok(f) => format!("{:016x}", f.to_bits()),
            Err(_) => "err".to_string(),
        },
        _ => "-".to_string(),
    }
}

pub fn exec(op: &str, a: &[String]) -> Option<Reply> {
    match (op, a) {
        ("c29f.round" | "c29f.ceil" | "c29f.floor", [x, p]) => {
            let (x, p) = (parse_value(x)?, parse_opt(p)?);
            let f = &op[5..];
            let reply = call(f, &["value", "precision"], &[Some(x), p.clone()]);
            Some(Reply { obs: vec![pow10_obs(&p)], reply })
        }
        ("c29f.rint", [mode, bits]) => {
            let x = f64::from_bits(u64::from_str_radix(bits, 16).ok()?);
            let r = match mode.as_str() {
                "round" => x.round(),
                "ceil" => x.ceil(),
                "floor" => x.floor(),
                "trunc" => x.trunc(),
                _ => return None,
            };
            Some(Reply::plain(if r.is_nan() { "nan".to_string() } else { format!("{:016x}", r.to_bits()) }))
        }
        ("c29f.to_float" | "c29f.parse_float", [v]) => {
            let v = parse_value(v)?;
            let reply = call(&op[5..], &["value"], &[Some(v.clone())]);
            Some(Reply { obs: vec![parse_obs(&v)], reply })
        }
        ("o.c29f", [x, p]) => {
            let (x, p) = (parse_value(x)?, parse_opt(p)?);
            if !matches!(x, Value::Float(_)) || !matches!(p, None | Some(Value::Integer(_))) {
                return None;
            }
            let mut obs: Vec<String> = ["round", "ceil", "floor"]
                .iter()
                .map(|f| call(f, &["value", "precision"], &[Some(x.clone()), p.clone()]).replace('\t', " "))
                .collect();
            obs.push(pow10_obs(&p));
            Some(Reply::oracle(obs))
        }
        // to_float(s), parse_float(s), to_string(x) -> parse_float / to_float of it
        ("o.c29f.conv", [v]) => {
            let v = parse_value(v)?;
            let one = |f: &str, v: &Value| call(f, &["value"], &[Some(v.clone())]).replace('\t', " ");
            let ts = call("to_string", &["value"], &[Some(v.clone())]);
            let (back_p, back_t) = match ts.strip_prefix("ok\t").and_then(parse_value) {
                Some(s) => (one("parse_float", &s), one("to_float", &s)),
                None => ("-".to_string(), "-".to_string()),
            };
            Some(Reply::oracle(vec![one("to_float", &v), one("parse_float", &v), ts.replace('\t', " "), back_p, back_t]))
        }
        _ => None,
    }
}

fn fl(f: f64) -> Value {
    Value::Float(ordered_float::NotNan::new(if f.is_nan() { 0.5 } else { f }).unwrap())
}

fn gen_x(rng: &mut Rng) -> f64 {
    match rng.below(16) {
        0 => *rng.pick(&[0.0, -0.0, 1.5, -1.5, 2.5, -2.5, 0.5, -0.5, 123.0, 1e300, 1.5e300, -1e300, f64::MAX, f64::MIN_POSITIVE, 5e-324, 0.1, 0.3, 1e-7]),
        1 => *rng.pick(&[f64::INFINITY, f64::NEG_INFINITY]),
        // the family of DESIGN §8 item 52: seven integer digits and a binary fraction
        2 | 3 => rng.range(-9_999_999, 9_999_999) as f64 + rng.below(1 << 20) as f64 / f64::from(1u32 << 20),
        4 | 5 => rng.range(-100_000, 100_000) as f64 / *rng.pick(&[8.0, 10.0, 100.0, 1000.0, 3.0, 7.0]),
        6 => (rng.range(-1000, 1000) as f64 + 0.5) * *rng.pick(&[1.0, 0.1, 0.01, 10.0]),
        7 => f64::from_bits(rng.below(1 << 52)),
        8 => {
            // around 2^52 / 2^53
            let e = rng.range(50, 54) as i32;
            (2f64.powi(e) + rng.range(-4, 4) as f64 * 0.5) * if rng.chance(1, 2) { -1.0 } else { 1.0 }
        }
        9 | 10 => {
            // moderate exponents
            let bits = (rng.below(2) << 63) | ((1023 - 40 + rng.below(100)) << 52) | rng.below(1 << 52);
            f64::from_bits(bits)
        }
        _ => f64::from_bits(rng.next()),
    }
}

fn gen_p(rng: &mut Rng) -> Option<Value> {
    Some(Value::Integer(match rng.below(12) {
        0 => return None,
        1 => *rng.pick(&[400, -400, 308, 309, -308, -323, -324, 22, 23, -22, -23, 0, i64::MAX, i64::MIN]),
        2..=6 => rng.range(-3, 12),
        7 | 8 => rng.range(-25, 25),
        9 => return Some(gen_scalar(rng)),
        _ => rng.range(-400, 400),
    }))
}

fn opt(v: Option<&Value>) -> String {
    v.map_or("-".to_string(), show_value)
}

const FLOAT_TEXTS: &[&str] = &[
    "1.5", "-0.0", "0", "1e300", "1e400", "-1e400", "inf", "-inf", "infinity", "NaN", "nan", "-nan", "", " 1.5", "1.5 ", "+3", ".5", "5.", "1e", "0x10", "1_000", "١", "1,5", "1e-400", "4.9e-324", "2.4703282292062327e-324", "9007199254740993", "0.1", "179769313486231580793728971405303415079934132710037826936173778980444968292764750946649017977587207096330286416692887910946555547851940402630657488671505820681908902000708383676273854845817711531764475730270069855571366959622842914819860834936475292719074168444365510704342711559699508093042880177904174497791.9999999999999999999999999999999999999999999999999999999999999999999999",
    "true", "null", "\u{fffd}",
];

pub fn generate(sink: &mut Sink, rng: &mut Rng, n: u64) {
    // fixed: the known findings and edge cases
    let fixed: &[(f64, Option<i64>)] = &[
        (1.5e300, Some(400)),
        (1e300, Some(10)),
        (123.0, Some(-400)),
        (-6630686.7451171875, Some(9)),
        (-7799889.7041015625, Some(9)),
        (-6.2e125, Some(-1)),
        (2.5, None),
        (-2.5, Some(0)),
        (0.15, Some(1)),
        (1234.5678, Some(2)),
        (1234.5678, Some(-2)),
        (-0.4, Some(0)),
        (0.0, Some(400)),
        (-0.0, Some(-400)),
        (f64::INFINITY, Some(2)),
        (f64::NEG_INFINITY, Some(-400)),
        (5e-324, Some(323)),
        (f64::MAX, Some(-308)),
    ];
    for (x, p) in fixed {
        let (x, p) = (fl(*x), p.map(Value::Integer));
        for f in ["round", "ceil", "floor"] {
            sink.emit(&format!("c29f.{f}"), &[show_value(&x), opt(p.as_ref())]);
        }
        sink.emit("o.c29f", &[show_value(&x), opt(p.as_ref())]);
    }
    for t in FLOAT_TEXTS {
        let v = Value::from(*t);
        sink.emit("c29f.to_float", &[show_value(&v)]);
        sink.emit("c29f.parse_float", &[show_value(&v)]);
        sink.emit("o.c29f.conv", &[show_value(&v)]);
    }
    for _ in 0..n {
        let x = gen_x(rng);
        let xv = if rng.chance(1, 30) { gen_scalar(rng) } else { fl(x) };
        let p = gen_p(rng);
        for f in ["round", "ceil", "floor"] {
            sink.emit(&format!("c29f.{f}"), &[show_value(&xv), opt(p.as_ref())]);
        }
        if sink.emit("o.c29f", &[show_value(&xv), opt(p.as_ref())]).is_some() {
            let pv = match &p {
                Some(Value::Integer(p)) => *p,
                _ => 0,
            };
            sink.count(match pv {
                i64::MIN..=-309 => "c29f:precision<=-309",
                -308..=-23 => "c29f:precision-308..-23",
                -22..=-1 => "c29f:precision-22..-1",
                0 => "c29f:precision0",
                1..=22 => "c29f:precision1..22",
                23..=308 => "c29f:precision23..308",
                _ => "c29f:precision>=309",
            });
            sink.count(if !x.is_finite() {
                "c29f:x_infinite"
            } else if x == 0.0 {
                "c29f:x_zero"
            } else if x.is_normal() {
                "c29f:x_normal"
            } else {
                "c29f:x_subnormal"
            });
        }
        let bits = format!("{:016x}", gen_x(rng).to_bits());
        for m in ["round", "ceil", "floor", "trunc"] {
            sink.emit("c29f.rint", &[m.to_string(), bits.clone()]);
        }
        // conversions
        let v = match rng.below(8) {
            0 => Value::from(*rng.pick(FLOAT_TEXTS)),
            1 => Value::from(format!("{}", gen_x(rng))),
            2 => Value::from(format!("{:e}", gen_x(rng))),
            3 => Value::from(format!("{}", rng.range(-1000, 1000))),
            4 => fl(gen_x(rng)),
            5 => Value::Integer(*rng.pick(edge_ints())),
            6 => Value::Bytes(crate::c28::gen_str(rng, 3, true).into()),
            _ => gen_scalar(rng),
        };
        sink.emit("c29f.to_float", &[show_value(&v)]);
        sink.emit("c29f.parse_float", &[show_value(&v)]);
        sink.emit("o.c29f.conv", &[show_value(&v)]);
    }
}
