//! C19 – the type abstraction (`Kind`) is sound for path operations and merging.
//! Correspondence ops `kind.*` (model vs implementation, structural) and oracle ops `o.c19.*`
//! (the implementation's results are handed to the Lean Spec predicate `mem`).
use crate::gens::*;
use crate::kindwire::*;
use crate::rng::Rng;
use crate::sink::{guarded, Reply, Sink};
use crate::wire::*;
use std::collections::BTreeMap;
use vrl::path::{OwnedSegment, OwnedValuePath};
use vrl::value::kind::merge::{CollisionStrategy, Strategy};
use vrl::value::kind::{Collection, Field, Index};
use vrl::compiler::value::VrlValueArithmetic;
use vrl::value::{Kind, ObjectMap, Value};

fn pb(s: &str) -> Option<bool> {
    match s {
        "1" => Some(true),
        "0" => Some(false),
        _ => None,
    }
}
fn b(x: bool) -> &'static str {
    if x { "1" } else { "0" }
}

fn strategy(ow: bool) -> Strategy {
    Strategy { collisions: if ow { CollisionStrategy::Overwrite } else { CollisionStrategy::Union } }
}

fn ok_kind(r: Result<Kind, String>) -> String {
    match r {
        Ok(k) => format!("ok\t{}", show_kind(&k)),
        Err(_) => "panic".into(),
    }
}

fn k_at(k: &Kind, p: &OwnedValuePath) -> Result<Kind, String> {
    let (k, p) = (k.clone(), p.clone());
    guarded(move || k.at_path(&p))
}
fn k_get(k: &Kind, p: &OwnedValuePath) -> Result<Kind, String> {
    let (k, p) = (k.clone(), p.clone());
    guarded(move || k.get(&p))
}
fn k_insert(k: &Kind, p: &OwnedValuePath, x: &Kind) -> Result<Kind, String> {
    let (mut k, p, x) = (k.clone(), p.clone(), x.clone());
    guarded(move || {
        k.insert(&p, x);
        k
    })
}
fn k_set(k: &Kind, p: &OwnedValuePath, x: &Kind) -> Result<Kind, String> {
    let (mut k, p, x) = (k.clone(), p.clone(), x.clone());
    guarded(move || {
        k.set_at_path(&p, x);
        k
    })
}
fn k_remove(k: &Kind, p: &OwnedValuePath, compact: bool) -> Result<(Kind, Kind), String> {
    let (mut k, p) = (k.clone(), p.clone());
    guarded(move || {
        let removed = k.remove(&p, compact);
        (k, removed)
    })
}

fn preds(k: &Kind) -> String {
    let fl = [
        k.is_any(),
        k.is_json(),
        k.is_exact(),
        k.is_never(),
        k.is_collection(),
        k.contains_any_defined(),
        k.contains_primitive(),
        k.contains_bytes(),
        k.contains_integer(),
        k.contains_float(),
        k.contains_boolean(),
        k.contains_timestamp(),
        k.contains_regex(),
        k.contains_null(),
        k.contains_undefined(),
        k.contains_array(),
        k.contains_object(),
        k.is_bytes(),
        k.is_integer(),
        k.is_float(),
        k.is_boolean(),
        k.is_timestamp(),
        k.is_regex(),
        k.is_null(),
        k.is_undefined(),
        k.is_array(),
        k.is_object(),
    ];
    fl.iter().map(|x| b(*x)).collect::<String>()
}

fn opt_n(x: Option<usize>) -> String {
    x.map_or("none".into(), |n| n.to_string())
}

/// array-collection facts: largest_known_index min_length exact_length is_empty(A/M/N) is_any
fn colinfo(k: &Kind) -> String {
    let mut out = Vec::new();
    match k.as_array() {
        None => out.push("_".to_string()),
        Some(a) => out.push(format!(
            "{} {} {} {:?} {} {}",
            opt_n(a.largest_known_index()),
            a.min_length(),
            opt_n(a.exact_length()),
            a.is_empty(),
            b(a.is_any()),
            b(a.is_unknown_exact())
        )),
    }
    match k.as_object() {
        None => out.push("_".to_string()),
        Some(a) => out.push(format!("{:?} {} {}", a.is_empty(), b(a.is_any()), b(a.is_unknown_exact()))),
    }
    out.join(" / ")
}

pub fn exec(op: &str, a: &[String]) -> Option<Reply> {
    match (op, a) {
        ("kind.of", [v]) => Some(Reply::plain(show_kind(&Kind::from(&parse_value(v)?)))),
        ("kind.at", [k, p]) => Some(Reply::plain(ok_kind(k_at(&parse_kind(k)?, &parse_path(p)?)))),
        ("kind.get", [k, p]) => Some(Reply::plain(ok_kind(k_get(&parse_kind(k)?, &parse_path(p)?)))),
        ("kind.insert", [k, p, x]) => {
            Some(Reply::plain(ok_kind(k_insert(&parse_kind(k)?, &parse_path(p)?, &parse_kind(x)?))))
        }
        ("kind.set", [k, p, x]) => Some(Reply::plain(ok_kind(k_set(&parse_kind(k)?, &parse_path(p)?, &parse_kind(x)?)))),
        ("kind.remove", [k, p, c]) => Some(Reply::plain(match k_remove(&parse_kind(k)?, &parse_path(p)?, pb(c)?) {
            Ok((k2, r)) => format!("ok\t{}\t{}", show_kind(&k2), show_kind(&r)),
            Err(_) => "panic".into(),
        })),
        ("kind.union", [x, y]) => {
            let (x, y) = (parse_kind(x)?, parse_kind(y)?);
            Some(Reply::plain(show_kind(&x.union(y))))
        }
        ("kind.merge", [x, y, ow]) => {
            let (mut x, y, ow) = (parse_kind(x)?, parse_kind(y)?, pb(ow)?);
            x.merge(y, strategy(ow));
            Some(Reply::plain(show_kind(&x)))
        }
        ("kind.superset", [x, y]) => {
            let (x, y) = (parse_kind(x)?, parse_kind(y)?);
            Some(Reply::plain(if x.is_superset(&y).is_ok() { "ok" } else { "err" }))
        }
        ("kind.intersects", [x, y]) => {
            let (x, y) = (parse_kind(x)?, parse_kind(y)?);
            Some(Reply::plain(b(x.intersects(&y))))
        }
        ("kind.eq", [x, y]) => {
            let (x, y) = (parse_kind(x)?, parse_kind(y)?);
            Some(Reply::plain(b(x == y)))
        }
        ("kind.canon", [k]) => Some(Reply::plain(show_kind(&parse_kind(k)?.canonicalize()))),
        ("kind.preds", [k]) => Some(Reply::plain(preds(&parse_kind(k)?))),
        ("kind.colinfo", [k]) => Some(Reply::plain(colinfo(&parse_kind(k)?))),
        ("kind.upgrade", [k]) => Some(Reply::plain(show_kind(&parse_kind(k)?.upgrade_undefined()))),
        ("kind.prims", [k]) => Some(Reply::plain(show_kind(&parse_kind(k)?.to_primitives()))),
        // reduced_kind of the array and of the object collection
        ("kind.reduced", [k]) => {
            let k = parse_kind(k)?;
            let a = k.as_array().map_or("_".to_string(), |c| show_kind(&c.reduced_kind()));
            let o = k.as_object().map_or("_".to_string(), |c| show_kind(&c.reduced_kind()));
            Some(Reply::plain(format!("{a}\t{o}")))
        }
        // anonymize both collections in place
        ("kind.anon", [k]) => {
            let mut k = parse_kind(k)?;
            if let Some(c) = k.as_array_mut() {
                c.anonymize();
            }
            if let Some(c) = k.as_object_mut() {
                c.anonymize();
            }
            Some(Reply::plain(show_kind(&k)))
        }
        _ => exec_oracle(op, a),
    }
}

fn ok_kind1(r: Result<Kind, String>) -> String {
    match r {
        Ok(k) => show_kind(&k),
        Err(_) => "panic".into(),
    }
}
fn ok_err(x: bool) -> String {
    if x { "ok".into() } else { "err".into() }
}

/// oracle ops: observations made on the implementation, judged by the Lean Spec predicate `mem`.
fn exec_oracle(op: &str, a: &[String]) -> Option<Reply> {
    match (op, a) {
        ("o.c19.of", [v]) => {
            let v = parse_value(v)?;
            let k = Kind::from(&v);
            Some(Reply::oracle(vec![show_kind(&k), ok_err(k.is_superset(&k).is_ok())]))
        }
        ("o.c19.at", [v, k, p]) => {
            let (v, k, p) = (parse_value(v)?, parse_kind(k)?, parse_path(p)?);
            Some(Reply::oracle(vec![show_opt(v.get(&p)), ok_kind1(k_at(&k, &p)), ok_kind1(k_get(&k, &p))]))
        }
        ("o.c19.insert", [v, k, p, x, xk]) => {
            let (v, k, p, x, xk) = (parse_value(v)?, parse_kind(k)?, parse_path(p)?, parse_value(x)?, parse_kind(xk)?);
            let v2 = {
                let (v, p, x) = (v.clone(), p.clone(), x.clone());
                guarded(move || {
                    let mut v2 = v;
                    v2.insert(&p, x);
                    v2
                })
            };
            let v2 = match v2 {
                Ok(v2) => show_value(&v2),
                Err(_) => "panic".into(),
            };
            Some(Reply::oracle(vec![v2, ok_kind1(k_insert(&k, &p, &xk))]))
        }
        ("o.c19.remove", [v, k, p, c]) => {
            let (v, k, p, c) = (parse_value(v)?, parse_kind(k)?, parse_path(p)?, pb(c)?);
            let mut v2 = v.clone();
            let removed = v2.remove(&p, c);
            let (k2, r) = match k_remove(&k, &p, c) {
                Ok((k2, r)) => (show_kind(&k2), show_kind(&r)),
                Err(_) => ("panic".to_string(), "panic".to_string()),
            };
            Some(Reply::oracle(vec![show_opt(removed.as_ref()), show_value(&v2), k2, r]))
        }
        ("o.c19.union", [v, x, y]) => {
            let (_v, x, y) = (parse_value(v)?, parse_kind(x)?, parse_kind(y)?);
            Some(Reply::oracle(vec![show_kind(&x.union(y))]))
        }
        // run-time `a | b` (shallow object merge) against `merge(Strategy::Overwrite)`
        ("o.c19.merge", [va, ka, vb, kb]) => {
            let (va, ka, vb, kb) = (parse_value(va)?, parse_kind(ka)?, parse_value(vb)?, parse_kind(kb)?);
            let m = match va.try_merge(vb) {
                Ok(m) => show_value(&m),
                Err(_) => "err".to_string(),
            };
            let mut k = ka;
            k.merge(kb, strategy(true));
            Some(Reply::oracle(vec![m, show_kind(&k)]))
        }
        ("o.c19.superset", [v, x, y]) => {
            let (_v, x, y) = (parse_value(v)?, parse_kind(x)?, parse_kind(y)?);
            Some(Reply::oracle(vec![ok_err(x.is_superset(&y).is_ok())]))
        }
        ("o.c19.memsup", [v, k]) => {
            let (v, k) = (parse_value(v)?, parse_kind(k)?);
            Some(Reply::oracle(vec![ok_err(k.is_superset(&Kind::from(&v)).is_ok())]))
        }
        ("o.c19.canon", [v, k]) => {
            let (_v, k) = (parse_value(v)?, parse_kind(k)?);
            let c = k.canonicalize();
            Some(Reply::oracle(vec![show_kind(&c), b(c == k).to_string()]))
        }
        _ => None,
    }
}

// ---------------------------------------------------------------------------------------------
// generators

const FIELDS: &[&str] = &["a", "b", "c", "é", ""];

fn prim_kind(i: u64) -> Kind {
    match i {
        0 => Kind::bytes(),
        1 => Kind::integer(),
        2 => Kind::float(),
        3 => Kind::boolean(),
        4 => Kind::timestamp(),
        5 => Kind::regex(),
        6 => Kind::null(),
        _ => Kind::undefined(),
    }
}

fn gen_prims(rng: &mut Rng) -> Kind {
    let mut k = Kind::never();
    for _ in 0..=rng.below(3) {
        k = k.union(prim_kind(rng.below(8)));
    }
    k
}

fn gen_unknown_kind(rng: &mut Rng, depth: u32) -> Kind {
    match rng.below(8) {
        0 | 1 => Kind::undefined(),
        2 => Kind::any(),
        3 => Kind::json().or_undefined(),
        4 => gen_prims(rng),
        5 => Kind::never(),
        _ => gen_kind(rng, depth.saturating_sub(1)),
    }
}

fn gen_col_field(rng: &mut Rng, depth: u32) -> Collection<Field> {
    let mut known = BTreeMap::new();
    for _ in 0..rng.below(4) {
        let mut k = gen_kind(rng, depth.saturating_sub(1));
        if rng.chance(1, 4) {
            k = k.or_undefined();
        }
        known.insert(Field::from(*rng.pick(FIELDS)), k);
    }
    match rng.below(6) {
        0 => Collection::from(known),
        1 if known.is_empty() => Collection::any(),
        2 if known.is_empty() => Collection::json(),
        _ => Collection::from_parts(known, gen_unknown_kind(rng, depth)),
    }
}

fn gen_col_index(rng: &mut Rng, depth: u32) -> Collection<Index> {
    let mut known = BTreeMap::new();
    let n = rng.below(4) as usize;
    let gap = rng.chance(1, 6);
    for i in 0..n {
        let mut k = gen_kind(rng, depth.saturating_sub(1));
        if rng.chance(1, 5) {
            k = k.or_undefined();
        }
        let idx = if gap && i + 1 == n { i + 1 + rng.below(2) as usize } else { i };
        known.insert(Index::from(idx), k);
    }
    match rng.below(6) {
        0 | 1 => Collection::from(known),
        _ => Collection::from_parts(known, gen_unknown_kind(rng, depth)),
    }
}

/// kinds built by the public constructors the compiler and the stdlib use.
pub fn gen_kind(rng: &mut Rng, depth: u32) -> Kind {
    let top = if depth == 0 { 9 } else { 20 };
    match rng.below(top) {
        0 => Kind::any(),
        1 => Kind::json(),
        2 => Kind::never(),
        3..=6 => prim_kind(rng.below(8)),
        7 | 8 => gen_prims(rng),
        9..=11 => Kind::object(gen_col_field(rng, depth)),
        12..=14 => Kind::array(gen_col_index(rng, depth)),
        15 => gen_kind(rng, depth - 1).union(gen_kind(rng, depth - 1)),
        16 => {
            let mut k = gen_prims(rng);
            if rng.chance(2, 3) {
                k = k.or_object(gen_col_field(rng, depth));
            }
            if rng.chance(2, 3) {
                k = k.or_array(gen_col_index(rng, depth));
            }
            k
        }
        17 => Kind::from(&gen_value(rng, depth.min(2), FIELDS)),
        18 => {
            // union of two arrays / objects of different shape (approximations with optional entries)
            if rng.chance(1, 2) {
                Kind::array(gen_col_index(rng, depth)).union(Kind::array(gen_col_index(rng, depth)))
            } else {
                Kind::object(gen_col_field(rng, depth)).union(Kind::object(gen_col_field(rng, depth)))
            }
        }
        _ => {
            // the result of an operation
            let k = gen_kind(rng, depth - 1);
            let p = gen_kpath(rng, &k, None, 2);
            let x = gen_kind(rng, depth - 1);
            let r = if rng.chance(1, 2) {
                k_insert(&k, &p, &x).ok()
            } else {
                k_remove(&k, &p, rng.chance(1, 2)).ok().map(|x| x.0)
            };
            match r {
                Some(r) if parse_kind(&show_kind(&r)).is_some() => r,
                _ => k,
            }
        }
    }
}

fn small_index(rng: &mut Rng) -> isize {
    match rng.below(10) {
        0..=5 => rng.range(-3, 3) as isize,
        6 => 0,
        7 => -1,
        _ => rng.range(-6, 6) as isize,
    }
}

/// a path that mostly follows the structure of the kind (and of the value, if given).
pub fn gen_kpath(rng: &mut Rng, k: &Kind, v: Option<&Value>, max_len: usize) -> OwnedValuePath {
    let mut segs = Vec::new();
    let mut kcur = k.clone();
    let mut vcur: Option<Value> = v.cloned();
    let len = rng.below(max_len as u64 + 1) as usize;
    for _ in 0..len {
        let mut cands: Vec<OwnedSegment> = Vec::new();
        if let Some(Value::Object(m)) = &vcur {
            for key in m.keys() {
                cands.push(OwnedSegment::Field(key.clone()));
            }
        }
        if let Some(Value::Array(a)) = &vcur {
            let n = a.len() as i64;
            for _ in 0..2 {
                cands.push(OwnedSegment::Index(rng.range(-n - 1, n) as isize));
            }
        }
        if !kcur.is_never() {
            if let Some(o) = kcur.as_object() {
                for key in o.known().keys() {
                    cands.push(OwnedSegment::Field(key.as_str().into()));
                }
            }
            if let Some(a) = kcur.as_array() {
                let n = a.known().keys().map(|i| i.to_usize()).max().map_or(0, |m| m as i64 + 1);
                for _ in 0..2 {
                    cands.push(OwnedSegment::Index(rng.range(-n - 1, n + 1) as isize));
                }
            }
        }
        let seg = if !cands.is_empty() && rng.chance(4, 5) {
            rng.pick(&cands).clone()
        } else if rng.chance(1, 2) {
            OwnedSegment::Field((*rng.pick(FIELDS)).into())
        } else {
            OwnedSegment::Index(small_index(rng))
        };
        let one = OwnedValuePath { segments: vec![seg.clone()] };
        vcur = vcur.as_ref().and_then(|v| v.get(&one).cloned());
        kcur = k_at(&kcur, &one).unwrap_or_else(|_| Kind::never());
        segs.push(seg);
    }
    OwnedValuePath { segments: segs }
}

fn scalar_of(rng: &mut Rng, k: &Kind) -> Option<Value> {
    if k.is_never() {
        return None;
    }
    let mut c: Vec<u8> = Vec::new();
    if k.contains_bytes() { c.push(0) }
    if k.contains_integer() { c.push(1) }
    if k.contains_float() { c.push(2) }
    if k.contains_boolean() { c.push(3) }
    if k.contains_timestamp() { c.push(4) }
    if k.contains_regex() { c.push(5) }
    if k.contains_null() { c.push(6) }
    if c.is_empty() {
        return None;
    }
    Some(match *rng.pick(&c) {
        0 => Value::Bytes(gen_bytes(rng).into()),
        1 => Value::Integer(rng.range(-5, 5)),
        2 => Value::Float(ordered_float::NotNan::new(rng.range(-8, 8) as f64 / 4.0).unwrap()),
        3 => Value::Boolean(rng.chance(1, 2)),
        4 => Value::Timestamp(chrono::DateTime::from_timestamp(rng.range(0, 2_000_000_000), 0).unwrap()),
        5 => Value::Regex(vrl::value::ValueRegex::new(std::sync::Arc::new(regex::Regex::new("a+").unwrap()))),
        _ => Value::Null,
    })
}

/// a value that inhabits `k` (by construction; the oracle re-checks membership with the Spec `mem`).
pub fn gen_member(rng: &mut Rng, k: &Kind, depth: u32) -> Option<Value> {
    if k.is_never() {
        return None;
    }
    let mut alts: Vec<u8> = Vec::new();
    if k.contains_primitive() && scalar_of(&mut rng.clone(), k).is_some() {
        alts.push(0);
    }
    if k.as_array().is_some() {
        alts.push(1);
        alts.push(1);
    }
    if k.as_object().is_some() {
        alts.push(2);
        alts.push(2);
    }
    if alts.is_empty() {
        return None;
    }
    match *rng.pick(&alts) {
        0 => scalar_of(rng, k),
        1 => {
            let a = k.as_array().unwrap();
            let required = a
                .known()
                .iter()
                .filter(|(_, kk)| !kk.contains_undefined() || kk.is_never())
                .map(|(i, _)| i.to_usize() + 1)
                .max()
                .unwrap_or(0);
            let maxk = a.known().keys().map(|i| i.to_usize() + 1).max().unwrap_or(0);
            let unk = a.unknown_kind().without_undefined();
            let has_unk = a.unknown_kind().contains_any_defined();
            let hi = if has_unk && depth > 0 { maxk.max(required) + 2 } else { maxk.max(required) };
            let mut len = required + rng.below((hi - required) as u64 + 1) as usize;
            let mut out = Vec::new();
            for i in 0..len {
                let ek = match a.known().get(&Index::from(i)) {
                    Some(kk) => kk.clone(),
                    None => {
                        if !has_unk {
                            len = i;
                            break;
                        }
                        unk.clone()
                    }
                };
                match gen_member(rng, &ek, depth.saturating_sub(1)) {
                    Some(x) => out.push(x),
                    None => {
                        if i < required {
                            return None;
                        }
                        break;
                    }
                }
            }
            let _ = len;
            if out.len() < required {
                return None;
            }
            Some(Value::Array(out))
        }
        _ => {
            let o = k.as_object().unwrap();
            let mut m = ObjectMap::new();
            for (f, kk) in o.known() {
                let optional = kk.contains_undefined() && !kk.is_never();
                if optional && rng.chance(1, 2) {
                    continue;
                }
                match gen_member(rng, kk, depth.saturating_sub(1)) {
                    Some(x) => {
                        m.insert(f.as_str().into(), x);
                    }
                    None => {
                        if !optional {
                            return None;
                        }
                    }
                }
            }
            if o.unknown_kind().contains_any_defined() && depth > 0 {
                let unk = o.unknown_kind().without_undefined();
                for _ in 0..rng.below(3) {
                    let f = *rng.pick(&["a", "b", "c", "é", "", "u", "w"]);
                    if o.known().contains_key(&Field::from(f)) {
                        continue;
                    }
                    if let Some(x) = gen_member(rng, &unk, depth.saturating_sub(1)) {
                        m.insert(f.into(), x);
                    }
                }
            }
            Some(Value::Object(m))
        }
    }
}

/// a value for `k`: a member by construction (most of the time), otherwise a random value.
fn gen_value_for(rng: &mut Rng, k: &Kind, sink: &mut Sink) -> Value {
    if rng.chance(5, 6) {
        if let Some(v) = gen_member(rng, k, 3) {
            sink.count("c19:value_member_by_construction");
            return v;
        }
    }
    sink.count("c19:value_random");
    gen_value(rng, 2, FIELDS)
}

fn emit_kind_case(sink: &mut Sink, rng: &mut Rng) {
    let depth = rng.below(4) as u32;
    let k = gen_kind(rng, depth);
    let sk = show_kind(&k);
    if parse_kind(&sk).is_none() {
        sink.count("c19:kind_not_constructible");
        return;
    }
    sink.count(&format!("c19:kind_depth_{depth}"));
    let v = gen_value_for(rng, &k, sink);
    let sv = show_value(&v);
    let p = gen_kpath(rng, &k, Some(&v), 4);
    let sp = show_path(&p);
    let xd = rng.below(3) as u32;
    let xk = gen_kind(rng, xd);
    let sxk = show_kind(&xk);
    if parse_kind(&sxk).is_none() {
        return;
    }
    let x = gen_value_for(rng, &xk, sink);
    let sx = show_value(&x);
    let compact = rng.chance(1, 2);
    let c = b(compact).to_string();
    // correspondence
    sink.emit("kind.of", &[sv.clone()]);
    sink.emit("kind.at", &[sk.clone(), sp.clone()]);
    sink.emit("kind.get", &[sk.clone(), sp.clone()]);
    sink.emit("kind.insert", &[sk.clone(), sp.clone(), sxk.clone()]);
    if rng.chance(1, 3) {
        sink.emit("kind.set", &[sk.clone(), sp.clone(), sxk.clone()]);
    }
    sink.emit("kind.remove", &[sk.clone(), sp.clone(), c.clone()]);
    sink.emit("kind.canon", &[sk.clone()]);
    sink.emit("kind.preds", &[sk.clone()]);
    sink.emit("kind.colinfo", &[sk.clone()]);
    sink.emit("kind.reduced", &[sk.clone()]);
    sink.emit("kind.anon", &[sk.clone()]);
    if rng.chance(1, 4) {
        sink.emit("kind.upgrade", &[sk.clone()]);
        sink.emit("kind.prims", &[sk.clone()]);
    }
    // oracle
    sink.emit("o.c19.of", &[sv.clone()]);
    sink.emit("o.c19.at", &[sv.clone(), sk.clone(), sp.clone()]);
    sink.emit("o.c19.insert", &[sv.clone(), sk.clone(), sp.clone(), sx.clone(), sxk.clone()]);
    sink.emit("o.c19.remove", &[sv.clone(), sk.clone(), sp.clone(), c]);
    sink.emit("o.c19.memsup", &[sv.clone(), sk.clone()]);
    sink.emit("o.c19.canon", &[sv.clone(), sk.clone()]);
    if p.segments.iter().any(|s| matches!(s, OwnedSegment::Index(i) if *i < 0)) {
        sink.count("c19:path_has_negative_index");
    }
    if p.segments.is_empty() {
        sink.count("c19:path_root");
    }
}

fn emit_pair_case(sink: &mut Sink, rng: &mut Rng) {
    let d = rng.below(4) as u32;
    let a = gen_kind(rng, d);
    // second kind: independent, or related to the first (so that superset/eq are not trivially false)
    let bk = match rng.below(6) {
        0 => a.clone(),
        1 => gen_member(rng, &a, 3).map_or_else(|| gen_kind(rng, d), |v| Kind::from(&v)),
        2 => a.union(gen_kind(rng, d)),
        3 => a.canonicalize(),
        _ => {
            let d2 = rng.below(4) as u32;
            gen_kind(rng, d2)
        }
    };
    let (a, bk) = if rng.chance(1, 3) { (bk, a) } else { (a, bk) };
    let (sa, sb) = (show_kind(&a), show_kind(&bk));
    if parse_kind(&sa).is_none() || parse_kind(&sb).is_none() {
        sink.count("c19:kind_not_constructible");
        return;
    }
    sink.emit("kind.union", &[sa.clone(), sb.clone()]);
    sink.emit("kind.merge", &[sa.clone(), sb.clone(), "0".into()]);
    sink.emit("kind.merge", &[sa.clone(), sb.clone(), "1".into()]);
    sink.emit("kind.superset", &[sa.clone(), sb.clone()]);
    sink.emit("kind.intersects", &[sa.clone(), sb.clone()]);
    sink.emit("kind.eq", &[sa.clone(), sb.clone()]);
    let v = if rng.chance(1, 2) { gen_value_for(rng, &a, sink) } else { gen_value_for(rng, &bk, sink) };
    let sv = show_value(&v);
    sink.emit("o.c19.union", &[sv.clone(), sa.clone(), sb.clone()]);
    sink.emit("o.c19.superset", &[sv, sa, sb]);
}

fn emit_merge_case(sink: &mut Sink, rng: &mut Rng) {
    // object kinds (possibly with other states) and object members
    let mk = |rng: &mut Rng| {
        let d = 1 + rng.below(3) as u32;
        let mut k = Kind::object(gen_col_field(rng, d));
        if rng.chance(1, 5) {
            k = k.union(gen_prims(rng));
        }
        if rng.chance(1, 6) {
            k = k.union(Kind::object(gen_col_field(rng, d)));
        }
        k
    };
    let (ka, kb) = (mk(rng), mk(rng));
    let (sa, sb) = (show_kind(&ka), show_kind(&kb));
    if parse_kind(&sa).is_none() || parse_kind(&sb).is_none() {
        return;
    }
    let member_obj = |rng: &mut Rng, k: &Kind| {
        for _ in 0..4 {
            if let Some(v @ Value::Object(_)) = gen_member(rng, k, 3) {
                return Some(v);
            }
        }
        None
    };
    let (Some(va), Some(vb)) = (member_obj(rng, &ka), member_obj(rng, &kb)) else {
        sink.count("c19:merge_no_member");
        return;
    };
    sink.emit("kind.merge", &[sa.clone(), sb.clone(), "1".into()]);
    sink.emit("o.c19.merge", &[show_value(&va), sa, show_value(&vb), sb]);
}

pub fn generate(sink: &mut Sink, rng: &mut Rng, n: u64) {
    // fixed edge cases first: the `-index` negation at isize::MIN
    let min = OwnedValuePath { segments: vec![OwnedSegment::Index(isize::MIN)] };
    let amin = OwnedValuePath { segments: vec![OwnedSegment::Field("a".into()), OwnedSegment::Index(isize::MIN)] };
    let arr = Kind::array(Collection::from_unknown(Kind::integer()));
    let obj = Kind::object(BTreeMap::from([(Field::from("a"), arr.clone())]));
    for (k, p) in [(&arr, &min), (&obj, &amin), (&Kind::bytes(), &min), (&Kind::never(), &min), (&Kind::any(), &amin)] {
        let (sk, sp) = (show_kind(k), show_path(p));
        sink.emit("kind.at", &[sk.clone(), sp.clone()]);
        sink.emit("kind.get", &[sk.clone(), sp.clone()]);
        sink.emit("kind.insert", &[sk.clone(), sp.clone(), show_kind(&Kind::integer())]);
        sink.emit("kind.insert", &[sk.clone(), sp.clone(), show_kind(&Kind::never())]);
        sink.emit("kind.remove", &[sk.clone(), sp.clone(), "0".into()]);
    }
    for _ in 0..n {
        emit_kind_case(sink, rng);
        emit_pair_case(sink, rng);
        if rng.chance(1, 2) {
            emit_merge_case(sink, rng);
        }
    }
}
