//! C19 – the type abstraction (`Kind`) is sound for path operations and merging.
//! Correspondence ops `kind.*` (model vs implementation, structural) and oracle ops `o.c19.*`
//! (the implementation's results are handed to the Lean Spec predicate `mem`).
use crate::gens::*;
use crate::kindwire::*;
use crate::rng::Rng;
use crate::sink::{guarded, Reply, Sink};
use crate::wire::*;
use std::collections::BTreeMap;
use vrl::path::{OwnedSegment, OwnedValuePath};
use vrl::value::kind::merge::{CollisionStrategy, Strategy};
use vrl::value::kind::{Collection, Field, Index};
use vrl::value::{Kind, Value};

fn pb(s: &str) -> Option<bool> {
    match s {
        "1" => Some(true),
        "0" => Some(false),
        _ => None,
    }
}
fn b(x: bool) -> &'static str {
    if x { "1" } else { "0" }
}

fn strategy(ow: bool) -> Strategy {
    Strategy { collisions: if ow { CollisionStrategy::Overwrite } else { CollisionStrategy::Union } }
}

fn ok_kind(r: Result<Kind, String>) -> String {
    match r {
        Ok(k) => format!("ok\t{}", show_kind(&k)),
        Err(_) => "panic".into(),
    }
}

fn k_at(k: &Kind, p: &OwnedValuePath) -> Result<Kind, String> {
    let (k, p) = (k.clone(), p.clone());
    guarded(move || k.at_path(&p))
}
fn k_get(k: &Kind, p: &OwnedValuePath) -> Result<Kind, String> {
    let (k, p) = (k.clone(), p.clone());
    guarded(move || k.get(&p))
}
fn k_insert(k: &Kind, p: &OwnedValuePath, x: &Kind) -> Result<Kind, String> {
    let (mut k, p, x) = (k.clone(), p.clone(), x.clone());
    guarded(move || {
        k.insert(&p, x);
        k
    })
}
fn k_set(k: &Kind, p: &OwnedValuePath, x: &Kind) -> Result<Kind, String> {
    let (mut k, p, x) = (k.clone(), p.clone(), x.clone());
    guarded(move || {
        k.set_at_path(&p, x);
        k
    })
}
fn k_remove(k: &Kind, p: &OwnedValuePath, compact: bool) -> Result<(Kind, Kind), String> {
    let (mut k, p) = (k.clone(), p.clone());
    guarded(move || {
        let removed = k.remove(&p, compact);
        (k, removed)
    })
}

fn preds(k: &Kind) -> String {
    let fl = [
        k.is_any(),
        k.is_json(),
        k.is_exact(),
        k.is_never(),
        k.is_collection(),
        k.contains_any_defined(),
        k.contains_primitive(),
        k.contains_bytes(),
        k.contains_integer(),
        k.contains_float(),
        k.contains_boolean(),
        k.contains_timestamp(),
        k.contains_regex(),
        k.contains_null(),
        k.contains_undefined(),
        k.contains_array(),
        k.contains_object(),
        k.is_bytes(),
        k.is_integer(),
        k.is_float(),
        k.is_boolean(),
        k.is_timestamp(),
        k.is_regex(),
        k.is_null(),
        k.is_undefined(),
        k.is_array(),
        k.is_object(),
    ];
    fl.iter().map(|x| b(*x)).collect::<String>()
}

fn opt_n(x: Option<usize>) -> String {
    x.map_or("none".into(), |n| n.to_string())
}

/// array-collection facts: largest_known_index min_length exact_length is_empty(A/M/N) is_any
fn colinfo(k: &Kind) -> String {
    let mut out = Vec::new();
    match k.as_array() {
        None => out.push("_".to_string()),
        Some(a) => out.push(format!(
            "{} {} {} {:?} {} {}",
            opt_n(a.largest_known_index()),
            a.min_length(),
            opt_n(a.exact_length()),
            a.is_empty(),
            b(a.is_any()),
            b(a.is_unknown_exact())
        )),
    }
    match k.as_object() {
        None => out.push("_".to_string()),
        Some(a) => out.push(format!("{:?} {} {}", a.is_empty(), b(a.is_any()), b(a.is_unknown_exact()))),
    }
    out.join(" / ")
}

pub fn exec(op: &str, a: &[String]) -> Option<Reply> {
    match (op, a) {
        ("kind.of", [v]) => Some(Reply::plain(show_kind(&Kind::from(&parse_value(v)?)))),
        ("kind.at", [k, p]) => Some(Reply::plain(ok_kind(k_at(&parse_kind(k)?, &parse_path(p)?)))),
        ("kind.get", [k, p]) => Some(Reply::plain(ok_kind(k_get(&parse_kind(k)?, &parse_path(p)?)))),
        ("kind.insert", [k, p, x]) => {
            Some(Reply::plain(ok_kind(k_insert(&parse_kind(k)?, &parse_path(p)?, &parse_kind(x)?))))
        }
        ("kind.set", [k, p, x]) => Some(Reply::plain(ok_kind(k_set(&parse_kind(k)?, &parse_path(p)?, &parse_kind(x)?)))),
        ("kind.remove", [k, p, c]) => Some(Reply::plain(match k_remove(&parse_kind(k)?, &parse_path(p)?, pb(c)?) {
            Ok((k2, r)) => format!("ok\t{}\t{}", show_kind(&k2), show_kind(&r)),
            Err(_) => "panic".into(),
        })),
        ("kind.union", [x, y]) => {
            let (x, y) = (parse_kind(x)?, parse_kind(y)?);
            Some(Reply::plain(show_kind(&x.union(y))))
        }
        ("kind.merge", [x, y, ow]) => {
            let (mut x, y, ow) = (parse_kind(x)?, parse_kind(y)?, pb(ow)?);
            x.merge(y, strategy(ow));
            Some(Reply::plain(show_kind(&x)))
        }
        ("kind.superset", [x, y]) => {
            let (x, y) = (parse_kind(x)?, parse_kind(y)?);
            Some(Reply::plain(if x.is_superset(&y).is_ok() { "ok" } else { "err" }))
        }
        ("kind.intersects", [x, y]) => {
            let (x, y) = (parse_kind(x)?, parse_kind(y)?);
            Some(Reply::plain(b(x.intersects(&y))))
        }
        ("kind.eq", [x, y]) => {
            let (x, y) = (parse_kind(x)?, parse_kind(y)?);
            Some(Reply::plain(b(x == y)))
        }
        ("kind.canon", [k]) => Some(Reply::plain(show_kind(&parse_kind(k)?.canonicalize()))),
        ("kind.preds", [k]) => Some(Reply::plain(preds(&parse_kind(k)?))),
        ("kind.colinfo", [k]) => Some(Reply::plain(colinfo(&parse_kind(k)?))),
        ("kind.upgrade", [k]) => Some(Reply::plain(show_kind(&parse_kind(k)?.upgrade_undefined()))),
        ("kind.prims", [k]) => Some(Reply::plain(show_kind(&parse_kind(k)?.to_primitives()))),
        // reduced_kind of the array and of the object collection
        ("kind.reduced", [k]) => {
            let k = parse_kind(k)?;
            let a = k.as_array().map_or("_".to_string(), |c| show_kind(&c.reduced_kind()));
            let o = k.as_object().map_or("_".to_string(), |c| show_kind(&c.reduced_kind()));
            Some(Reply::plain(format!("{a}\t{o}")))
        }
        // anonymize both collections in place
        ("kind.anon", [k]) => {
            let mut k = parse_kind(k)?;
            if let Some(c) = k.as_array_mut() {
                c.anonymize();
            }
            if let Some(c) = k.as_object_mut() {
                c.anonymize();
            }
            Some(Reply::plain(show_kind(&k)))
        }
        _ => None,
    }
}

pub fn generate(_sink: &mut Sink, _rng: &mut Rng, _n: u64) {}
