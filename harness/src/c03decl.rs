//! C03 – correspondence of the Lean signature model (lean/VrlModel/C03.lean) with the real compiler
//! and the real functions, for the MODELLED stdlib functions.
//!
//! A call is given structurally: `<fname>` and one field per argument `"<keyword> <L|R> <value>"`
//! (`L` = the value is written as a literal in the source, `R` = runtime-typed: the source says
//! `.p<i>` (i = parameter position) and the value sits in the event). The harness prints the source
//! text from that description (`call_source`), so every case is re-executable from op + inputs.
//!
//!   c03.sig  <fname>           -> `<return_kind mask> <keyword>:<kind mask>:<required>…` (reflection)
//!   c03.decl <fname> <arg>…    -> `ok <fallible 0|1> <kind>` (the REAL compiler's TypeDef for the call;
//!                                 fallible = the plain form `f(…)` is rejected and `f!(…)` accepted)
//!                                 | `rejected` (E110: an argument kind cannot match the parameter)
//!   c03.run  <fname> <arg>…    -> `ok <value>` | `err` | `panic` (the call evaluated by the real runtime)
use crate::kindwire::show_kind;
use crate::rng::Rng;
use crate::sink::{guarded, Reply, Sink};
use crate::wire::*;
use ordered_float::NotNan;
use vrl::value::{ObjectMap, Value};

/// functions with a Lean model (`C03.Fn`)
pub const MODELLED: &[&str] = &[
    "string", "int", "float", "bool", "array", "object", "timestamp",
    "is_string", "is_integer", "is_float", "is_boolean", "is_null", "is_array", "is_object", "is_timestamp", "is_regex",
    "is_nullish", "is_empty",
    "length", "strlen", "push", "pop", "append",
    "to_int", "to_float", "to_bool", "to_string",
    "upcase", "downcase", "strip_whitespace", "starts_with", "ends_with", "contains", "truncate", "slice", "split", "join",
    "abs", "mod", "floor", "ceil", "round", "format_int", "parse_int", "parse_float",
    "encode_base64", "decode_base64", "encode_base16", "decode_base16", "encode_json",
    "keys", "values", "flatten", "compact", "unique", "to_entries", "from_entries", "unflatten", "merge",
];

#[derive(Clone)]
pub struct ArgSpec {
    pub keyword: String,
    pub literal: bool,
    pub value: Value,
}

pub fn show_arg(a: &ArgSpec) -> String {
    format!("{} {} {}", a.keyword, if a.literal { "L" } else { "R" }, show_value(&a.value))
}

fn parse_arg(s: &str) -> Option<ArgSpec> {
    let mut it = s.splitn(3, ' ');
    let keyword = it.next()?.to_string();
    let literal = match it.next()? {
        "L" => true,
        "R" => false,
        _ => return None,
    };
    Some(ArgSpec { keyword, literal, value: parse_value(it.next()?)? })
}

fn string_literal(s: &str) -> Option<String> {
    let mut out = String::from("\"");
    for c in s.chars() {
        match c {
            '\\' => out.push_str("\\\\"),
            '"' => out.push_str("\\\""),
            '\n' => out.push_str("\\n"),
            '\r' => out.push_str("\\r"),
            '\t' => out.push_str("\\t"),
            '\0' => out.push_str("\\0"),
            '{' => out.push_str("\\{"),
            '}' => out.push_str("\\}"),
            c if c.is_control() => return None,
            c => out.push(c),
        }
    }
    out.push('"');
    Some(out)
}

/// VRL source text of a literal that evaluates to `v` (`None`: not expressible as a literal).
pub fn vrl_literal(v: &Value) -> Option<String> {
    Some(match v {
        Value::Null => "null".into(),
        Value::Boolean(b) => b.to_string(),
        Value::Integer(i) if *i == i64::MIN => return None,
        Value::Integer(i) => i.to_string(),
        Value::Float(f) => {
            let f = f.into_inner();
            if !f.is_finite() {
                return None;
            }
            let s = format!("{f}");
            if s.len() > 40 {
                return None;
            }
            if s.contains('.') { s } else { format!("{s}.0") }
        }
        Value::Bytes(b) => string_literal(std::str::from_utf8(b).ok()?)?,
        Value::Timestamp(t) => format!("t'{}'", t.to_rfc3339_opts(chrono::SecondsFormat::AutoSi, true)),
        Value::Regex(r) => {
            let s = r.as_str();
            if s.contains('\'') || s.contains('\\') && s.ends_with('\\') {
                return None;
            }
            format!("r'{s}'")
        }
        Value::Array(a) => {
            let items: Option<Vec<String>> = a.iter().map(vrl_literal).collect();
            format!("[{}]", items?.join(", "))
        }
        Value::Object(m) => {
            let items: Option<Vec<String>> = m.iter().map(|(k, x)| Some(format!("{}: {}", string_literal(k.as_str())?, vrl_literal(x)?))).collect();
            format!("{{{}}}", items?.join(", "))
        }
    })
}

/// does the literal text evaluate to exactly `v` on the real implementation?
fn literal_ok(text: &str, v: &Value) -> bool {
    match crate::vrlrun::run_vrl(text, Value::Object(ObjectMap::new())) {
        Ok(x) => show_value(&x) == show_value(v),
        Err(_) => false,
    }
}

/// argument text + event of a structural call (`None`: unknown keyword / inexpressible literal)
pub fn call_source(f: &dyn vrl::compiler::Function, args: &[ArgSpec]) -> Option<(String, Value)> {
    let mut event = ObjectMap::new();
    let mut parts = Vec::new();
    // the aligned prefix is written positionally, everything after the first deviation by keyword
    let mut positional = true;
    for (j, a) in args.iter().enumerate() {
        let pos = f.parameters().iter().position(|p| p.keyword == a.keyword)?;
        let text = if a.literal {
            let t = vrl_literal(&a.value)?;
            if !literal_ok(&t, &a.value) {
                return None;
            }
            t
        } else {
            if matches!(a.value, Value::Regex(_)) {
                return None;
            }
            let key = format!("p{pos}");
            event.insert(key.clone().into(), a.value.clone());
            format!(".{key}")
        };
        positional = positional && pos == j;
        if positional { parts.push(text) } else { parts.push(format!("{}: {}", a.keyword, text)) }
    }
    Some((parts.join(", "), Value::Object(event)))
}

enum Compiled {
    Ok { fallible: bool, src: String, kind: String },
    Rejected(Vec<usize>),
}

fn compile_call(fname: &str, argtext: &str) -> Option<Compiled> {
    let mut codes = Vec::new();
    for (fallible, bang) in [(false, ""), (true, "!")] {
        let src = format!("{fname}{bang}({argtext})");
        let c = src.clone();
        let r = guarded(move || match vrl::compiler::compile(&c, &vrl::stdlib::all()) {
            Ok(res) => Ok(show_kind(res.program.final_type_info().result.kind())),
            Err(d) => {
                if std::env::var("VERIF_C03_DEBUG").is_ok() {
                    eprintln!("{c}: {:?}", d.iter().map(|d| format!("E{} {}", d.code, d.message)).collect::<Vec<_>>());
                }
                Err(d.iter().map(|d| d.code).collect::<Vec<_>>())
            }
        })
        .ok()?;
        match r {
            Ok(kind) => return Some(Compiled::Ok { fallible, src, kind }),
            Err(c) => codes = c,
        }
    }
    Some(Compiled::Rejected(codes))
}

fn find_fn(name: &str) -> Option<Box<dyn vrl::compiler::Function>> {
    vrl::stdlib::all().into_iter().find(|f| f.identifier() == name)
}

pub fn exec(op: &str, a: &[String]) -> Option<Reply> {
    match op {
        "c03.sig" => {
            let f = find_fn(a.first()?)?;
            let mut s = f.return_kind().to_string();
            for p in f.parameters() {
                s.push_str(&format!(" {}:{}:{}", p.keyword, p.kind, u8::from(p.required)));
            }
            Some(Reply::plain(s))
        }
        "c03.decl" | "c03.run" => {
            let fname = a.first()?;
            let f = find_fn(fname)?;
            let args: Option<Vec<ArgSpec>> = a[1..].iter().map(|s| parse_arg(s)).collect();
            let (argtext, event) = call_source(f.as_ref(), &args?)?;
            let c = compile_call(fname, &argtext)?;
            if op == "c03.decl" {
                return Some(Reply::plain(match c {
                    Compiled::Ok { fallible, kind, .. } => format!("ok {} {kind}", u8::from(fallible)),
                    Compiled::Rejected(codes) if codes.contains(&110) => "rejected".to_string(),
                    Compiled::Rejected(codes) => format!("rejected-other {codes:?}"),
                }));
            }
            let Compiled::Ok { src, .. } = c else { return Some(Reply::plain("rejected")) };
            let r = guarded(move || crate::vrlrun::run_vrl(&src, event));
            Some(Reply::plain(match r {
                Ok(Ok(v)) => format!("ok {}", show_value(&v)),
                Ok(Err(_)) => "err".to_string(),
                Err(_) => "panic".to_string(),
            }))
        }
        _ => None,
    }
}

// ---------------------------------------------------------------------------------------------
// generator

const K_BYTES: u16 = 1 << 1;
const K_INTEGER: u16 = 1 << 2;
const K_FLOAT: u16 = 1 << 3;
const K_BOOLEAN: u16 = 1 << 4;
const K_OBJECT: u16 = 1 << 5;
const K_ARRAY: u16 = 1 << 6;
const K_TIMESTAMP: u16 = 1 << 7;
const K_REGEX: u16 = 1 << 8;
const K_NULL: u16 = 1 << 9;
const ALL_KINDS: [u16; 9] = [K_BYTES, K_INTEGER, K_FLOAT, K_BOOLEAN, K_OBJECT, K_ARRAY, K_TIMESTAMP, K_REGEX, K_NULL];

fn fl(x: f64) -> Value {
    Value::Float(NotNan::new(x).unwrap())
}

fn bytes_pool(rng: &mut Rng) -> Value {
    const POOL: &[&str] = &[
        "", "a", "abc", "ABC def", "12", "-7", "+5", "0x1f", "1.5", "1e3", "inf", "true", "false", "yes", "no", "t", "0", "1",
        "héllo wörld", "💩 ǆ İ ß", "  pad  ", "-", " ", "a,b,c", "a b c", "{\"a\":1}", "[1,2]", "null", "YWJj", "YWJj=", "YQ==", "616263",
        "6g", "url_safe", "standard", ".", "a.b", "9223372036854775808", "zz", "Z", "{{x}}", "q\"q", "back\\slash", "tab\there", "nl\nx",
    ];
    match rng.below(10) {
        0 => Value::Bytes(vec![0xff, 0xfe, 0x00, 0x80].into()),
        1 => Value::Bytes(crate::gens::gen_bytes(rng).into()),
        _ => Value::Bytes((*rng.pick(POOL)).into()),
    }
}

fn int_pool(rng: &mut Rng) -> Value {
    match rng.below(4) {
        0 => Value::Integer(*rng.pick(crate::gens::edge_ints())),
        1 => Value::Integer(*rng.pick(&[2, 8, 10, 16, 36, 37, 1, 0, -1, 64, 100])),
        _ => Value::Integer(rng.range(-4, 6)),
    }
}

fn scalar_of(kind: u16, rng: &mut Rng) -> Value {
    match kind {
        K_BYTES => bytes_pool(rng),
        K_INTEGER => int_pool(rng),
        K_FLOAT => match rng.below(3) {
            0 => fl(*rng.pick(&[0.0, -0.0, 1.5, -2.25, 0.1, 2.5, -2.5, 100.0, 1e300, -1e300, 5e-324, f64::INFINITY, f64::NEG_INFINITY, 123456789.125])),
            _ => fl(crate::gens::gen_float(rng)),
        },
        K_BOOLEAN => Value::Boolean(rng.chance(1, 2)),
        K_TIMESTAMP => Value::Timestamp(
            chrono::DateTime::from_timestamp(*rng.pick(&[0i64, -1, 1, 1_600_000_000, 253_402_300_799, -62_135_596_800, 9_223_372_036, -9_223_372_037]), *rng.pick(&[0u32, 1, 500_000_000, 999_999_999]))
                .unwrap_or_default(),
        ),
        K_REGEX => parse_value(*rng.pick(&["re:61", "re:", "re:5c732b", "re:2e2a", "re:2c"])).unwrap(),
        _ => Value::Null,
    }
}

/// a value of the given kind; containers have elements of known, mixed kinds
fn value_of(kind: u16, rng: &mut Rng, depth: u32) -> Value {
    match kind {
        K_ARRAY => {
            let n = match rng.below(6) {
                0 => 0,
                1 => 1,
                _ => rng.below(5),
            };
            Value::Array((0..n).map(|_| elem(rng, depth)).collect())
        }
        K_OBJECT => {
            let n = match rng.below(5) {
                0 => 0,
                _ => rng.below(4),
            };
            let mut m = ObjectMap::new();
            for _ in 0..n {
                let k = *rng.pick(&["a", "b", "c", "key", "value", "a.b", "", "é", "k v", "a.b.c", "b.0"]);
                m.insert(k.into(), elem(rng, depth));
            }
            Value::Object(m)
        }
        k => scalar_of(k, rng),
    }
}

fn elem(rng: &mut Rng, depth: u32) -> Value {
    let k = if depth == 0 {
        *rng.pick(&[K_BYTES, K_INTEGER, K_FLOAT, K_BOOLEAN, K_NULL, K_TIMESTAMP])
    } else {
        *rng.pick(&[K_BYTES, K_BYTES, K_INTEGER, K_INTEGER, K_FLOAT, K_BOOLEAN, K_NULL, K_TIMESTAMP, K_ARRAY, K_ARRAY, K_OBJECT, K_OBJECT])
    };
    value_of(k, rng, depth.saturating_sub(1))
}

fn kinds_of(mask: u16) -> Vec<u16> {
    ALL_KINDS.into_iter().filter(|k| mask & k != 0).collect()
}

/// one structural call of `f`
fn gen_args(f: &dyn vrl::compiler::Function, rng: &mut Rng) -> Vec<ArgSpec> {
    let mut args = Vec::new();
    for p in f.parameters() {
        if !p.required && rng.chance(1, 2) {
            continue;
        }
        let allowed = kinds_of(p.kind);
        let wrong = rng.chance(1, 10) || allowed.is_empty();
        let kind = if wrong { *rng.pick(&ALL_KINDS) } else { *rng.pick(&allowed) };
        let mut value = value_of(kind, rng, 2);
        // entry-shaped arrays for from_entries, string arrays for join
        if kind == K_ARRAY && rng.chance(1, 2) {
            match f.identifier() {
                "from_entries" => {
                    let n = rng.below(4);
                    value = Value::Array(
                        (0..n)
                            .map(|_| {
                                let mut m = ObjectMap::new();
                                m.insert((*rng.pick(&["key", "Key", "name", "k"])).into(), if rng.chance(4, 5) { bytes_pool(rng) } else { elem(rng, 0) });
                                if rng.chance(4, 5) {
                                    m.insert((*rng.pick(&["value", "Value", "v"])).into(), elem(rng, 1));
                                }
                                Value::Object(m)
                            })
                            .collect(),
                    );
                }
                "join" => value = Value::Array((0..rng.below(4)).map(|_| bytes_pool(rng)).collect()),
                _ => {}
            }
        }
        let mut literal = kind == K_REGEX || rng.chance(3, 5);
        if literal && vrl_literal(&value).is_none() {
            if kind == K_REGEX {
                continue;
            }
            literal = false;
        }
        args.push(ArgSpec { keyword: p.keyword.to_string(), literal, value });
    }
    // occasionally pass the arguments in another order (all but the aligned prefix become named)
    if args.len() > 1 && rng.chance(1, 8) {
        args.reverse();
    }
    args
}

fn emit_call(sink: &mut Sink, fname: &str, args: &[ArgSpec]) -> bool {
    let mut inputs = vec![fname.to_string()];
    inputs.extend(args.iter().map(show_arg));
    match exec("c03.decl", &inputs) {
        None => {
            sink.count("c03decl:inexpressible");
            return false;
        }
        // rejected by a function-specific compile-time check (not an argument-kind question)
        Some(r) if r.reply.starts_with("rejected-other") => {
            sink.count(&format!("c03decl:{fname}:rejected_by_function_compile"));
            return false;
        }
        Some(_) => {}
    }
    let Some(r) = sink.emit("c03.decl", &inputs) else { return false };
    let head = r.reply.split(' ').take(2).collect::<Vec<_>>().join(" ");
    sink.count(&format!("c03decl:{fname}:{head}"));
    sink.count(&format!("c03decl:all:{head}"));
    if r.reply.starts_with("ok") {
        if let Some(r) = sink.emit("c03.run", &inputs) {
            let class = r.reply.split(' ').next().unwrap_or("").to_string();
            sink.count(&format!("c03run:{fname}:{class}"));
            sink.count(&format!("c03run:all:{class}"));
        }
    }
    true
}

fn lit(k: &str, v: &str) -> ArgSpec {
    ArgSpec { keyword: k.into(), literal: true, value: parse_value(v).unwrap() }
}

fn rt(k: &str, v: &str) -> ArgSpec {
    ArgSpec { keyword: k.into(), literal: false, value: parse_value(v).unwrap() }
}

/// fixed edge cases: the witnesses of the Lean file and the shapes the type_defs branch on
fn fixed_cases() -> Vec<(&'static str, Vec<ArgSpec>)> {
    vec![
        ("pop", vec![lit("value", "[ i:1 ]")]),
        ("pop", vec![lit("value", "[ ]")]),
        ("pop", vec![rt("value", "[ i:1 b:61 ]")]),
        ("pop", vec![rt("value", "i:1")]),
        ("slice", vec![lit("value", "[ [ i:1 ] [ i:2 ] ]"), lit("start", "i:1")]),
        ("slice", vec![lit("value", "[ i:1 b:61 ]"), lit("start", "i:1")]),
        ("slice", vec![lit("value", "b:616263"), lit("start", "i:1"), lit("end", "i:-1")]),
        ("slice", vec![rt("value", "b:616263"), rt("start", "i:5")]),
        ("mod", vec![lit("value", "d:3fb999999999999a"), lit("modulus", "i:1")]),
        ("mod", vec![lit("value", "i:5"), lit("modulus", "i:0")]),
        ("mod", vec![lit("value", "i:5"), lit("modulus", "d:0000000000000001")]),
        ("mod", vec![lit("value", "i:5"), rt("modulus", "i:3")]),
        ("mod", vec![lit("value", "i:-9223372036854775807"), lit("modulus", "i:-1")]),
        ("compact", vec![rt("value", "[ ]")]),
        ("compact", vec![lit("value", "[ n i:1 ]")]),
        ("flatten", vec![rt("value", "[ ]")]),
        ("flatten", vec![lit("value", "[ [ i:1 ] ]")]),
        ("from_entries", vec![lit("value", "[ i:1 ]")]),
        ("unflatten", vec![lit("value", "{ k:61 i:1 }"), lit("separator", "b:")]),
        ("encode_base64", vec![lit("value", "b:2e"), lit("charset", "b:")]),
        ("push", vec![lit("value", "[ i:1 ]"), lit("item", "b:61")]),
        ("push", vec![rt("value", "[ i:1 ]"), lit("item", "b:61")]),
        ("push", vec![lit("value", "[ ]"), rt("item", "n")]),
        ("append", vec![lit("value", "[ i:1 ]"), lit("items", "[ b:61 n ]")]),
        ("append", vec![rt("value", "[ i:1 ]"), lit("items", "[ b:61 n ]")]),
        ("values", vec![lit("value", "{ k:61 i:1 k:62 b:78 }")]),
        ("values", vec![lit("value", "{ }")]),
        ("keys", vec![lit("value", "{ k:61 i:1 k:62 b:78 }")]),
        ("array", vec![lit("value", "[ i:1 ]")]),
        ("array", vec![rt("value", "i:1")]),
        ("object", vec![lit("value", "{ k:61 [ n ] }")]),
        ("merge", vec![lit("to", "{ k:61 i:1 }"), lit("from", "{ k:61 b:78 k:62 n }")]),
        ("merge", vec![lit("to", "{ k:61 { k:78 i:1 } }"), lit("from", "{ k:61 { k:79 i:2 } }"), lit("deep", "t")]),
        ("abs", vec![lit("value", "i:-9223372036854775807")]),
        ("abs", vec![rt("value", "i:-9223372036854775808")]),
        ("to_int", vec![lit("value", "b:3132")]),
        ("to_int", vec![lit("value", "n")]),
        ("to_bool", vec![lit("value", "ts:0")]),
        ("string", vec![lit("value", "i:1")]),
        ("string", vec![rt("value", "i:1")]),
        ("upcase", vec![lit("value", "i:1")]),
        ("upcase", vec![rt("value", "i:1")]),
    ]
}

pub fn generate(sink: &mut Sink, rng: &mut Rng, n: u64) {
    let fns = vrl::stdlib::all();
    let mut total = 0;
    for f in &fns {
        total += 1;
        if MODELLED.contains(&f.identifier()) {
            sink.count("c03:functions_modelled");
            sink.emit("c03.sig", &[f.identifier().to_string()]);
        }
    }
    sink.stats.insert("c03:functions_total".into(), total);
    for (fname, args) in fixed_cases() {
        emit_call(sink, fname, &args);
    }
    let per_fn = (n / MODELLED.len() as u64).max(4);
    for f in &fns {
        let name = f.identifier();
        if !MODELLED.contains(&name) {
            continue;
        }
        let mut emitted = 0;
        let mut tries = 0;
        while emitted < per_fn && tries < per_fn * 4 {
            tries += 1;
            let args = gen_args(f.as_ref(), rng);
            if emit_call(sink, name, &args) {
                emitted += 1;
            }
        }
    }
}
