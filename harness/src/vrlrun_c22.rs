//! Run a tiny VRL program with the REAL compiler, stdlib and runtime against an event.
//!
//! `run_vrl(src, event)` compiles `src` with `vrl::compiler::compile` against the full stdlib
//! (compiled programs are cached per source text and thread), resolves it with a fresh `Runtime`
//! on a `TargetValue` whose event is `event`, and returns the program's value. Compile errors,
//! runtime errors/aborts and panics are all mapped to `Err(text)`; panics get the prefix `panic:`.
use crate::sink::guarded;
use std::cell::RefCell;
use std::collections::{BTreeMap, HashMap};
use std::rc::Rc;
use vrl::compiler::{Program, TargetValue, TimeZone, runtime::Runtime};
use vrl::value::{Secrets, Value};

thread_local! {
    static CACHE: RefCell<HashMap<String, Result<Rc<Program>, String>>> = RefCell::new(HashMap::new());
    static FUNCS: Vec<Box<dyn vrl::compiler::Function>> = vrl::stdlib::all();
}

fn compiled(src: &str) -> Result<Rc<Program>, String> {
    if let Some(r) = CACHE.with(|c| c.borrow().get(src).cloned()) {
        return r;
    }
    let owned = src.to_string();
    let r = guarded(move || {
        FUNCS.with(|fns| match vrl::compiler::compile(&owned, fns) {
            Ok(res) => Ok(Rc::new(res.program)),
            Err(diags) => Err(format!(
                "compile: {}",
                diags.iter().map(|d| d.message.clone()).collect::<Vec<_>>().join("; ")
            )),
        })
    })
    .unwrap_or_else(|p| Err(format!("panic: compile: {p}")));
    CACHE.with(|c| c.borrow_mut().insert(src.to_string(), r.clone()));
    r
}

/// Compile and run `src` on `event`; `Err` for compile errors, runtime errors/aborts and panics.
pub fn run_vrl(src: &str, event: Value) -> Result<Value, String> {
    let program = compiled(src)?;
    let r = guarded(std::panic::AssertUnwindSafe(move || {
        let mut target = TargetValue {
            value: event,
            metadata: Value::Object(BTreeMap::new()),
            secrets: Secrets::default(),
        };
        let mut rt = Runtime::default();
        rt.resolve(&mut target, &program, &TimeZone::default()).map_err(|e| format!("runtime: {e}"))
    }));
    match r {
        Ok(v) => v,
        Err(p) => Err(format!("panic: {p}")),
    }
}

/// Event `{ "<key>": <bytes> }…` from (key, bytes) pairs.
pub fn event_of(fields: &[(&str, &[u8])]) -> Value {
    let mut m = BTreeMap::new();
    for (k, b) in fields {
        m.insert((*k).into(), Value::Bytes(bytes::Bytes::copy_from_slice(b)));
    }
    Value::Object(m)
}

/// Run `src` and expect bytes; anything else is an error.
pub fn run_bytes(src: &str, event: Value) -> Result<Vec<u8>, String> {
    match run_vrl(src, event)? {
        Value::Bytes(b) => Ok(b.to_vec()),
        other => Err(format!("not bytes: {other}")),
    }
}

pub fn is_panic(e: &str) -> bool {
    e.starts_with("panic:")
}
