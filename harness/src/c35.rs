//! C35 – embedder type conversions (`vrl::compiler::conversion::Conversion`, public API).
//!
//! `c35.parse <hex name> <tz>`                : `Conversion::parse(name, tz)` → variant (with its fields)
//! `c35.convert <hex name> <hex bytes> <tz>`  : `Conversion::parse(name, tz)?.convert::<Value>(bytes)`;
//!      the observations (after `|`) are the results of the THIRD-PARTY primitives the model is
//!      parameterised by, computed here by calling core/chrono directly (never through vrl):
//!        F=<r>                 `str::parse::<f64>` of the lossy text (bit pattern)
//!        N:<hex fmt>=perr | N:<hex fmt>=<zone>~<r>,…   `chrono::format::parse` + `Parsed::to_datetime_with_timezone`
//!        Z:<hex fmt>=<r>       `DateTime::parse_from_str`
//!        R3=<r> R2=<r>         `DateTime::parse_from_rfc3339/2822`
//!      with <r> = `-` (error) or `<timestamp secs>.<subsec nanos>`.
//! `o.c35.lower`, `c35.white`                  : exhaustive sweeps of `char::to_lowercase` / `char::is_whitespace`
//! `o.c35 <value> <hex name> <tz> <render tz>`: round trip of the canonical text on the implementation.
//! `o.c35.nopanic <hex name> <hex bytes> <tz>` : panic freedom of parse+convert on arbitrary text.
//! `o.c35.reconv <hex name> <hex bytes> <tz>`  : round trip (RFC 3339, automatic conversion) of the timestamp
//!      the conversion RETURNED (reaches leap-second representations, which `o.c35` cannot start from).
use crate::rng::Rng;
use crate::sink::{guarded, Reply, Sink};
use crate::wire::*;
use chrono::format::{parse, Parsed, StrftimeItems};
use chrono::{DateTime, Local, SecondsFormat, TimeZone as _, Utc};
use vrl::compiler::conversion::{Conversion, Error};
use vrl::compiler::TimeZone;
use vrl::value::Value;

/// the automatic formats of `parse_timestamp` (private consts of conversion/mod.rs, copied; the
/// model has the same lists, and a divergence from the real lists shows up in `c35.convert`).
pub const LOCAL_FORMATS: &[&str] =
    &["%F %T", "%v %T", "%FT%T", "%m/%d/%Y:%T", "%a, %d %b %Y %T", "%a %d %b %T %Y", "%A %d %B %T %Y", "%a %b %e %T %Y"];
pub const TZ_FORMATS: &[&str] = &["%+", "%a %d %b %T %Z %Y", "%a %d %b %T %z %Y", "%a %d %b %T %#z %Y", "%d/%b/%Y:%T %z"];

pub const ZONES: &[&str] = &["UTC", "Asia/Kolkata", "Etc/GMT+5", "Europe/Paris", "America/St_Johns", "local"];

pub fn tz_of(s: &str) -> Option<TimeZone> {
    if s == "local" { Some(TimeZone::Local) } else { TimeZone::parse(s) }
}
/// `TimeZone::parse` as the stdlib applies it to a `timezone:` argument ("" and "local" = Local)
pub fn tz_of_arg(s: &str) -> Option<TimeZone> {
    TimeZone::parse(s)
}
/// the chrono observations for `Conversion::timestamp(format, tz)` applied to `bytes`
pub fn timestamp_observations(format: &str, bytes: &[u8], tz: &str) -> String {
    let Some(t) = tz_of(tz) else { return "-".into() };
    let conv = Conversion::timestamp(format, t);
    observations(&conv, bytes, tz).into_iter().next().unwrap_or_else(|| "-".into())
}
pub fn tz_name(tz: &TimeZone) -> String {
    match tz {
        TimeZone::Local => "local".into(),
        TimeZone::Named(t) => t.name().to_string(),
    }
}

fn show_inst<T: chrono::TimeZone>(d: &DateTime<T>) -> String {
    format!("{}.{}", d.timestamp(), d.timestamp_subsec_nanos())
}
fn opt(r: Option<String>) -> String {
    r.unwrap_or_else(|| "-".into())
}

/// chrono primitive: naive parse of `s` with `fmt`, then resolution in every zone of `zones`
fn naive_entry(s: &str, fmt: &str, zones: &[String]) -> String {
    let mut parsed = Parsed::new();
    let key = hex(fmt.as_bytes());
    if parse(&mut parsed, s, StrftimeItems::new(fmt)).is_err() {
        return format!("N:{key}=perr");
    }
    let rs: Vec<String> = zones
        .iter()
        .map(|z| {
            let r = match tz_of(z) {
                Some(TimeZone::Local) => parsed.to_datetime_with_timezone(&Local).ok().map(|d| show_inst(&d)),
                Some(TimeZone::Named(t)) => parsed.to_datetime_with_timezone(&t).ok().map(|d| show_inst(&d)),
                None => None,
            };
            format!("{z}~{}", opt(r))
        })
        .collect();
    format!("N:{key}={}", rs.join(","))
}
fn zoned_entry(s: &str, fmt: &str) -> String {
    let r = guarded(|| DateTime::parse_from_str(s, fmt).ok().map(|d| show_inst(&d))).unwrap_or(None);
    format!("Z:{}={}", hex(fmt.as_bytes()), opt(r))
}

fn show_conv(c: &Conversion) -> String {
    match c {
        Conversion::Bytes => "bytes".into(),
        Conversion::Integer => "integer".into(),
        Conversion::Float => "float".into(),
        Conversion::Boolean => "boolean".into(),
        Conversion::Timestamp(tz) => format!("timestamp {}", tz_name(tz)),
        Conversion::TimestampFmt(f, tz) => format!("timestampfmt {} {}", hex(f.as_bytes()), tz_name(tz)),
        Conversion::TimestampTzFmt(f) => format!("timestamptzfmt {}", hex(f.as_bytes())),
    }
}

fn err_class(e: &Error) -> &'static str {
    match e {
        Error::BoolParse { .. } => "err:bool",
        Error::IntParse { .. } => "err:int",
        Error::NanFloat { .. } => "err:nan",
        Error::FloatParse { .. } => "err:float",
        Error::TimestampParse { .. } => "err:ts",
        Error::AutoTimestampParse { .. } => "err:autots",
    }
}

/// run the real conversion; `panic` is an explicit outcome
fn convert(conv: &Conversion, bytes: &[u8]) -> String {
    let b = bytes::Bytes::copy_from_slice(bytes);
    match guarded(|| conv.convert::<Value>(b)) {
        Ok(Ok(v)) => format!("ok {}", show_value(&v)),
        Ok(Err(e)) => err_class(&e).to_string(),
        Err(_) => "panic".into(),
    }
}

fn observations(conv: &Conversion, bytes: &[u8], tz: &str) -> Vec<String> {
    let s = String::from_utf8_lossy(bytes).to_string();
    let mut zones: Vec<String> = ZONES.iter().map(|z| (*z).to_string()).collect();
    if !zones.iter().any(|z| z == tz) {
        zones.push(tz.to_string());
    }
    let mut obs = Vec::new();
    match conv {
        Conversion::Float => {
            let r = s.parse::<f64>().ok().map(|f| format!("{:016x}", f.to_bits()));
            obs.push(format!("F={}", opt(r)));
        }
        Conversion::Timestamp(_) => {
            for f in LOCAL_FORMATS {
                obs.push(naive_entry(&s, f, &zones));
            }
            obs.push(format!("R3={}", opt(DateTime::parse_from_rfc3339(&s).ok().map(|d| show_inst(&d)))));
            obs.push(format!("R2={}", opt(DateTime::parse_from_rfc2822(&s).ok().map(|d| show_inst(&d)))));
            for f in TZ_FORMATS {
                obs.push(zoned_entry(&s, f));
            }
        }
        Conversion::TimestampFmt(f, _) => obs.push(naive_entry(&s, f, &zones)),
        Conversion::TimestampTzFmt(f) => obs.push(zoned_entry(&s, f)),
        _ => {}
    }
    if obs.is_empty() { vec![] } else { vec![obs.join(" ")] }
}

/// canonical text of a value (`Display` of the inner type; timestamps: RFC 3339 `AutoSi`, `Z`)
/// or, for `timestamp|<fmt>`, the instant formatted with `fmt` in the zone `render`.
fn canonical_text(v: &Value, fmt: Option<&str>, render: &TimeZone) -> Option<Vec<u8>> {
    if let Value::Bytes(b) = v {
        return Some(b.to_vec());
    }
    canonical_string(v, fmt, render).map(String::into_bytes)
}

fn canonical_string(v: &Value, fmt: Option<&str>, render: &TimeZone) -> Option<String> {
    Some(match v {
        Value::Integer(i) => format!("{i}"),
        Value::Float(f) => format!("{f}"),
        Value::Boolean(b) => format!("{b}"),
        Value::Timestamp(t) => match fmt {
            None => t.to_rfc3339_opts(SecondsFormat::AutoSi, true),
            Some(f) => {
                let items: Vec<_> = StrftimeItems::new(f).collect();
                if items.iter().any(|i| matches!(i, chrono::format::Item::Error)) {
                    return None;
                }
                match render {
                    TimeZone::Local => t.with_timezone(&Local).format_with_items(items.into_iter()).to_string(),
                    TimeZone::Named(z) => t.with_timezone(z).format_with_items(items.into_iter()).to_string(),
                }
            }
        },
        _ => return None,
    })
}

/// is the wall-clock time of `t` in `tz` unambiguous (not inside a DST fold)?
fn unambiguous(t: &DateTime<Utc>, tz: &TimeZone) -> bool {
    match tz {
        TimeZone::Local => matches!(Local.from_local_datetime(&t.with_timezone(&Local).naive_local()), chrono::LocalResult::Single(_)),
        TimeZone::Named(z) => matches!(z.from_local_datetime(&t.with_timezone(z).naive_local()), chrono::LocalResult::Single(_)),
    }
}

pub fn exec(op: &str, a: &[String]) -> Option<Reply> {
    // chrono itself panics on arithmetic at the ends of its range (`with_timezone` near MIN/MAX):
    // such inputs are not usable cases
    guarded(|| exec_inner(op, a)).ok().flatten()
}

fn exec_inner(op: &str, a: &[String]) -> Option<Reply> {
    match (op, a) {
        ("c35.parse", [name, tz]) => {
            let name = String::from_utf8(unhex(name)?).ok()?;
            let tz = tz_of(tz)?;
            Some(Reply::plain(match Conversion::parse(&name, tz) {
                Ok(c) => show_conv(&c),
                Err(_) => "err:unknown".into(),
            }))
        }
        ("c35.convert", [name, bytes, tzs]) => {
            let name = String::from_utf8(unhex(name)?).ok()?;
            let bytes = unhex(bytes)?;
            let tz = tz_of(tzs)?;
            match Conversion::parse(&name, tz) {
                Err(_) => Some(Reply::plain("err:unknown")),
                Ok(c) => Some(Reply { obs: observations(&c, &bytes, tzs), reply: convert(&c, &bytes) }),
            }
        }
        // exhaustive sweep of `char::to_lowercase` over all non-ASCII scalar values: the code points
        // whose lowercase contains an ASCII character, with those ASCII characters. The model of
        // `parse_bool` relies on none of them being a letter of true/t/yes/y/false/f/no/n.
        ("o.c35.lower", []) => {
            let mut out = Vec::new();
            for c in (0x80u32..=0x10FFFF).filter_map(char::from_u32) {
                let l: String = c.to_lowercase().collect();
                let ascii: String = l.chars().filter(char::is_ascii).collect();
                if !ascii.is_empty() {
                    out.push(format!("{:x}:{}", c as u32, hex(ascii.as_bytes())));
                }
            }
            Some(Reply::oracle(vec![out.join(" ")]))
        }
        // exhaustive sweep of `char::is_whitespace` (what `str::trim` removes)
        ("c35.white", []) => {
            let out: Vec<String> =
                (0u32..=0x10FFFF).filter_map(char::from_u32).filter(|c| c.is_whitespace()).map(|c| format!("{:x}", c as u32)).collect();
            Some(Reply::plain(out.join(" ")))
        }
        ("o.c35", [v, name, tzs, render]) => {
            let v = parse_value(v)?;
            let name = String::from_utf8(unhex(name)?).ok()?;
            let tz = tz_of(tzs)?;
            let rtz = tz_of(render)?;
            let conv = Conversion::parse(&name, tz).ok()?;
            let (fmt, zoned) = match &conv {
                Conversion::TimestampFmt(f, _) => (Some(f.clone()), false),
                Conversion::TimestampTzFmt(f) => (Some(f.clone()), true),
                _ => (None, true),
            };
            // zone-less formats are rendered in the configured zone, zone-explicit ones in `render`
            let text = canonical_text(&v, fmt.as_deref(), if zoned { &rtz } else { &tz })?;
            let unamb = match &v {
                Value::Timestamp(t) => zoned || unambiguous(t, &tz),
                _ => true,
            };
            // UTC offset (seconds) of the zone the text was rendered in, at the instant
            let off = match &v {
                Value::Timestamp(t) => {
                    use chrono::Offset;
                    match if zoned { &rtz } else { &tz } {
                        TimeZone::Local => t.with_timezone(&Local).offset().fix().local_minus_utc(),
                        TimeZone::Named(z) => t.with_timezone(z).offset().fix().local_minus_utc(),
                    }
                }
                _ => 0,
            };
            let res = convert(&conv, &text);
            Some(Reply::oracle(vec![
                show_conv(&conv),
                hex(&text),
                if unamb { "1".into() } else { "0".into() },
                off.to_string(),
                res,
            ]))
        }
        // panic freedom of parse+convert on arbitrary text: observations = the primitive results and
        // the implementation's outcome; the Lean side evaluates `convert … ≠ panic` and classifies.
        // round trip of a RETURNED timestamp: convert the text; render the value as RFC 3339 (the
        // canonical text of a timestamp); convert that with the automatic `timestamp` conversion.
        // This reaches values `o.c35` cannot start from: chrono's leap-second representation
        // (sub-second field >= 10^9), in particular on a UTC second that is not :59 (what
        // `datetime_to_utc` returns since 83f4a4b for a leap second in a zone whose offset has seconds).
        // Observations: the value, its `<secs>.<subsec nanos>`, the RFC 3339 text, the second result, and whether chrono's `==`
        // holds between the two `DateTime`s (informative: the wire format, like the model, observes a
        // timestamp as a nanosecond count and does not distinguish `(s, 10^9+f)` from `(s+1, f)`).
        ("o.c35.reconv", [name, bytes, tzs]) => {
            let name = String::from_utf8(unhex(name)?).ok()?;
            let bytes = unhex(bytes)?;
            let tz = tz_of(tzs)?;
            let conv = Conversion::parse(&name, tz).ok()?;
            let v = guarded(|| conv.convert::<Value>(bytes::Bytes::copy_from_slice(&bytes))).ok()?.ok()?;
            let Value::Timestamp(t) = &v else { return None };
            let text = t.to_rfc3339_opts(SecondsFormat::AutoSi, true);
            let auto = Conversion::Timestamp(tz);
            let b2 = bytes::Bytes::copy_from_slice(text.as_bytes());
            let same = match guarded(|| auto.convert::<Value>(b2)) {
                Ok(Ok(Value::Timestamp(t2))) => *t == t2,
                _ => false,
            };
            let res = convert(&auto, text.as_bytes());
            Some(Reply::oracle(vec![show_value(&v), show_inst(t), hex(text.as_bytes()), res, if same { "1".into() } else { "0".into() }]))
        }
        ("o.c35.nopanic", [name, bytes, tzs]) => {
            let r = exec_inner("c35.convert", &[name.clone(), bytes.clone(), tzs.clone()])?;
            let obs = r.obs.first().cloned().unwrap_or_else(|| "-".into());
            Some(Reply::oracle(vec![obs, r.reply]))
        }
        _ => None,
    }
}


// ---------------------------------------------------------------------------------------------
// generators

const NAMES: &[&str] = &["asis", "bytes", "string", "integer", "int", "float", "bool", "boolean", "timestamp"];
const WHITES: &[&str] = &[" ", "\t", "\n", "\u{b}", "\u{c}", "\r", "\u{85}", "\u{a0}", "\u{1680}", "\u{2000}", "\u{200a}", "\u{2028}", "\u{2029}", "\u{202f}", "\u{205f}", "\u{3000}"];
/// not whitespace although they look like it
const NON_WHITES: &[&str] = &["\u{200b}", "\u{feff}", "\u{180e}", "\u{1c}", "_", "\0"];

/// strftime formats: (format, carries sub-second digits)
pub const ZONELESS_FORMATS: &[(&str, bool)] = &[
    ("%F %T", false),
    ("%F %T%.f", true),
    ("%Y-%m-%dT%H:%M:%S%.f", true),
    ("%d/%m/%Y %H:%M:%S", false),
    ("%v %T", false),
    ("%a, %d %b %Y %T", false),
    ("%s", false),
    ("%Y%m%d%H%M%S", false),
];
pub const ZONED_FORMATS: &[(&str, bool)] = &[
    ("%F %T %z", false),
    ("%F %T%.f %:z", true),
    ("%Y-%m-%dT%H:%M:%S%.f%z", true),
    ("%+", true),
    ("%a %d %b %T %#z %Y", false),
    ("%d/%b/%Y:%T %z", false),
    ("%F %T %Z", false),
    ("%F %T %%z", false),
    ("%s %z", false),
    ("%c %z", false),
];

fn case_variants(w: &str) -> Vec<String> {
    let cs: Vec<char> = w.chars().collect();
    (0..(1u32 << cs.len()))
        .map(|m| cs.iter().enumerate().map(|(i, c)| if m >> i & 1 == 1 { c.to_ascii_uppercase() } else { *c }).collect())
        .collect()
}

pub fn gen_instant(rng: &mut Rng, whole_second: bool) -> DateTime<Utc> {
    let secs = match rng.below(10) {
        0 => rng.range(-62_167_219_200, 253_402_300_799),  // years 0..9999
        1 => rng.range(-5_000_000_000, -1_000_000_000),    // 1811..1938: local mean time offsets with seconds
        2 => *rng.pick(&[0i64, -1, 1, 951_782_400, 1_635_640_200, 1_635_643_800, 1_616_893_200, 1_616_896_800, 2_147_483_647, 2_147_483_648, -2_208_988_800]),
        3 => rng.range(-8_334_601_228_800, 8_210_266_876_799), // chrono's whole range
        _ => rng.range(0, 4_102_444_800),                  // 1970..2100
    };
    let nanos = if whole_second {
        0
    } else {
        match rng.below(5) {
            0 => 0,
            1 => rng.below(1000) as u32 * 1_000_000,
            2 => rng.below(1_000_000) as u32 * 1000,
            3 => 999_999_999,
            _ => rng.below(1_000_000_000) as u32,
        }
    };
    DateTime::from_timestamp(secs, nanos).unwrap()
}

pub fn render(t: &DateTime<Utc>, fmt: &str, zone: &str) -> Option<String> {
    let tz = tz_of(zone)?;
    guarded(|| canonical_string(&Value::Timestamp(*t), Some(fmt), &tz)).ok().flatten()
}

fn mutate(rng: &mut Rng, s: &str) -> Vec<u8> {
    let mut b = s.as_bytes().to_vec();
    match rng.below(6) {
        0 if !b.is_empty() => {
            let i = rng.below(b.len() as u64) as usize;
            b.remove(i);
        }
        1 => {
            let i = rng.below(b.len() as u64 + 1) as usize;
            b.insert(i, *rng.pick(b" 0919+-:TZz/.,a\xff\xc3"));
        }
        2 if !b.is_empty() => {
            let i = rng.below(b.len() as u64) as usize;
            b[i] = *rng.pick(b" 0959+-:TZ6");
        }
        3 => b.truncate(rng.below(b.len() as u64 + 1) as usize),
        4 => b.extend_from_slice(*rng.pick(&[&b" "[..], b"Z", b" +0000", b"\n", b".5"])),
        _ => b.insert(0, b' '),
    }
    b
}

fn emit_convert(sink: &mut Sink, name: &str, text: &[u8], tz: &str, bucket: &str) {
    let inputs = [hex(name.as_bytes()), hex(text), tz.to_string()];
    if let Some(r) = sink.emit("c35.convert", &inputs) {
        let class = if r.reply.starts_with("ok") { "ok" } else { r.reply.as_str() };
        sink.count(&format!("c35:{bucket}:{class}"));
        sink.emit("o.c35.nopanic", &inputs);
        if r.reply.starts_with("ok ts:") {
            match sink.emit("o.c35.reconv", &inputs) {
                Some(rr) => {
                    // <secs>.<subsec nanos> of the returned value: a leap-second representation has >= 10 digits
                    let leap = rr.obs.get(1).and_then(|i| i.split('.').nth(1)).is_some_and(|n| n.len() >= 10);
                    let eq = rr.obs.last().is_some_and(|e| e == "1");
                    sink.count(&format!("c35:reconv:{}:{}", if leap { "leap-repr" } else { "plain" }, if eq { "identical" } else { "same-ns-count,chrono-eq-false" }));
                }
                None => sink.count("c35:reconv:dropped(chrono range panic while rendering)"),
            }
        }
    } else {
        sink.count("c35:dropped-convert-case");
    }
}

fn emit_rt(sink: &mut Sink, v: &Value, name: &str, tz: &str, render_tz: &str, bucket: &str) {
    if sink.emit("o.c35", &[show_value(v), hex(name.as_bytes()), tz.to_string(), render_tz.to_string()]).is_some() {
        sink.count(&format!("c35:rt:{bucket}"));
    } else {
        sink.count("c35:rt:dropped(chrono range panic while rendering)");
    }
}

pub fn generate(sink: &mut Sink, rng: &mut Rng, n: u64) {
    // ---- (a) names: exhaustive table x decorations x zones ---------------------------------
    sink.emit("o.c35.lower", &[]);
    sink.emit("c35.white", &[]);
    let mut names: Vec<String> = Vec::new();
    for nm in NAMES {
        names.push((*nm).to_string());
        names.push(format!("{nm}|"));
        names.push(format!("{nm}|%F %T"));
        names.push(format!("{nm} | %F %T %z "));
        names.push(nm.to_uppercase());
        names.push(format!("{}{}", &nm[..1].to_uppercase(), &nm[1..]));
        names.push(format!("{nm}s"));
        names.push(nm[..nm.len() - 1].to_string());
        names.push(format!("{nm} {nm}"));
        for w in WHITES {
            names.push(format!("{w}{nm}"));
            names.push(format!("{nm}{w}"));
            names.push(format!("{w}{w}{nm}{w}"));
        }
        for w in NON_WHITES {
            names.push(format!("{w}{nm}"));
            names.push(format!("{nm}{w}"));
        }
    }
    for extra in ["", " ", "|", "||", "| ", "timestamp||", "timestamp|%F|%T", "|timestamp", "timestamp |\u{3000}%s\u{a0}", "time stamp", "ts", "number", "null", "str", "timestamptz", "timestamp|%%z", "timestamp|%:z", "timestamp|%#z", "timestamp|% z", "timestamp|%Z", "timestamp|%+", "timestamp|%z%Z", "timestamp|z%", "timestamp|%:::z", "timestamp|%::z", "timestamp|%3f"] {
        names.push(extra.to_string());
    }
    for (f, _) in ZONELESS_FORMATS.iter().chain(ZONED_FORMATS) {
        names.push(format!("timestamp|{f}"));
    }
    for name in &names {
        for z in ZONES {
            sink.emit("c35.parse", &[hex(name.as_bytes()), (*z).to_string()]);
            sink.count("c35:parse:table");
        }
    }
    // random names over the name alphabet
    for _ in 0..n / 4 {
        let len = rng.below(12);
        let name: String = (0..len).map(|_| *rng.pick(&['a', 's', 'i', 'n', 't', 'b', 'o', 'l', 'e', 'g', 'r', 'f', 'm', 'p', 'y', '|', ' ', '%', 'z', 'Z', '+', ':', '#', 'F', 'T'])).collect();
        let name = if rng.chance(1, 3) { format!("timestamp|{name}") } else { name };
        sink.emit("c35.parse", &[hex(name.as_bytes()), (*rng.pick(ZONES)).to_string()]);
        sink.count("c35:parse:random");
    }

    // ---- (b) booleans: every spelling x every letter case x both names (exhaustive) ----------
    for w in ["true", "t", "yes", "y", "false", "f", "no", "n"] {
        for v in case_variants(w) {
            for nm in ["bool", "boolean"] {
                emit_convert(sink, nm, v.as_bytes(), "UTC", "bool:spelling");
            }
        }
    }
    let bool_texts: &[&[u8]] = &[
        b"0", b"1", b"-1", b"+1", b"00", b"-0", b"+0", b"2", b"10", b"9223372036854775807", b"9223372036854775808", b"-9223372036854775808",
        b"-9223372036854775809", b"", b" ", b" true", b"true ", b"tru", b"truee", b"ye", b"nope", b"on", b"off", b"T", b"F", b"Y", b"N", b"1.0", b"0.0",
        b"0x1", b"+", b"-", b"--1", b"\xff", b"tru\xc3\xa9", "\u{212a}".as_bytes(), "\u{130}".as_bytes(), "ye\u{17f}".as_bytes(), "\u{ff54}rue".as_bytes(), "TRU\u{45}".as_bytes(), b"nO", b"No", b"fALSE", b"true\n", b"t\0",
    ];
    for t in bool_texts {
        emit_convert(sink, "bool", t, "UTC", "bool:edge");
    }

    // ---- (c) integers ------------------------------------------------------------------------
    let int_texts: &[&[u8]] = &[
        b"", b"+", b"-", b"0", b"-0", b"+0", b"00", b"007", b"-007", b"+-1", b"-+1", b"--1", b"++1", b"1-", b"1+", b" 1", b"1 ", b"1_000", b"1,000", b"0x10", b"1e3", b"1.0", b"1.",
        b"9223372036854775807", b"9223372036854775808", b"+9223372036854775807", b"+9223372036854775808", b"-9223372036854775808", b"-9223372036854775809",
        b"09223372036854775807", b"-09223372036854775808", b"92233720368547758070", b"-92233720368547758080", b"18446744073709551616", b"99999999999999999999999999999999",
        b"-99999999999999999999999999999999", b"000000000000000000000000000000000001", "\u{ff11}".as_bytes(), "\u{661}".as_bytes(), b"1\xff", b"\xff1", b"12a", b"a12", b"\0", b"1\0", b"\x2d\x2d",
    ];
    for t in int_texts {
        for nm in ["int", "integer"] {
            emit_convert(sink, nm, t, "UTC", "int:edge");
        }
    }
    for i in crate::gens::edge_ints() {
        emit_convert(sink, "int", i.to_string().as_bytes(), "UTC", "int:edge");
        emit_convert(sink, "int", format!("+{i}").as_bytes(), "UTC", "int:edge");
        emit_rt(sink, &Value::Integer(*i), "int", "UTC", "UTC", "int");
        emit_rt(sink, &Value::Integer(*i), "integer", "local", "UTC", "int");
    }
    for _ in 0..n / 4 {
        let i = match rng.below(4) {
            0 => rng.range(-1000, 1000),
            1 => *rng.pick(crate::gens::edge_ints()) ^ rng.range(0, 15),
            _ => rng.next() as i64 >> rng.below(64),
        };
        emit_rt(sink, &Value::Integer(i), "int", "UTC", "UTC", "int");
        let text = i.to_string();
        let m = if rng.chance(1, 2) { mutate(rng, &text) } else { format!("{}{}", text, rng.below(100)).into_bytes() };
        emit_convert(sink, "int", &m, "UTC", "int:mutated");
    }

    // ---- (d) floats by bit pattern -------------------------------------------------------------
    let float_texts: &[&[u8]] = &[
        b"", b".", b"+", b"-", b"e5", b"1e", b"1e+", b".5", b"5.", b"+1.5", b"-1.5", b"1e5", b"1E5", b"1e-400", b"1e400", b"-1e400", b"nan", b"NaN", b"NAN", b"-nan", b"+nan", b"inf", b"-inf", b"+inf", b"Inf", b"INF",
        b"infinity", b"-Infinity", b"infinit", b"0x1p3", b" 1.5", b"1.5 ", b"1_0.0", b"1,5", b"1.5f", b"0.1", b"0", b"-0", b"-0.0", b"1", b"4.9e-324", b"2.4703282292062327e-324", b"2.4703282292062328e-324",
        b"1.7976931348623157e308", b"1.7976931348623159e308", b"9007199254740993", b"0.30000000000000004", b"\xff", b"1\xc3\xa9", "\u{ff11}.5".as_bytes(),
    ];
    for t in float_texts {
        emit_convert(sink, "float", t, "UTC", "float:edge");
    }
    let edge_bits: &[u64] = &[0, 1 << 63, 1, (1 << 63) | 1, 0x000f_ffff_ffff_ffff, 0x0010_0000_0000_0000, 0x7fef_ffff_ffff_ffff, 0xffef_ffff_ffff_ffff, 0x7ff0_0000_0000_0000, 0xfff0_0000_0000_0000, 0x3ff0_0000_0000_0000, 0x3ff0_0000_0000_0001, 0x4340_0000_0000_0000, 0x4340_0000_0000_0001, 0x3fb9_9999_9999_999a, 0x3fd3_3333_3333_3334];
    for b in edge_bits {
        let f = f64::from_bits(*b);
        emit_rt(sink, &Value::Float(ordered_float::NotNan::new(f).unwrap()), "float", "UTC", "UTC", "float");
        emit_convert(sink, "float", format!("{f}").as_bytes(), "UTC", "float:display");
        emit_convert(sink, "float", format!("{f:e}").as_bytes(), "UTC", "float:exp");
    }
    for _ in 0..n / 4 {
        let f = crate::gens::gen_float(rng);
        emit_rt(sink, &Value::Float(ordered_float::NotNan::new(f).unwrap()), "float", "UTC", "UTC", "float");
        let text = if rng.chance(1, 2) { format!("{f}") } else { format!("{f:e}") };
        if text.len() < 400 {
            emit_convert(sink, "float", text.as_bytes(), "UTC", "float:display");
            let m = mutate(rng, &text);
            emit_convert(sink, "float", &m, "UTC", "float:mutated");
        }
    }
    // booleans / bytes round trip
    for b in [true, false] {
        for nm in ["bool", "boolean"] {
            emit_rt(sink, &Value::Boolean(b), nm, "UTC", "UTC", "bool");
        }
    }
    for _ in 0..20 {
        let b = crate::gens::gen_bytes(rng);
        for nm in ["asis", "bytes", "string"] {
            emit_rt(sink, &Value::Bytes(b.clone().into()), nm, "UTC", "UTC", "bytes");
            emit_convert(sink, nm, &b, "UTC", "bytes");
        }
    }

    // ---- (e) timestamps x formats x zones ------------------------------------------------------
    // fixed: DST gap/fold, leap seconds, historical offsets with seconds, range ends
    let fixed: &[(&str, &str)] = &[
        ("timestamp|%F %T", "2021-10-31 02:30:00"),
        ("timestamp|%F %T", "2021-03-28 02:30:00"),
        ("timestamp|%F %T", "2021-11-07 01:15:00"),
        ("timestamp|%F %T", "2021-03-14 02:15:00"),
        ("timestamp|%F %T", "2016-12-31 23:59:60"),
        ("timestamp|%F %T", "1900-01-01 23:59:60"),
        ("timestamp|%F %T", "1900-01-01 12:00:00"),
        ("timestamp|%F %T %z", "1900-01-01 23:59:60 +0000"),
        ("timestamp|%F %T %z", "2016-12-31 23:59:60 +0530"),
        ("timestamp", "1900-01-01 23:59:60"),
        ("timestamp", "1900-01-01T23:59:60"),
        ("timestamp", "2016-12-31T23:59:60Z"),
        ("timestamp", "2016-12-31T23:59:60+05:30"),
        ("timestamp", "Mon, 01 Jan 1900 23:59:60"),
        ("timestamp", "0"),
        ("timestamp", "-1"),
        ("timestamp", "+1"),
        ("timestamp", "8210266876799"),
        ("timestamp", "8210266876800"),
        ("timestamp", "-8334601228800"),
        ("timestamp", "-8334601228801"),
        ("timestamp", "9223372036854775807"),
        ("timestamp", "9223372036854775808"),
        ("timestamp", ""),
        ("timestamp", "2001-02-03T04:05:06Z"),
        ("timestamp", "2001-02-03T04:05:06"),
        ("timestamp", "2001-02-03 04:05:06"),
        ("timestamp", "2001-02-03 04:05:06Z"),
        ("timestamp", "2001-02-03t04:05:06z"),
        ("timestamp", "2001-02-03T04:05:06.5+01:00"),
        ("timestamp", "03-Feb-2001 04:05:06"),
        ("timestamp", "02/03/2001:04:05:06"),
        ("timestamp", "Sat, 03 Feb 2001 04:05:06"),
        ("timestamp", "Sat, 03 Feb 2001 04:05:06 +0100"),
        ("timestamp", "Sat, 03 Feb 2001 04:05:06 GMT"),
        ("timestamp", "Sat 03 Feb 04:05:06 2001"),
        ("timestamp", "Saturday 03 February 04:05:06 2001"),
        ("timestamp", "Sat Feb  3 04:05:06 2001"),
        ("timestamp", "Sat 03 Feb 04:05:06 CET 2001"),
        ("timestamp", "Sat 03 Feb 04:05:06 +0100 2001"),
        ("timestamp", "Sat 03 Feb 04:05:06 +01:00 2001"),
        ("timestamp", "Sat 03 Feb 04:05:06 +01 2001"),
        ("timestamp", "03/Feb/2001:04:05:06 +0100"),
        ("timestamp", "+10000-01-01T00:00:00Z"),
        ("timestamp|%F %T %Z", "2001-02-03 04:05:06 UTC"),
        ("timestamp|%F %T %%z", "2001-02-03 04:05:06 %z"),
        ("timestamp|", ""),
        ("timestamp|%Q", "x"),
        ("timestamp|%", "%"),
    ];
    for (nm, text) in fixed {
        for z in ZONES {
            emit_convert(sink, nm, text.as_bytes(), z, "ts:fixed");
        }
    }
    // leap seconds (`:60`) at random minutes of random days, the local-mean-time era included: in a zone
    // whose UTC offset has seconds the value keeps the leap-second representation on a UTC second that
    // is not :59 (the path of `datetime_to_utc` repaired by 83f4a4b; it panicked before)
    for _ in 0..n / 10 {
        let t = gen_instant(rng, true);
        let Some(mut text) = render(&t, "%F %H:%M:60", "UTC") else { continue };
        let (name, tail) = *rng.pick(&[
            ("timestamp|%F %T", ""),
            ("timestamp|%F %T", ""),
            ("timestamp", ""),
            ("timestamp|%F %T%.f", ".25"),
            ("timestamp|%F %T%.f", ".999999999"),
            ("timestamp|%F %T %z", " +0000"),
            ("timestamp|%F %T %z", " +0530"),
            ("timestamp|%F %T %z", " -0330"),
            ("timestamp", "Z"),
        ]);
        text.push_str(tail);
        if tail == "Z" {
            text = text.replacen(' ', "T", 1);
        }
        emit_convert(sink, name, text.as_bytes(), *rng.pick(ZONES), "ts:leap");
    }
    for _ in 0..n / 2 {
        let zoned = rng.chance(1, 2);
        let (fmt, frac) = *rng.pick(if zoned { ZONED_FORMATS } else { ZONELESS_FORMATS });
        let mut t = gen_instant(rng, !frac);
        // chrono cannot read back a negative `%s` nor an unpadded/5-digit year glued to other digits:
        // outside the domain of its round-trip law (not vrl code), so not generated
        if fmt.contains("%s") && t.timestamp() < 0 {
            t = DateTime::from_timestamp((-t.timestamp()).min(8_000_000_000_000), t.timestamp_subsec_nanos()).unwrap();
        }
        if fmt.starts_with("%Y%m") {
            // years 1000..=9999
            t = DateTime::from_timestamp(-30_610_224_000 + 86_400 + t.timestamp().rem_euclid(253_402_300_799 + 30_610_224_000 - 3 * 86_400), 0).unwrap();
        }
        let tz = *rng.pick(ZONES);
        let rz = *rng.pick(ZONES);
        let name = format!("timestamp|{fmt}");
        emit_rt(sink, &Value::Timestamp(t), &name, tz, rz, if zoned { "ts:zoned" } else { "ts:zoneless" });
        emit_rt(sink, &Value::Timestamp(t), "timestamp", tz, rz, "ts:auto");
        // correspondence on the rendered text (and on a mutation of it), explicit format and automatic
        if let Some(text) = render(&t, fmt, if zoned { rz } else { tz }) {
            emit_convert(sink, &name, text.as_bytes(), tz, "ts:fmt");
            let m = mutate(rng, &text);
            emit_convert(sink, &name, &m, tz, "ts:fmt-mutated");
        }
        let auto = *rng.pick(&["%F %T", "%v %T", "%FT%T", "%m/%d/%Y:%T", "%a, %d %b %Y %T", "%a %d %b %T %Y", "%A %d %B %T %Y", "%a %b %e %T %Y", "%+", "%a %d %b %T %Z %Y", "%a %d %b %T %z %Y", "%a %d %b %T %#z %Y", "%d/%b/%Y:%T %z", "%s", "%a, %d %b %Y %T %z", "%Y-%m-%dT%H:%M:%S%.fZ", "%Y-%m-%d %H:%M:%S%:z"]);
        if let Some(text) = render(&t, auto, rz) {
            emit_convert(sink, "timestamp", text.as_bytes(), tz, "ts:auto");
            if rng.chance(1, 3) {
                let m = mutate(rng, &text);
                emit_convert(sink, "timestamp", &m, tz, "ts:auto-mutated");
            }
        }
    }
}
