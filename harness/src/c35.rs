//! C35 – embedder type conversions (`vrl::compiler::conversion::Conversion`, public API).
//!
//! `c35.parse <hex name> <tz>`                : `Conversion::parse(name, tz)` → variant (with its fields)
//! `c35.convert <hex name> <hex bytes> <tz>`  : `Conversion::parse(name, tz)?.convert::<Value>(bytes)`;
//!      the observations (after `|`) are the results of the THIRD-PARTY primitives the model is
//!      parameterised by, computed here by calling core/chrono directly (never through vrl):
//!        F=<r>                 `str::parse::<f64>` of the lossy text (bit pattern)
//!        N:<hex fmt>=perr | N:<hex fmt>=<zone>~<r>,…   `chrono::format::parse` + `Parsed::to_datetime_with_timezone`
//!        Z:<hex fmt>=<r>       `DateTime::parse_from_str`
//!        R3=<r> R2=<r>         `DateTime::parse_from_rfc3339/2822`
//!      with <r> = `-` (error) or `<timestamp secs>.<subsec nanos>`.
//! `o.c35.lower`, `c35.white`                  : exhaustive sweeps of `char::to_lowercase` / `char::is_whitespace`
//! `o.c35 <value> <hex name> <tz> <render tz>`: round trip of the canonical text on the implementation.
use crate::rng::Rng;
use crate::sink::{guarded, Reply, Sink};
use crate::wire::*;
use chrono::format::{parse, Parsed, StrftimeItems};
use chrono::{DateTime, Local, SecondsFormat, TimeZone as _, Utc};
use vrl::compiler::conversion::{Conversion, Error};
use vrl::compiler::TimeZone;
use vrl::value::Value;

/// the automatic formats of `parse_timestamp` (private consts of conversion/mod.rs, copied; the
/// model has the same lists, and a divergence from the real lists shows up in `c35.convert`).
pub const LOCAL_FORMATS: &[&str] =
    &["%F %T", "%v %T", "%FT%T", "%m/%d/%Y:%T", "%a, %d %b %Y %T", "%a %d %b %T %Y", "%A %d %B %T %Y", "%a %b %e %T %Y"];
pub const TZ_FORMATS: &[&str] = &["%+", "%a %d %b %T %Z %Y", "%a %d %b %T %z %Y", "%a %d %b %T %#z %Y", "%d/%b/%Y:%T %z"];

pub const ZONES: &[&str] = &["UTC", "Asia/Kolkata", "Etc/GMT+5", "Europe/Paris", "America/St_Johns", "local"];

pub fn tz_of(s: &str) -> Option<TimeZone> {
    if s == "local" { Some(TimeZone::Local) } else { TimeZone::parse(s) }
}
pub fn tz_name(tz: &TimeZone) -> String {
    match tz {
        TimeZone::Local => "local".into(),
        TimeZone::Named(t) => t.name().to_string(),
    }
}

fn show_inst<T: chrono::TimeZone>(d: &DateTime<T>) -> String {
    format!("{}.{}", d.timestamp(), d.timestamp_subsec_nanos())
}
fn opt(r: Option<String>) -> String {
    r.unwrap_or_else(|| "-".into())
}

/// chrono primitive: naive parse of `s` with `fmt`, then resolution in every zone of `zones`
fn naive_entry(s: &str, fmt: &str, zones: &[String]) -> String {
    let mut parsed = Parsed::new();
    let key = hex(fmt.as_bytes());
    if parse(&mut parsed, s, StrftimeItems::new(fmt)).is_err() {
        return format!("N:{key}=perr");
    }
    let rs: Vec<String> = zones
        .iter()
        .map(|z| {
            let r = match tz_of(z) {
                Some(TimeZone::Local) => parsed.to_datetime_with_timezone(&Local).ok().map(|d| show_inst(&d)),
                Some(TimeZone::Named(t)) => parsed.to_datetime_with_timezone(&t).ok().map(|d| show_inst(&d)),
                None => None,
            };
            format!("{z}~{}", opt(r))
        })
        .collect();
    format!("N:{key}={}", rs.join(","))
}
fn zoned_entry(s: &str, fmt: &str) -> String {
    let r = guarded(|| DateTime::parse_from_str(s, fmt).ok().map(|d| show_inst(&d))).unwrap_or(None);
    format!("Z:{}={}", hex(fmt.as_bytes()), opt(r))
}

fn show_conv(c: &Conversion) -> String {
    match c {
        Conversion::Bytes => "bytes".into(),
        Conversion::Integer => "integer".into(),
        Conversion::Float => "float".into(),
        Conversion::Boolean => "boolean".into(),
        Conversion::Timestamp(tz) => format!("timestamp {}", tz_name(tz)),
        Conversion::TimestampFmt(f, tz) => format!("timestampfmt {} {}", hex(f.as_bytes()), tz_name(tz)),
        Conversion::TimestampTzFmt(f) => format!("timestamptzfmt {}", hex(f.as_bytes())),
    }
}

fn err_class(e: &Error) -> &'static str {
    match e {
        Error::BoolParse { .. } => "err:bool",
        Error::IntParse { .. } => "err:int",
        Error::NanFloat { .. } => "err:nan",
        Error::FloatParse { .. } => "err:float",
        Error::TimestampParse { .. } => "err:ts",
        Error::AutoTimestampParse { .. } => "err:autots",
    }
}

/// run the real conversion; `panic` is an explicit outcome
fn convert(conv: &Conversion, bytes: &[u8]) -> String {
    let b = bytes::Bytes::copy_from_slice(bytes);
    match guarded(|| conv.convert::<Value>(b)) {
        Ok(Ok(v)) => format!("ok {}", show_value(&v)),
        Ok(Err(e)) => err_class(&e).to_string(),
        Err(_) => "panic".into(),
    }
}

fn observations(conv: &Conversion, bytes: &[u8], tz: &str) -> Vec<String> {
    let s = String::from_utf8_lossy(bytes).to_string();
    let mut zones: Vec<String> = ZONES.iter().map(|z| (*z).to_string()).collect();
    if !zones.iter().any(|z| z == tz) {
        zones.push(tz.to_string());
    }
    let mut obs = Vec::new();
    match conv {
        Conversion::Float => {
            let r = s.parse::<f64>().ok().map(|f| format!("{:016x}", f.to_bits()));
            obs.push(format!("F={}", opt(r)));
        }
        Conversion::Timestamp(_) => {
            for f in LOCAL_FORMATS {
                obs.push(naive_entry(&s, f, &zones));
            }
            obs.push(format!("R3={}", opt(DateTime::parse_from_rfc3339(&s).ok().map(|d| show_inst(&d)))));
            obs.push(format!("R2={}", opt(DateTime::parse_from_rfc2822(&s).ok().map(|d| show_inst(&d)))));
            for f in TZ_FORMATS {
                obs.push(zoned_entry(&s, f));
            }
        }
        Conversion::TimestampFmt(f, _) => obs.push(naive_entry(&s, f, &zones)),
        Conversion::TimestampTzFmt(f) => obs.push(zoned_entry(&s, f)),
        _ => {}
    }
    if obs.is_empty() { vec![] } else { vec![obs.join(" ")] }
}

/// canonical text of a value (`Display` of the inner type; timestamps: RFC 3339 `AutoSi`, `Z`)
/// or, for `timestamp|<fmt>`, the instant formatted with `fmt` in the zone `render`.
fn canonical_text(v: &Value, fmt: Option<&str>, render: &TimeZone) -> Option<String> {
    Some(match v {
        Value::Bytes(b) => String::from_utf8_lossy(b).to_string(),
        Value::Integer(i) => format!("{i}"),
        Value::Float(f) => format!("{f}"),
        Value::Boolean(b) => format!("{b}"),
        Value::Timestamp(t) => match fmt {
            None => t.to_rfc3339_opts(SecondsFormat::AutoSi, true),
            Some(f) => {
                let items: Vec<_> = StrftimeItems::new(f).collect();
                if items.iter().any(|i| matches!(i, chrono::format::Item::Error)) {
                    return None;
                }
                match render {
                    TimeZone::Local => t.with_timezone(&Local).format_with_items(items.into_iter()).to_string(),
                    TimeZone::Named(z) => t.with_timezone(z).format_with_items(items.into_iter()).to_string(),
                }
            }
        },
        _ => return None,
    })
}

/// is the wall-clock time of `t` in `tz` unambiguous (not inside a DST fold)?
fn unambiguous(t: &DateTime<Utc>, tz: &TimeZone) -> bool {
    match tz {
        TimeZone::Local => matches!(Local.from_local_datetime(&t.with_timezone(&Local).naive_local()), chrono::LocalResult::Single(_)),
        TimeZone::Named(z) => matches!(z.from_local_datetime(&t.with_timezone(z).naive_local()), chrono::LocalResult::Single(_)),
    }
}

pub fn exec(op: &str, a: &[String]) -> Option<Reply> {
    match (op, a) {
        ("c35.parse", [name, tz]) => {
            let name = String::from_utf8(unhex(name)?).ok()?;
            let tz = tz_of(tz)?;
            Some(Reply::plain(match Conversion::parse(&name, tz) {
                Ok(c) => show_conv(&c),
                Err(_) => "err:unknown".into(),
            }))
        }
        ("c35.convert", [name, bytes, tzs]) => {
            let name = String::from_utf8(unhex(name)?).ok()?;
            let bytes = unhex(bytes)?;
            let tz = tz_of(tzs)?;
            match Conversion::parse(&name, tz) {
                Err(_) => Some(Reply::plain("err:unknown")),
                Ok(c) => Some(Reply { obs: observations(&c, &bytes, tzs), reply: convert(&c, &bytes) }),
            }
        }
        // exhaustive sweep of `char::to_lowercase` over all non-ASCII scalar values: the code points
        // whose lowercase contains an ASCII character, with those ASCII characters. The model of
        // `parse_bool` relies on none of them being a letter of true/t/yes/y/false/f/no/n.
        ("o.c35.lower", []) => {
            let mut out = Vec::new();
            for c in (0x80u32..=0x10FFFF).filter_map(char::from_u32) {
                let l: String = c.to_lowercase().collect();
                let ascii: String = l.chars().filter(char::is_ascii).collect();
                if !ascii.is_empty() {
                    out.push(format!("{:x}:{}", c as u32, hex(ascii.as_bytes())));
                }
            }
            Some(Reply::oracle(vec![out.join(" ")]))
        }
        // exhaustive sweep of `char::is_whitespace` (what `str::trim` removes)
        ("c35.white", []) => {
            let out: Vec<String> =
                (0u32..=0x10FFFF).filter_map(char::from_u32).filter(|c| c.is_whitespace()).map(|c| format!("{:x}", c as u32)).collect();
            Some(Reply::plain(out.join(" ")))
        }
        ("o.c35", [v, name, tzs, render]) => {
            let v = parse_value(v)?;
            let name = String::from_utf8(unhex(name)?).ok()?;
            let tz = tz_of(tzs)?;
            let rtz = tz_of(render)?;
            let conv = Conversion::parse(&name, tz).ok()?;
            let (fmt, zoned) = match &conv {
                Conversion::TimestampFmt(f, _) => (Some(f.clone()), false),
                Conversion::TimestampTzFmt(f) => (Some(f.clone()), true),
                _ => (None, true),
            };
            // zone-less formats are rendered in the configured zone, zone-explicit ones in `render`
            let text = canonical_text(&v, fmt.as_deref(), if zoned { &rtz } else { &tz })?;
            let unamb = match &v {
                Value::Timestamp(t) => zoned || unambiguous(t, &tz),
                _ => true,
            };
            let res = convert(&conv, text.as_bytes());
            Some(Reply::oracle(vec![show_conv(&conv), hex(text.as_bytes()), if unamb { "1".into() } else { "0".into() }, res]))
        }
        _ => None,
    }
}

pub fn generate(sink: &mut Sink, rng: &mut Rng, n: u64) {
    let _ = (sink, rng, n);
}
