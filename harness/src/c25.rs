//! C25 – paired conversion functions. Correspondence ops `c25.<function>` run the REAL stdlib
//! function through a compiled VRL program (`f!(.a, opt: .b)` on an event holding the arguments);
//! oracle ops `o.c25.<pair>` observe `f(x)` and `g(f(x))` on the implementation.
//! Arguments are wire values, `-` = optional argument absent.
use crate::gens::*;
use crate::rng::Rng;
use crate::sink::{guarded, Reply, Sink};
use crate::vrlrun::tagged::run_vrl;
use crate::wire::*;
use chrono::format::{Item, Parsed, StrftimeItems};
use chrono::{DateTime, Utc};
use vrl::value::{ObjectMap, Value};

pub fn show_res(r: &Result<Value, String>) -> String {
    match r {
        Ok(v) => format!("ok\t{}", show_value(v)),
        Err(e) if e.starts_with("panic") => "panic".to_string(),
        Err(e) if e.starts_with("compile") => format!("compile-error {e}"),
        Err(_) => "err".to_string(),
    }
}
/// observation form (no tab)
fn obs_res(r: &Result<Value, String>) -> String {
    show_res(r).replace('\t', " ")
}

fn opt(s: &str) -> Option<Option<Value>> {
    if s == "-" { Some(None) } else { parse_value(s).map(Some) }
}

/// call `name!(.a, kw1: .b, kw2: .c)` with the optional arguments that are present.
fn call(name: &str, a: &Value, opts: &[(&str, &Option<Value>)], literal: &str) -> Result<Value, String> {
    let mut src = format!("{name}!(.a");
    let mut fields: Vec<(String, Value)> = vec![("a".into(), a.clone())];
    for (i, (kw, v)) in opts.iter().enumerate() {
        if let Some(v) = v {
            let f = format!("o{i}");
            src.push_str(&format!(", {kw}: .{f}"));
            fields.push((f, v.clone()));
        }
    }
    src.push_str(literal);
    src.push(')');
    let mut m = ObjectMap::new();
    for (k, v) in fields {
        m.insert(k.into(), v);
    }
    run_vrl(&src, Value::Object(m))
}

fn unit_lit(u: &str) -> Option<&'static str> {
    Some(match u {
        "-" => "",
        "s" => ", unit: \"seconds\"",
        "ms" => ", unit: \"milliseconds\"",
        "us" => ", unit: \"microseconds\"",
        "ns" => ", unit: \"nanoseconds\"",
        _ => return None,
    })
}

fn except_lit(ex: &str) -> Option<String> {
    if ex == "-" {
        return Some(String::new());
    }
    let Value::Array(a) = parse_value(ex)? else { return None };
    let mut parts = Vec::new();
    for k in a {
        let Value::Bytes(b) = k else { return None };
        let s = std::str::from_utf8(&b).ok()?.to_string();
        if s.chars().any(|c| c == '"' || c == '\\' || c == '{' || c == '}' || c.is_control()) {
            return None;
        }
        parts.push(format!("\"{s}\""));
    }
    Some(format!(", except: [{}]", parts.join(", ")))
}

fn lossy(v: &Value) -> Option<String> {
    match v {
        Value::Bytes(b) => Some(String::from_utf8_lossy(b).into_owned()),
        _ => None,
    }
}

/// how vrl's `TimeZone::parse` classifies the optional timezone argument
fn zone_obs(tz: &Option<Value>) -> (String, Option<vrl::compiler::TimeZone>) {
    match tz {
        None => ("-".into(), Some(vrl::compiler::TimeZone::Local)),
        Some(Value::Bytes(b)) => {
            let name = String::from_utf8_lossy(b).into_owned();
            if name.is_empty() || name == "local" {
                ("local".into(), Some(vrl::compiler::TimeZone::Local))
            } else {
                match name.parse::<chrono_tz::Tz>() {
                    Ok(t) => ("named".into(), Some(vrl::compiler::TimeZone::Named(t))),
                    Err(_) => ("none".into(), None),
                }
            }
        }
        Some(_) => ("-".into(), None),
    }
}

fn ts_of(v: &Value) -> Option<DateTime<Utc>> {
    match v {
        Value::Timestamp(t) => Some(*t),
        _ => None,
    }
}

fn pair(secs: i64, nanos: u32) -> String {
    format!("{secs},{nanos}")
}

pub fn exec(op: &str, a: &[String]) -> Option<Reply> {
    let r = match (op, a) {
        ("c25.vrl", [src, e]) => {
            let r = run_vrl(src, parse_value(e)?);
            let extra = match &r {
                Err(e) => format!("\t{e}"),
                Ok(v) => format!("\t{v}"),
            };
            return Some(Reply::plain(show_res(&r) + &extra));
        }
        ("c25.format_int", [n, b]) => call("format_int", &parse_value(n)?, &[("base", &opt(b)?)], ""),
        ("c25.parse_int", [s, b]) => call("parse_int", &parse_value(s)?, &[("base", &opt(b)?)], ""),
        ("c25.to_entries", [v]) => call("to_entries", &parse_value(v)?, &[], ""),
        ("c25.from_entries", [v]) => call("from_entries", &parse_value(v)?, &[], ""),
        ("c25.flatten", [v, sep, ex]) => {
            call("flatten", &parse_value(v)?, &[("separator", &opt(sep)?)], &except_lit(ex)?)
        }
        ("c25.unflatten", [v, sep, r]) => {
            // the empty separator overflows the stack (process abort) unless every object has at most one entry
            call("unflatten", &parse_value(v)?, &[("separator", &opt(sep)?), ("recursive", &opt(r)?)], "")
        }
        ("c25.ip_aton", [v]) => call("ip_aton", &parse_value(v)?, &[], ""),
        ("c25.ip_ntoa", [v]) => call("ip_ntoa", &parse_value(v)?, &[], ""),
        ("c25.ip_pton", [v]) => call("ip_pton", &parse_value(v)?, &[], ""),
        ("c25.ip_ntop", [v]) => call("ip_ntop", &parse_value(v)?, &[], ""),
        ("c25.ip_to_ipv6", [v]) => call("ip_to_ipv6", &parse_value(v)?, &[], ""),
        ("c25.ipv6_to_ipv4", [v]) => call("ipv6_to_ipv4", &parse_value(v)?, &[], ""),
        ("c25.to_unix", [v, u]) => call("to_unix_timestamp", &parse_value(v)?, &[], unit_lit(u)?),
        ("c25.from_unix", [v, u]) => call("from_unix_timestamp", &parse_value(v)?, &[], unit_lit(u)?),
        ("c25.format_ts", [v, fmt, tz]) => {
            let (v, fmt, tz) = (parse_value(v)?, parse_value(fmt)?, opt(tz)?);
            let r = call("format_timestamp", &v, &[("format", &Some(fmt.clone())), ("timezone", &tz)], "");
            // chrono observed directly on the same inputs
            let f = lossy(&fmt);
            let valid = f.as_ref().is_some_and(|f| StrftimeItems::new(f).all(|i| i != Item::Error));
            let (zname, zone) = zone_obs(&tz);
            let mut text = "-".to_string();
            if let (true, Some(f), Some(t)) = (valid, &f, ts_of(&v)) {
                let f = f.clone();
                let direct = tz.is_none();
                let formatted = guarded(move || {
                    let items: Vec<Item> = StrftimeItems::new(&f).collect();
                    match (direct, zone) {
                        (true, _) => Some(t.format_with_items(items.into_iter()).to_string()),
                        (false, Some(vrl::compiler::TimeZone::Named(z))) => {
                            Some(t.with_timezone(&z).format_with_items(items.into_iter()).to_string())
                        }
                        (false, Some(vrl::compiler::TimeZone::Local)) => {
                            Some(t.with_timezone(&chrono::Local).format_with_items(items.into_iter()).to_string())
                        }
                        (false, None) => None,
                    }
                });
                match formatted {
                    Ok(Some(s)) if !s.is_empty() => text = hex(s.as_bytes()),
                    Ok(_) => {} // `-` decodes to the empty text
                    Err(_) => text = "panic".into(),
                }
            }
            return Some(Reply { obs: vec![if valid { "1" } else { "0" }.into(), zname, text], reply: show_res(&r) });
        }
        ("c25.parse_ts", [v, fmt, tz]) => {
            let (v, fmt, tz) = (parse_value(v)?, parse_value(fmt)?, opt(tz)?);
            let r = call("parse_timestamp", &v, &[("format", &Some(fmt.clone())), ("timezone", &tz)], "");
            let (zname, zone) = zone_obs(&tz);
            let (mut pf, mut pi) = ("-".to_string(), "-".to_string());
            if let (Some(s), Some(f)) = (lossy(&v), lossy(&fmt)) {
                pf = match DateTime::parse_from_str(&s, &f) {
                    Ok(d) => pair(d.timestamp(), d.timestamp_subsec_nanos()),
                    Err(_) => "none".into(),
                };
                if let Some(z) = zone {
                    let mut parsed = Parsed::new();
                    pi = "none".into();
                    if chrono::format::parse(&mut parsed, &s, StrftimeItems::new(&f)).is_ok() {
                        let d = match z {
                            vrl::compiler::TimeZone::Local => parsed
                                .to_datetime_with_timezone(&chrono::Local)
                                .map(|d| (d.timestamp(), d.timestamp_subsec_nanos())),
                            vrl::compiler::TimeZone::Named(t) => {
                                parsed.to_datetime_with_timezone(&t).map(|d| (d.timestamp(), d.timestamp_subsec_nanos()))
                            }
                        };
                        if let Ok((s, n)) = d {
                            pi = pair(s, n);
                        }
                    }
                }
            }
            return Some(Reply { obs: vec![zname, pf, pi], reply: show_res(&r) });
        }
        // ---- oracles: f(x) and g(f(x)) on the implementation ---------------------------------
        ("o.c25.int", [n, b]) => {
            let (n, b) = (Value::Integer(n.parse().ok()?), Value::Integer(b.parse().ok()?));
            let f = call("format_int", &n, &[("base", &Some(b.clone()))], "");
            let p = match &f {
                Ok(s) => call("parse_int", s, &[("base", &Some(b))], ""),
                Err(e) => Err(e.clone()),
            };
            return Some(Reply::oracle(vec![obs_res(&f), obs_res(&p)]));
        }
        ("o.c25.entries", [o]) => return Some(there_back(&parse_value(o)?, |v| call("to_entries", v, &[], ""), |v| call("from_entries", v, &[], ""))),
        ("o.c25.flatten", [o, sep]) => {
            let sep = Some(Value::Bytes(unhex(sep)?.into()));
            if sep == Some(Value::Bytes(Vec::new().into())) {
                return None; // stack overflow of the real unflatten (C04)
            }
            return Some(there_back(
                &parse_value(o)?,
                |v| call("flatten", v, &[("separator", &sep)], ""),
                |v| call("unflatten", v, &[("separator", &sep)], ""),
            ));
        }
        ("o.c25.aton", [n]) => {
            return Some(there_back(&Value::Integer(n.parse().ok()?), |v| call("ip_ntoa", v, &[], ""), |v| call("ip_aton", v, &[], "")));
        }
        ("o.c25.ntoa", [t]) => {
            return Some(there_back(&Value::Bytes(unhex(t)?.into()), |v| call("ip_aton", v, &[], ""), |v| call("ip_ntoa", v, &[], "")));
        }
        ("o.c25.pton", [b]) => {
            return Some(there_back(&Value::Bytes(unhex(b)?.into()), |v| call("ip_ntop", v, &[], ""), |v| call("ip_pton", v, &[], "")));
        }
        ("o.c25.mapped", [a]) => {
            let o = unhex(a)?;
            if o.len() != 4 {
                return None;
            }
            let text = Value::from(format!("{}.{}.{}.{}", o[0], o[1], o[2], o[3]));
            return Some(there_back(&text, |v| call("ip_to_ipv6", v, &[], ""), |v| call("ipv6_to_ipv4", v, &[], "")));
        }
        ("o.c25.unix", [t, u]) => {
            let lit = unit_lit(u)?;
            let t = parse_value(&format!("ts:{t}"))?;
            return Some(there_back(&t, |v| call("to_unix_timestamp", v, &[], lit), |v| call("from_unix_timestamp", v, &[], lit)));
        }
        ("o.c25.unix_inv", [n, u]) => {
            let lit = unit_lit(u)?;
            let n = Value::Integer(n.parse().ok()?);
            return Some(there_back(&n, |v| call("from_unix_timestamp", v, &[], lit), |v| call("to_unix_timestamp", v, &[], lit)));
        }
        ("o.c25.timestamp", [t, fmt, tz]) => {
            let t = parse_value(&format!("ts:{t}"))?;
            let fmt = Some(Value::Bytes(unhex(fmt)?.into()));
            let tz = if tz == "-" { None } else { Some(Value::Bytes(unhex(tz)?.into())) };
            let mut r = there_back(
                &t,
                |v| call("format_timestamp", v, &[("format", &fmt), ("timezone", &tz)], ""),
                |v| call("parse_timestamp", v, &[("format", &fmt), ("timezone", &tz)], ""),
            );
            // seconds of the zone's UTC offset at `t` (chrono-tz), for the classification
            use chrono::{Offset, TimeZone as _};
            let off = match (zone_obs(&tz), ts_of(&t)) {
                ((_, Some(vrl::compiler::TimeZone::Named(z))), Some(d)) if tz.is_some() => {
                    z.offset_from_utc_datetime(&d.naive_utc()).fix().local_minus_utc()
                }
                ((_, Some(vrl::compiler::TimeZone::Local)), Some(d)) if tz.is_some() => {
                    chrono::Local.offset_from_utc_datetime(&d.naive_utc()).fix().local_minus_utc()
                }
                _ => 0,
            };
            r.obs.push(off.to_string());
            return Some(r);
        }
        _ => return None,
    };
    Some(Reply::plain(show_res(&r)))
}

fn there_back(
    x: &Value,
    f: impl Fn(&Value) -> Result<Value, String>,
    g: impl Fn(&Value) -> Result<Value, String>,
) -> Reply {
    let there = f(x);
    let back = match &there {
        Ok(y) => g(y),
        Err(e) => Err(e.clone()),
    };
    Reply::oracle(vec![obs_res(&there), obs_res(&back)])
}

// ------------------------------------------------------------------------------------------
// generators

fn s(v: &Value) -> String {
    show_value(v)
}
fn bytes(b: &[u8]) -> Value {
    Value::Bytes(b.to_vec().into())
}
fn int(i: i64) -> Value {
    Value::Integer(i)
}

fn gen_int(rng: &mut Rng) -> i64 {
    match rng.below(8) {
        0 => *rng.pick(edge_ints()),
        1 => rng.range(-40, 40),
        2 => {
            // around a power of a small base
            let b = rng.range(2, 36);
            let k = rng.below(13) as u32;
            b.checked_pow(k).unwrap_or(i64::MAX).wrapping_add(rng.range(-1, 1))
        }
        3 => (rng.next() >> rng.below(64)) as i64,
        4 => -((rng.next() >> (1 + rng.below(63))) as i64),
        5 => i64::MIN + rng.range(0, 40),
        6 => i64::MAX - rng.range(0, 40),
        _ => rng.next() as i64,
    }
}

const DIGIT_ALPHABET: &[u8] = b"00112789abfzgAFZG+-_ .xob";

fn gen_digit_string(rng: &mut Rng) -> (Vec<u8>, i64) {
    let mut out = Vec::new();
    match rng.below(6) {
        0 => out.extend_from_slice(b"0x"),
        1 => out.extend_from_slice(b"0b"),
        2 => out.extend_from_slice(b"0o"),
        3 => out.push(b'0'),
        4 => out.push(*rng.pick(&[b'+', b'-'])),
        _ => {}
    }
    if rng.chance(1, 6) {
        out.push(*rng.pick(&[b'+', b'-']));
    }
    let n = match rng.below(5) {
        0 => 0,
        1 => rng.below(3),
        2 => 60 + rng.below(10),
        _ => rng.below(20),
    };
    let radix = rng.range(2, 36) as u32;
    let noisy = rng.chance(1, 3);
    for _ in 0..n {
        if !noisy || rng.chance(5, 6) {
            out.push(std::char::from_digit(rng.below(radix as u64) as u32, radix).unwrap() as u8);
        } else {
            out.push(*rng.pick(DIGIT_ALPHABET));
        }
    }
    match if noisy { rng.below(8) } else { 99 } {
        0 => out.extend_from_slice("é".as_bytes()),
        1 => out.push(0xff),
        2 => out.insert(0, 0xc3),
        3 => out.push(b' '),
        _ => {}
    }
    (out, radix as i64)
}

fn gen_base(rng: &mut Rng) -> String {
    match rng.below(20) {
        0 => "-".into(),
        1 => s(&int(*rng.pick(&[0, 1, -1, 37, 100, i64::MAX, i64::MIN, -16]))),
        2 => s(rng.pick(&[Value::Null, Value::from("10"), Value::Boolean(true)])),
        _ => s(&int(rng.range(2, 36))),
    }
}

fn emit_int(sink: &mut Sink, n: i64, b: i64) {
    let (sn, sb) = (s(&int(n)), s(&int(b)));
    let f = sink.emit("c25.format_int", &[sn, sb.clone()]);
    if let Some(Reply { reply, .. }) = f {
        if let Some(v) = reply.strip_prefix("ok\t") {
            sink.emit("c25.parse_int", &[v.to_string(), sb]);
        }
    }
    sink.emit("o.c25.int", &[n.to_string(), b.to_string()]);
}

fn gen_ints(sink: &mut Sink, rng: &mut Rng, n: u64) {
    // every base × every edge value (exhaustive in the base)
    for b in 2..=36 {
        for &x in edge_ints() {
            emit_int(sink, x, b);
            sink.count("c25:int_edge");
        }
        for k in [1u32, 2, 12, 13, 62, 63] {
            if let Some(p) = (b as i64).checked_pow(k) {
                for d in [-1, 0, 1] {
                    emit_int(sink, p + d, b);
                    emit_int(sink, -(p + d), b);
                }
            }
        }
    }
    // out-of-range bases, default base
    for b in [-1, 0, 1, 37, 64, i64::MAX, i64::MIN] {
        emit_int(sink, 255, b);
        emit_int(sink, i64::MIN, b);
    }
    for &x in edge_ints() {
        sink.emit("c25.format_int", &[s(&int(x)), "-".into()]);
    }
    sink.emit("c25.format_int", &[s(&Value::from("12")), "-".into()]);
    sink.emit("c25.format_int", &[s(&int(12)), s(&Value::Null)]);
    // all bases × random values
    for _ in 0..n / 8 {
        let x = gen_int(rng);
        for b in 2..=36 {
            emit_int(sink, x, b);
        }
        sink.count("c25:int_allbases");
    }
    for _ in 0..n {
        emit_int(sink, gen_int(rng), rng.range(2, 36));
        sink.count("c25:int_random");
    }
    // parse_int on generated (often malformed) digit strings
    for fixed in [
        "", "0", "00", "0x", "0b", "0o", "0x-5", "0x+5", "+", "-", "+-5", "-0", "+0", "0b102", "0o8", "08", "0_1", " 1", "1 ",
        "9223372036854775807", "9223372036854775808", "-9223372036854775808", "-9223372036854775809", "0x7fffffffffffffff",
        "0x8000000000000000", "0x-8000000000000000", "0b-1", "0B1", "0X1f", "1e3", "١٢", "zz", "ZZ", "Zz",
    ] {
        sink.emit("c25.parse_int", &[s(&Value::from(fixed)), "-".into()]);
        for b in [2, 8, 10, 16, 36] {
            sink.emit("c25.parse_int", &[s(&Value::from(fixed)), s(&int(b))]);
        }
    }
    sink.emit("c25.parse_int", &[s(&int(5)), "-".into()]);
    for _ in 0..2 * n {
        let (d, radix) = gen_digit_string(rng);
        let base = if rng.chance(2, 3) { s(&int(radix)) } else { gen_base(rng) };
        let r = sink.emit("c25.parse_int", &[s(&bytes(&d)), base]);
        sink.count(if r.is_some_and(|r| r.reply.starts_with("ok")) { "c25:parse_int_ok" } else { "c25:parse_int_err" });
    }
}

pub const FLAT_KEYS: &[&str] = &["a", "b", "c", "xa", "ay", "a.b", ".", "", "é", "0", "1", "a_b", "aa", "k\\n", "a b", "x", "y", "::"];
pub const SEPS: &[&str] = &[".", ".", ".", "_", "aa", "a", "::", "é", "a.", ".a", "ab"];

fn gen_obj(rng: &mut Rng, depth: u32, keys: &[&str], allow_empty: bool) -> Value {
    let n = if allow_empty { rng.below(4) } else { 1 + rng.below(3) };
    let mut m = ObjectMap::new();
    for _ in 0..n {
        let k = *rng.pick(keys);
        let v = if depth > 0 && rng.chance(1, 2) {
            gen_obj(rng, depth - 1, keys, allow_empty)
        } else if rng.chance(1, 5) {
            gen_value(rng, 2, keys)
        } else {
            gen_scalar(rng)
        };
        m.insert(k.into(), v);
    }
    Value::Object(m)
}

fn gen_entries(sink: &mut Sink, rng: &mut Rng, n: u64) {
    for fixed in [
        "{ }", "[ ]", "n", "i:1", "[ i:1 i:2 ]", "[ [ ] { } ]",
        "[ { k:6b6579 b:61 k:76616c7565 i:1 } { k:6b6579 b:61 k:76616c7565 i:2 } ]",
        "[ { k:4b6579 b:62 k:56616c7565 i:1 } { k:6e616d65 b:63 } { k:4e616d65 b:64 k:76616c7565 n } ]",
        "[ { k:6b6579 n k:4b6579 f k:6e616d65 b:78 } ]",
        "[ { k:6b6579 f k:6e616d65 t } ]",
        "[ { k:6b6579 i:1 } ]", "[ { } ]", "[ { k:76616c7565 i:1 } ]", "[ i:1 ]",
        "[ { k:6b6579 b:ff k:76616c7565 i:1 } { k:6b6579 b:c328 k:76616c7565 i:2 } { k:6b6579 b:e282 } { k:6b6579 b:f0908c k:56616c7565 t } ]",
        "[ { k:6b6579 b:efbfbd k:76616c7565 i:1 } { k:6b6579 b:ff k:76616c7565 i:2 } ]",
        "[ { k:6b6579 b:7a k:76616c7565 i:1 } { k:6b6579 b:61 k:76616c7565 i:2 } { k:6b6579 b:6d } ]",
        "[ { k:56616c7565 i:1 k:6b6579 b:61 k:76616c7565 n } ]",
    ] {
        let fixed = s(&parse_value(fixed).unwrap()); // keys in BTreeMap order
        sink.emit("c25.to_entries", &[fixed.clone()]);
        sink.emit("c25.from_entries", &[fixed]);
    }
    for _ in 0..n {
        let keys: &[&str] = if rng.chance(1, 2) { KEYS } else { FLAT_KEYS };
        let v = if rng.chance(5, 6) { gen_obj(rng, 2, keys, true) } else { gen_value(rng, 3, keys) };
        if let Some(r) = sink.emit("c25.to_entries", &[s(&v)]) {
            if let Some(x) = r.reply.strip_prefix("ok\t") {
                sink.emit("c25.from_entries", &[x.to_string()]);
            }
        }
        if matches!(v, Value::Object(_)) {
            sink.emit("o.c25.entries", &[s(&v)]);
            sink.count("c25:entries_object");
        }
        // malformed / aliased entry lists
        let m = rng.below(4);
        let mut arr = Vec::new();
        for _ in 0..m {
            let mut e = ObjectMap::new();
            for _ in 0..rng.below(4) {
                let k = *rng.pick(&["key", "Key", "name", "Name", "value", "Value", "other"]);
                let val = match rng.below(6) {
                    0 => Value::Null,
                    1 => Value::Boolean(rng.chance(1, 2)),
                    2 => gen_scalar(rng),
                    _ => bytes(&gen_bytes(rng)),
                };
                e.insert(k.into(), val);
            }
            arr.push(if rng.chance(1, 12) { gen_scalar(rng) } else { Value::Object(e) });
        }
        sink.emit("c25.from_entries", &[s(&Value::Array(arr))]);
    }
}

/// the object lies in the domain the property words (spine only): keys without the separator,
/// nested objects non-empty — used only to measure how many oracle cases are inside the domain.
fn spine_in_domain(v: &Value, sep: &str) -> bool {
    match v {
        Value::Object(m) => m.iter().all(|(k, x)| {
            !k.as_str().contains(sep) && !matches!(x, Value::Object(o) if o.is_empty()) && spine_in_domain(x, sep)
        }),
        _ => true,
    }
}

fn single_entry_spine(v: &Value) -> bool {
    match v {
        Value::Object(m) => m.len() <= 1 && m.values().all(single_entry_spine),
        _ => true,
    }
}

fn emit_unflatten(sink: &mut Sink, v: &Value, sep: &str, rec: &str) {
    if sep == "b:" && !single_entry_spine(v) {
        return; // would overflow the stack of the real function (C04, DESIGN §8 #48)
    }
    sink.emit("c25.unflatten", &[s(v), sep.into(), rec.into()]);
}

fn gen_flatten(sink: &mut Sink, rng: &mut Rng, n: u64) {
    for (o, sep) in [
        ("{ k:7861 { k:79 i:1 } }", "aa"),
        ("{ k:61 { k:62 i:1 } }", "."),
        ("{ k:61 { k:62 { } k:63 [ ] k:64 [ { k:652e66 { } } ] } k:612e64 i:5 }", "."),
        ("{ k:61 { k:62 i:1 } k:612e62 i:2 }", "."),
        ("{ k:61 i:3 k:612e62 i:2 k:612e63 i:4 }", "."),
        ("{ }", "."),
        ("{ k: { k: i:1 } }", "."),
        ("{ k:61 { k:62 i:1 } k:6121 i:2 }", "."),
    ] {
        let sepv = s(&Value::from(sep));
        sink.emit("c25.flatten", &[o.into(), sepv.clone(), "-".into()]);
        emit_unflatten(sink, &parse_value(o).unwrap(), &sepv, "-");
        sink.emit("o.c25.flatten", &[o.into(), hex(sep.as_bytes())]);
    }
    // empty separator: terminates only when no object has two entries
    for o in ["{ }", "{ k:616263 i:1 }", "{ k: i:1 }", "{ k:c3a961 { k:78 i:2 } }"] {
        emit_unflatten(sink, &parse_value(o).unwrap(), "b:", "-");
        emit_unflatten(sink, &parse_value(o).unwrap(), "b:", "f");
        sink.emit("c25.flatten", &[o.into(), "b:".into(), "-".into()]);
    }
    for bad in ["n", "i:1", "b:61"] {
        sink.emit("c25.flatten", &[bad.into(), "-".into(), "-".into()]);
        sink.emit("c25.unflatten", &[bad.into(), "-".into(), "-".into()]);
        sink.emit("c25.flatten", &["{ }".into(), bad.into(), "-".into()]);
        sink.emit("c25.unflatten", &["{ }".into(), if bad == "b:61" { "i:2".into() } else { bad.into() }, "-".into()]);
        sink.emit("c25.unflatten", &["{ }".into(), "-".into(), bad.into()]);
    }
    sink.emit("c25.flatten", &["[ ]".into(), "n".into(), "-".into()]);
    sink.emit("c25.unflatten", &["[ ]".into(), "-".into(), "-".into()]);
    sink.emit("c25.flatten", &["{ k:61 { k:62 i:1 } }".into(), "b:ff".into(), "-".into()]);
    sink.emit("c25.unflatten", &["{ k:61efbfbd62 i:1 }".into(), "b:ff".into(), "-".into()]);
    for _ in 0..n {
        let sep = *rng.pick(SEPS);
        let simple = rng.chance(1, 2);
        let keys: &[&str] = if simple { &["a", "b", "c", "x", "y", "é", "0", "k\\n", "a b"] } else { FLAT_KEYS };
        let allow_empty = !simple || rng.chance(1, 4);
        let v = if rng.chance(1, 8) { gen_value(rng, 3, keys) } else { gen_obj(rng, 3, keys, allow_empty) };
        let sepv = if rng.chance(1, 6) && sep == "." { "-".to_string() } else { s(&Value::from(sep)) };
        let ex = if rng.chance(1, 5) {
            let ks: Vec<Value> = (0..rng.below(3)).map(|_| Value::from(*rng.pick(&["a", "b", "xa", "a.b", "é", "0", ""]))).collect();
            s(&Value::Array(ks))
        } else {
            "-".to_string()
        };
        let f = sink.emit("c25.flatten", &[s(&v), sepv.clone(), ex]);
        let rec = match rng.below(4) {
            0 => "f",
            1 => "t",
            _ => "-",
        };
        // unflatten what flatten produced, and the original (whose keys may contain the separator)
        if let Some(r) = f {
            if let Some(x) = r.reply.strip_prefix("ok\t") {
                if let Some(fv) = parse_value(x) {
                    emit_unflatten(sink, &fv, &sepv, rec);
                }
            }
        }
        emit_unflatten(sink, &v, &sepv, rec);
        if matches!(v, Value::Object(_)) {
            if sink.emit("o.c25.flatten", &[s(&v), hex(sep.as_bytes())]).is_some() {
                sink.count(if simple { "c25:flatten_simple_keys" } else { "c25:flatten_nasty_keys" });
                sink.count(if spine_in_domain(&v, sep) { "c25:flatten_oracle_in_worded_domain" } else { "c25:flatten_oracle_outside_domain" });
            }
        }
        // keys made of joined pieces, so that unflatten has real work (groups, conflicts)
        let mut m = ObjectMap::new();
        for _ in 0..1 + rng.below(5) {
            let parts: Vec<&str> = (0..1 + rng.below(4)).map(|_| *rng.pick(&["a", "b", "c", "", "xa", "é"])).collect();
            let val = if rng.chance(1, 4) { gen_obj(rng, 1, &["p.q", "p", "q", "p.r"], true) } else { gen_scalar(rng) };
            m.insert(parts.join(sep).into(), val);
        }
        emit_unflatten(sink, &Value::Object(m), &sepv, rec);
    }
}

fn gen_v4_text(rng: &mut Rng) -> String {
    let mut parts: Vec<String> = (0..4)
        .map(|_| match rng.below(10) {
            0 => "0".into(),
            1 => "255".into(),
            2 => "256".into(),
            3 => format!("0{}", rng.below(100)),
            4 => rng.below(2000).to_string(),
            _ => rng.below(256).to_string(),
        })
        .collect();
    match rng.below(14) {
        0 => {
            parts.pop();
        }
        1 => parts.push("1".into()),
        2 => parts[0] = String::new(),
        3 => parts[1] = " 1".into(),
        4 => parts[3].push(' '),
        5 => parts[2] = "+1".into(),
        6 => parts[0] = "0x1".into(),
        _ => {}
    }
    let j = parts.join(".");
    match rng.below(20) {
        0 => format!("{j}."),
        1 => format!(".{j}"),
        2 => j.replace('.', ":"),
        3 => format!("{j}é"),
        _ => j,
    }
}

fn gen_v6_segments(rng: &mut Rng) -> [u16; 8] {
    let mut g = [0u16; 8];
    for x in g.iter_mut() {
        *x = match rng.below(6) {
            0 | 1 => 0,
            2 => 0xffff,
            3 => rng.below(16) as u16,
            _ => rng.next() as u16,
        };
    }
    match rng.below(8) {
        0 => g = [0, 0, 0, 0, 0, 0xffff, rng.next() as u16, rng.next() as u16],
        1 => g = [0, 0, 0, 0, 0, 0, rng.next() as u16, rng.next() as u16],
        2 => g = [0; 8],
        3 => g = [0, 0, 0, 0, 0, 0, 0, 1],
        _ => {}
    }
    g
}

fn gen_v6_text(rng: &mut Rng) -> String {
    const FIXED: &[&str] = &[
        "::", "::1", "1::", "1:2:3:4:5:6:7:8", "::ffff:1.2.3.4", "1:2:3:4:5:6:1.2.3.4", "::1.2.3.4", "1::1.2.3.4", "1:2:3:4:5:6:7::",
        "::2:3:4:5:6:7:8", "1:2:3:4:5:6:7:8:9", "1:2:3:4:5:6:7", ":::", "1::2::3", "1:", ":1", "12345::", "::FFFF:1.2.3.4", "0001::", "::00001",
        "1.2.3.4::", "::1.2.3.4:5", "1:2:3:4:5:6:7:1.2.3.4", "1:2:3:4:5:1.2.3.4", "::1.2.3", "::1.2.3.256", "::01.2.3.4", "fe80::1%eth0", "[::1]",
        " ::1", "::1 ", "::g", "1:2:3:4::5:6:7:8", "1:2:3::5:6:7:8", "::ffff:0:0", "::ffff:255.255.255.255", "0:0:0:0:0:ffff:102:304", "a:b:c:d:e:f:0:1",
    ];
    if rng.chance(1, 3) {
        return (*rng.pick(FIXED)).to_string();
    }
    let g = gen_v6_segments(rng);
    let mut t = std::net::Ipv6Addr::from(g).to_string();
    match rng.below(10) {
        0 => t = t.to_uppercase(),
        1 => t = g.iter().map(|x| format!("{x:04x}")).collect::<Vec<_>>().join(":"),
        2 => t = g.iter().map(|x| format!("{x:x}")).collect::<Vec<_>>().join(":"),
        3 => {
            let i = rng.below(t.len() as u64 + 1) as usize;
            t.insert(i, *rng.pick(&[':', '.', '0', 'f', ' ', 'g', '1']));
        }
        4 => {
            if !t.is_empty() {
                let i = rng.below(t.len() as u64) as usize;
                t.remove(i);
            }
        }
        5 => t = format!("{}:{}", &t, gen_v4_text(rng)),
        _ => {}
    }
    t
}

fn gen_ip(sink: &mut Sink, rng: &mut Rng, n: u64) {
    let edge_u32: &[i64] = &[0, 1, 255, 256, 65535, 65536, 16777215, 16777216, 2130706433, 4294967295, 4294967296, -1, i64::MAX, i64::MIN, 3232235777, 167772160];
    for &x in edge_u32 {
        sink.emit("c25.ip_ntoa", &[s(&int(x))]);
        sink.emit("o.c25.aton", &[x.to_string()]);
    }
    for bad in ["n", "b:31", "d:3ff0000000000000"] {
        sink.emit("c25.ip_ntoa", &[bad.into()]);
    }
    for bad in ["n", "i:1", "b:"] {
        for op in ["c25.ip_aton", "c25.ip_pton", "c25.ip_ntop", "c25.ip_to_ipv6", "c25.ipv6_to_ipv4"] {
            sink.emit(op, &[bad.into()]);
        }
    }
    for t in ["1.2.3.4", "255.255.255.255", "0.0.0.0", "01.2.3.4", "1.2.3.04", "1.2.3", "1.2.3.4.5", "256.1.1.1", "1..2.3", "1.2.3.4 ", "1.2.3.-4", "0000.0.0.0", "100.100.100.1000", "111.111.111.1111"] {
        for op in ["c25.ip_aton", "c25.ip_pton", "c25.ip_to_ipv6", "c25.ipv6_to_ipv4"] {
            sink.emit(op, &[s(&Value::from(t))]);
        }
    }
    for _ in 0..n {
        let x = match rng.below(4) {
            0 => rng.below(1 << 32) as i64,
            1 => (rng.below(256) << (8 * rng.below(4))) as i64,
            2 => rng.range(-5, 300),
            _ => (rng.next() as u32 & (rng.next() as u32)) as i64,
        };
        sink.emit("c25.ip_ntoa", &[s(&int(x))]);
        sink.emit("o.c25.aton", &[x.to_string()]);
        let t = Value::from(gen_v4_text(rng));
        let r = sink.emit("c25.ip_aton", &[s(&t)]);
        sink.count(if r.is_some_and(|r| r.reply.starts_with("ok")) { "c25:aton_text_ok" } else { "c25:aton_text_err" });
        if let Value::Bytes(tb) = &t {
            sink.emit("o.c25.ntoa", &[hex(tb)]);
        }
        sink.emit("c25.ip_pton", &[s(&t)]);
        sink.emit("c25.ipv6_to_ipv4", &[s(&t)]);
        sink.emit("c25.ip_to_ipv6", &[s(&t)]);
        // binary forms
        let b4: Vec<u8> = (0..4).map(|_| if rng.chance(1, 4) { *rng.pick(&[0u8, 255, 1, 10, 100]) } else { rng.next() as u8 }).collect();
        let g = gen_v6_segments(rng);
        let b16: Vec<u8> = g.iter().flat_map(|x| x.to_be_bytes()).collect();
        sink.emit("c25.ip_ntop", &[s(&bytes(&b4))]);
        sink.emit("c25.ip_ntop", &[s(&bytes(&b16))]);
        sink.emit("o.c25.pton", &[hex(&b4)]);
        sink.emit("o.c25.pton", &[hex(&b16)]);
        sink.emit("o.c25.mapped", &[hex(&b4)]);
        if rng.chance(1, 8) {
            let len = *rng.pick(&[0u64, 1, 3, 5, 8, 15, 17, 32]);
            let junk: Vec<u8> = (0..len).map(|_| rng.next() as u8).collect();
            sink.emit("c25.ip_ntop", &[s(&bytes(&junk))]);
        }
        // IPv6 texts (std's parser against its transcription)
        let t6 = Value::from(gen_v6_text(rng));
        let r = sink.emit("c25.ip_pton", &[s(&t6)]);
        sink.count(if r.is_some_and(|r| r.reply.starts_with("ok")) { "c25:pton_v6text_ok" } else { "c25:pton_v6text_err" });
        sink.emit("c25.ip_to_ipv6", &[s(&t6)]);
        sink.emit("c25.ipv6_to_ipv4", &[s(&t6)]);
        sink.emit("c25.ip_aton", &[s(&t6)]);
    }
}

const MIN_SECS: i64 = -8334601228800;
const MAX_SECS: i64 = 8210266876799;

fn gen_ts_ns(rng: &mut Rng) -> i128 {
    let e9 = 1_000_000_000i128;
    match rng.below(10) {
        0 => *rng.pick(&[
            0,
            1,
            -1,
            999,
            -999,
            1_000,
            -1_000,
            999_999_999,
            -999_999_999,
            e9,
            -e9,
            i64::MAX as i128,
            i64::MIN as i128,
            i64::MAX as i128 + 1,
            i64::MIN as i128 - 1,
            MIN_SECS as i128 * e9,
            MIN_SECS as i128 * e9 + 1,
            MAX_SECS as i128 * e9 + 999_999_999,
            MAX_SECS as i128 * e9 + 999_999_998,
            MAX_SECS as i128 * e9,
        ]),
        1 => rng.range(-3_000_000, 3_000_000) as i128,
        2 => rng.range(MIN_SECS, MAX_SECS) as i128 * e9 + rng.below(e9 as u64) as i128,
        3 => i64::MAX as i128 + rng.range(-2_000_000_000, 2_000_000_000) as i128,
        4 => i64::MIN as i128 + rng.range(-2_000_000_000, 2_000_000_000) as i128,
        5 => rng.range(-4_000_000_000, 4_000_000_000) as i128 * e9,
        6 => rng.range(-4_000_000_000, 4_000_000_000) as i128 * e9 + rng.below(1000) as i128 * 1_000_000,
        _ => rng.range(-4_000_000_000, 4_000_000_000) as i128 * e9 + rng.below(e9 as u64) as i128,
    }
}

fn gen_unix(sink: &mut Sink, rng: &mut Rng, n: u64) {
    let units = ["s", "ms", "us", "ns"];
    let edge_n = |u: &str| -> Vec<i64> {
        let k: i64 = match u {
            "s" => 1,
            "ms" => 1_000,
            "us" => 1_000_000,
            _ => 1,
        };
        let mut v = vec![0, 1, -1, i64::MAX, i64::MIN, i64::MAX - 1, i64::MIN + 1, 1_600_000_000, -1_600_000_000];
        if u != "ns" {
            for d in [-2, -1, 0, 1, 2] {
                v.push(MIN_SECS.saturating_mul(k).saturating_add(d));
                v.push((MAX_SECS.saturating_mul(k)).saturating_add(k - 1).saturating_add(d));
            }
        }
        v
    };
    for u in units {
        for x in edge_n(u) {
            sink.emit("c25.from_unix", &[s(&int(x)), u.into()]);
            sink.emit("o.c25.unix_inv", &[x.to_string(), u.into()]);
        }
        for bad in ["n", "b:31", "d:3ff0000000000000", "ts:0"] {
            sink.emit("c25.from_unix", &[bad.into(), u.into()]);
        }
        for bad in ["n", "b:31", "i:1"] {
            sink.emit("c25.to_unix", &[bad.into(), u.into()]);
        }
    }
    sink.emit("c25.from_unix", &["i:5".into(), "-".into()]);
    sink.emit("c25.to_unix", &["ts:5000000000".into(), "-".into()]);
    for i in 0..n {
        let u = units[(i % 4) as usize];
        let t = gen_ts_ns(rng);
        if sink.emit("c25.to_unix", &[format!("ts:{t}"), u.into()]).is_some() {
            sink.emit("o.c25.unix", &[t.to_string(), u.into()]);
            sink.count("c25:unix_ts");
        }
        let x = match rng.below(6) {
            0 => *rng.pick(&edge_n(u)),
            1 => rng.range(-100_000, 100_000),
            2 => rng.next() as i64,
            3 => rng.range(MIN_SECS, MAX_SECS),
            4 => (rng.next() >> rng.below(40)) as i64,
            _ => rng.range(-4_000_000_000_000, 4_000_000_000_000),
        };
        sink.emit("c25.from_unix", &[s(&int(x)), u.into()]);
        sink.emit("o.c25.unix_inv", &[x.to_string(), u.into()]);
    }
}

const FULL_FORMATS: &[&str] = &["%+", "%Y-%m-%dT%H:%M:%S%.9f%z", "%Y-%m-%d %H:%M:%S%.f %:z", "%d/%m/%Y %H.%M.%S%.9f %z", "%s%.9f%z"];
const OTHER_FORMATS: &[&str] = &[
    "%Y-%m-%d %H:%M:%S", "%F %T%.f", "%v %R", "%d %B %Y %H:%M", "%Y-%m-%dT%H:%M:%S%.3f%:z", "%Q", "%", "%Y %Z", "plain", "", "%a %b %e %T %Y", "%#z %F %T",
];
const ZONES: &[&str] = &["UTC", "Europe/Berlin", "America/New_York", "Asia/Kolkata", "Australia/Lord_Howe", "local", "", "Nowhere/Bad", "utc", "Etc/GMT+12"];

fn gen_tz(rng: &mut Rng) -> String {
    match rng.below(12) {
        0..=4 => "-".into(),
        5 => s(rng.pick(&[Value::Null, int(1)])),
        _ => s(&Value::from(*rng.pick(ZONES))),
    }
}

fn gen_timestamps(sink: &mut Sink, rng: &mut Rng, n: u64) {
    let e9 = 1_000_000_000i128;
    for i in 0..n {
        // range of years 0001..9999 mostly (chrono's parsers), the wide range occasionally
        let t: i128 = match rng.below(8) {
            0 => 0,
            1 => rng.range(-62135596800, 253402300799) as i128 * e9 + rng.below(e9 as u64) as i128,
            2 => rng.range(0, 2_000_000_000) as i128 * e9,
            3 => rng.range(0, 2_000_000_000) as i128 * e9 + rng.below(1000) as i128 * 1_000_000,
            _ => rng.range(-2_000_000_000, 4_000_000_000) as i128 * e9 + rng.below(e9 as u64) as i128,
        };
        let full = *rng.pick(FULL_FORMATS);
        let fmt = if i % 3 == 0 { *rng.pick(OTHER_FORMATS) } else { full };
        let tz = gen_tz(rng);
        let tsv = format!("ts:{t}");
        let fv = if rng.chance(1, 40) { "n".to_string() } else { s(&Value::from(fmt)) };
        let f = sink.emit("c25.format_ts", &[tsv.clone(), fv.clone(), tz.clone()]);
        // parse what was formatted (same format), and garbage
        let text = f.and_then(|r| r.reply.strip_prefix("ok\t").map(str::to_string));
        if let Some(x) = &text {
            sink.emit("c25.parse_ts", &[x.clone(), fv.clone(), tz.clone()]);
            sink.emit("c25.parse_ts", &[x.clone(), fv.clone(), gen_tz(rng)]);
            sink.count("c25:parse_ts_of_formatted");
        }
        if rng.chance(1, 6) {
            let junk = rng.pick(&["", "2020-01-01", "2020-13-01 00:00:00", "1880-01-01 00:00:60", "x", "2020-01-01 00:00:60"]);
            sink.emit("c25.parse_ts", &[s(&Value::from(*junk)), s(&Value::from("%Y-%m-%d %H:%M:%S")), gen_tz(rng)]);
        }
        if rng.chance(1, 20) {
            sink.emit("c25.parse_ts", &[tsv.clone(), fv.clone(), tz.clone()]);
            sink.emit("c25.parse_ts", &["i:1".into(), fv.clone(), tz.clone()]);
            sink.emit("c25.format_ts", &["i:1".into(), fv.clone(), tz.clone()]);
        }
        // round trip on the implementation, full-precision formats with an offset
        let ztz = match rng.below(3) {
            0 => "-".to_string(),
            _ => hex(rng.pick(&ZONES[..6]).as_bytes()),
        };
        if sink.emit("o.c25.timestamp", &[t.to_string(), hex(full.as_bytes()), if ztz.is_empty() { "-".into() } else { ztz }]).is_some() {
            sink.count("c25:timestamp_roundtrip");
        }
    }
}

pub fn generate(sink: &mut Sink, rng: &mut Rng, n: u64) {
    gen_ints(sink, rng, n);
    gen_entries(sink, rng, n);
    gen_flatten(sink, rng, n);
    gen_ip(sink, rng, n);
    gen_unix(sink, rng, n);
    gen_timestamps(sink, rng, n);
}
