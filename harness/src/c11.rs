//! C11 – arithmetic follows the documented numeric semantics.
//! Correspondence: `ar.{add,sub,mul,div,rem,and,or}`, `ar.or.err`, `vrl.{…}`, `vrl.lit.{…}`,
//! `f64.{add,sub,mul,div,rem}`, `f64.ofint` (see arith.rs).
//! Oracle `o.c11 <a> <b>`: results of `+ - * / mod` through compiled VRL programs on (a, b) and, for
//! a mixed integer/float pair, on the pair with the integer converted by the hardware (`as f64`).
use crate::arith::*;
use crate::rng::Rng;
use crate::sink::{Reply, Sink};
use crate::wire::*;
use vrl::value::Value;

const ARI: &[&str] = &["add", "sub", "mul", "div", "mod"];

fn five(a: &Value, b: &Value) -> Option<Vec<String>> {
    ARI.iter()
        .map(|c| if *c == "mod" && !(is_num(a) && is_num(b)) { Some("-".to_string()) } else { via_vrl(c, a, b) })
        .collect()
}

pub fn exec(op: &str, a: &[String]) -> Option<Reply> {
    match (op, a) {
        ("o.c11", [x, y]) => {
            let (x, y) = (parse_value(x)?, parse_value(y)?);
            let mut obs = five(&x, &y)?;
            let conv = match (&x, &y) {
                (Value::Integer(i), Value::Float(_)) => Some((fl(*i as f64), y.clone())),
                (Value::Float(_), Value::Integer(i)) => Some((x.clone(), fl(*i as f64))),
                _ => None,
            };
            match conv {
                Some((cx, cy)) => obs.extend(five(&cx, &cy)?),
                None => obs.extend(std::iter::repeat("-".to_string()).take(5)),
            }
            Some(Reply::oracle(obs))
        }
        _ => None,
    }
}

fn bits_of(v: &Value) -> Option<u64> {
    match v {
        Value::Float(x) => Some(x.to_bits()),
        Value::Integer(i) => Some((*i as f64).to_bits()),
        _ => None,
    }
}

fn emit_pair(sink: &mut Sink, rng: &mut Rng, a: &Value, b: &Value, all: bool) {
    let args = [show_value(a), show_value(b)];
    for c in ["add", "sub", "mul", "div", "rem", "and", "or"] {
        sink.emit(&format!("ar.{c}"), &args);
    }
    if matches!((a, b), (Value::Object(_), _) | (_, Value::Object(_))) {
        sink.emit("ar.merge", &args);
    }
    if let (Some(x), Some(y)) = (bits_of(a), bits_of(b)) {
        let fa = [format!("d:{x:016x}"), format!("d:{y:016x}")];
        for c in ["add", "sub", "mul", "div", "rem"] {
            sink.emit(&format!("f64.{c}"), &fa);
        }
    }
    for v in [a, b] {
        if let Value::Integer(i) = v {
            sink.emit("f64.ofint", &[i.to_string()]);
        }
    }
    if all || rng.chance(1, 4) {
        for c in ["add", "sub", "mul", "div", "mod", "and", "or"] {
            sink.emit(&format!("vrl.{c}"), &args);
        }
    }
    if all || rng.chance(1, 8) {
        for c in ["add", "sub", "mul", "div", "mod"] {
            if sink.emit(&format!("vrl.lit.{c}"), &args).is_some() {
                sink.count("c11:literal_program");
            }
        }
    }
    if all || rng.chance(1, 16) {
        sink.emit("ar.or.err", &args[..1]);
    }
    if sink.emit("o.c11", &args).is_none() {
        sink.count("c11:not_executable");
    }
}

pub fn generate(sink: &mut Sink, rng: &mut Rng, n: u64) {
    for (a, b) in edge_pairs() {
        emit_pair(sink, rng, &a, &b, true);
        sink.count("c11:edge_pair");
    }
    // the soft-float alone, on raw bit patterns (a denser sample than the Value-level ops give)
    for _ in 0..n {
        let x = gen_f64(rng);
        let y = gen_f64_near(rng, x);
        let fa = [format!("d:{:016x}", x.to_bits()), format!("d:{:016x}", y.to_bits())];
        for c in ["add", "sub", "mul", "div", "rem", "lt", "le", "eq"] {
            sink.emit(&format!("f64.{c}"), &fa);
        }
        sink.emit("f64.ofint", &[gen_int(rng).to_string()]);
        sink.count("c11:f64_pair");
    }
    for _ in 0..n {
        let (a, b, bucket) = gen_pair(rng);
        sink.count(&format!("c11:{bucket}"));
        emit_pair(sink, rng, &a, &b, false);
    }
}
