//! C20 – paths round-trip through text; all path parsers agree.
//!
//! Correspondence ops (text is always the hex of its UTF-8 bytes):
//!   c20.render  <v|e|m> <path>   String::from(&OwnedValuePath) / OwnedTargetPath::to_string()  -> hex text
//!   c20.seg     <seg>            Display for OwnedSegment                                          -> hex text
//!   c20.parse   <v|t> <text>     parse_value_path / parse_target_path -> ok [e|m] <path> | err | panic
//!   c20.vrl     <text>           the text as a whole VRL program: `path <e|m> <path>` when the real
//!                                parser yields exactly one root expression that is a query with an
//!                                external target (cross-checked against compile()'s target_queries),
//!                                `nopath` otherwise (parse error or any other program)
//! Oracle ops (observations made on the implementation, judged by the Lean driver):
//!   o.c20       <v|e|m> <path>   | rendered text, parse reply
//!   o.c20.seg   <seg>            | Display text, parse_value_path reply
//!   o.c20.agree <text>           | c20.vrl reply, c20.parse t reply
use crate::rng::Rng;
use crate::sink::{guarded, Reply, Sink};
use crate::wire::*;
use vrl::parser::ast::{Expr, QueryTarget, RootExpr};
use vrl::path::{parse_target_path, parse_value_path, OwnedSegment, OwnedTargetPath, OwnedValuePath, PathPrefix};

fn text_of(h: &str) -> Option<String> {
    String::from_utf8(unhex(h)?).ok()
}

fn prefix_tag(p: PathPrefix) -> &'static str {
    match p {
        PathPrefix::Event => "e",
        PathPrefix::Metadata => "m",
    }
}

fn render(kind: &str, p: &OwnedValuePath) -> Option<String> {
    Some(match kind {
        "v" => String::from(p),
        "e" => OwnedTargetPath::event(p.clone()).to_string(),
        "m" => OwnedTargetPath::metadata(p.clone()).to_string(),
        _ => return None,
    })
}

/// canonical reply of the string parsers; `kind` v = parse_value_path, t/e/m = parse_target_path.
fn parse_reply(kind: &str, text: &str) -> String {
    let t = text.to_string();
    if kind == "v" {
        match guarded(move || parse_value_path(&t)) {
            Err(_) => "panic".into(),
            Ok(Err(_)) => "err".into(),
            Ok(Ok(p)) => format!("ok {}", show_path(&p)),
        }
    } else {
        match guarded(move || parse_target_path(&t)) {
            Err(_) => "panic".into(),
            Ok(Err(_)) => "err".into(),
            Ok(Ok(tp)) => format!("ok {} {}", prefix_tag(tp.prefix), show_path(&tp.path)),
        }
    }
}

/// The text as a whole VRL program: `Some(path)` when the real parser yields exactly one root
/// expression and that is a query on the external target.
fn vrl_query(text: &str) -> Result<Option<OwnedTargetPath>, ()> {
    let t = text.to_string();
    let program = match guarded(move || vrl::parser::parse(&t)) {
        Err(_) => return Err(()),
        Ok(Err(_)) => return Ok(None),
        Ok(Ok(p)) => p,
    };
    if program.0.len() != 1 {
        return Ok(None);
    }
    let RootExpr::Expr(node) = program.0[0].inner() else { return Ok(None) };
    let Expr::Query(q) = node.inner() else { return Ok(None) };
    let QueryTarget::External(prefix) = q.target.inner() else { return Ok(None) };
    Ok(Some(OwnedTargetPath { prefix: *prefix, path: q.path.inner().clone() }))
}

/// `Some(true)`: compile() panicked (C04 territory, e.g. `.a[-9223372036854775808]` in
/// kind/crud/get.rs); `Some(false)`: compiled; `None`: compile error.
fn compile_check(text: &str, tp: &OwnedTargetPath) -> Result<bool, String> {
    let t = text.to_string();
    match guarded(move || crate::vrlrun::compile_info(&t)) {
        Ok(Ok(info)) if info.target_queries == vec![tp.clone()] => Ok(false),
        Ok(Ok(info)) => Err(format!("path-mismatch {:?}", info.target_queries)),
        Ok(Err(e)) => Err(format!("compile-error {}", e.replace(['\t', '\n'], " "))),
        Err(_) => Ok(true),
    }
}

fn vrl_reply(text: &str) -> String {
    match vrl_query(text) {
        Err(()) => "panic".into(),
        Ok(None) => "nopath".into(),
        Ok(Some(tp)) => {
            // cross-check: the compiler reports exactly this path as the program's only target query
            // (a panic inside compile() is not part of this reply; it is counted by the generator)
            if let Err(e) = compile_check(text, &tp) {
                return e;
            }
            format!("path {} {}", prefix_tag(tp.prefix), show_path(&tp.path))
        }
    }
}

fn parse_seg(s: &str) -> Option<OwnedSegment> {
    let p = parse_path(s)?;
    if p.segments.len() == 1 { p.segments.into_iter().next() } else { None }
}

pub fn exec(op: &str, a: &[String]) -> Option<Reply> {
    match (op, a) {
        ("c20.render", [kind, p]) => {
            let p = parse_path(p)?;
            Some(Reply::plain(hex(render(kind, &p)?.as_bytes())))
        }
        ("c20.seg", [s]) => Some(Reply::plain(hex(parse_seg(s)?.to_string().as_bytes()))),
        ("c20.parse", [kind, t]) if kind == "v" || kind == "t" => Some(Reply::plain(parse_reply(kind, &text_of(t)?))),
        ("c20.vrl", [t]) => Some(Reply::plain(vrl_reply(&text_of(t)?))),
        ("o.c20", [kind, p]) => {
            let p = parse_path(p)?;
            let text = render(kind, &p)?;
            Some(Reply::oracle(vec![hex(text.as_bytes()), parse_reply(kind, &text)]))
        }
        ("o.c20.seg", [s]) => {
            let text = parse_seg(s)?.to_string();
            Some(Reply::oracle(vec![hex(text.as_bytes()), parse_reply("v", &text)]))
        }
        ("o.c20.agree", [t]) => {
            let text = text_of(t)?;
            Some(Reply::oracle(vec![vrl_reply(&text), parse_reply("t", &text)]))
        }
        _ => None,
    }
}

// ---------------------------------------------------------------------------------------------
// generators
// ---------------------------------------------------------------------------------------------

/// the path alphabet of the exhaustive enumeration (DESIGN §7 C20).
pub const ALPHABET: &[char] = &['.', '%', '[', ']', '-', '"', '\\', 'a', '0', '@', '_', 'é', ' '];

/// wider alphabet of the random text stream; the VRL model claims exactness on it (no newline,
/// `;`, `#`, which make multi-expression programs / comments).
const WIDE: &[char] = &[
    '.', '%', '[', ']', '-', '"', '\\', 'a', '0', '@', '_', 'é', ' ', '{', '}', 'n', 'u', '1', '9', 'A', 'z', 'r', 's',
    't', 'f', '(', ')', '!', '\'', ',', '+', '\t', '7', '🤖', ':', '=', '/', '$', '?', '|', '&', '*', '<',
];

const FIELDS: &[&str] = &[
    "a", "b", "foo", "", "0", "123", "0a", "a0", "_", "__", "@", "@timestamp", "a b", "a.b", "a[0]", "[", "]", "\"",
    "\\", "a\"b", "a\\b", "\\\"", "\"\"", "é", "日本", "🤖", "-", "a-b", "-1", "%", ".", "..", " ", "\n", "\t", "a\nb",
    "{{a}}", "{{", "}}", "if", "null", "true", "A", "Z9_", "x@y", "\u{0}", "\u{7f}", "\u{80}", "\u{7ff}", "\u{800}",
    "\u{ffff}", "\u{10000}", "\u{10ffff}", "'", "a'b", "$", "a,b",
];

fn gen_field(rng: &mut Rng) -> String {
    match rng.below(10) {
        0..=4 => (*rng.pick(FIELDS)).to_string(),
        5 | 6 => {
            // random mix of nasty characters
            let n = rng.below(6);
            (0..n).map(|_| *rng.pick(WIDE)).collect()
        }
        7 => {
            let n = 1 + rng.below(8);
            (0..n).map(|_| *rng.pick(&['a', 'Z', '0', '9', '_', '@'])).collect()
        }
        8 => {
            let n = 1 + rng.below(4);
            (0..n).map(|_| *rng.pick(&['0', '1', '9'])).collect()
        }
        _ => {
            // arbitrary scalar values
            let n = rng.below(4);
            (0..n)
                .map(|_| loop {
                    if let Some(c) = char::from_u32(rng.below(0x11_0000) as u32) {
                        break c;
                    }
                })
                .collect()
        }
    }
}

fn gen_isize(rng: &mut Rng) -> isize {
    match rng.below(10) {
        0..=3 => rng.range(-12, 12) as isize,
        4 => isize::MAX,
        5 => isize::MIN,
        6 => *rng.pick(&[isize::MAX - 1, isize::MIN + 1, 10, -10, 100, 99, -100, 1 << 32, -(1 << 32), i32::MAX as isize]),
        7 => rng.range(-100_000, 100_000) as isize,
        _ => rng.next() as isize,
    }
}

fn gen_owned_path(rng: &mut Rng) -> OwnedValuePath {
    let len = match rng.below(10) {
        0 => 0,
        1..=4 => 1,
        5..=7 => 2,
        _ => 1 + rng.below(6) as usize,
    };
    let segments = (0..len)
        .map(|_| {
            if rng.chance(2, 3) {
                OwnedSegment::Field(gen_field(rng).into())
            } else {
                OwnedSegment::Index(gen_isize(rng))
            }
        })
        .collect();
    OwnedValuePath { segments }
}

fn h(s: &str) -> String {
    hex(s.as_bytes())
}

/// all ops on one owned path.
fn emit_path(sink: &mut Sink, p: &OwnedValuePath) {
    let sp = show_path(p);
    for kind in ["v", "e", "m"] {
        sink.emit("c20.render", &[kind.to_string(), sp.clone()]);
        if let Some(r) = sink.emit("o.c20", &[kind.to_string(), sp.clone()]) {
            sink.count(if r.obs[1].starts_with("ok") { "c20:rt_parsed" } else { "c20:rt_not_parsed" });
        }
        // the string parsers on the rendered text (model vs implementation)
        let text = render(kind, p).unwrap();
        sink.emit("c20.parse", &[if kind == "v" { "v" } else { "t" }.to_string(), h(&text)]);
    }
    sink.count(&format!("c20:path_len_{}", p.segments.len().min(4)));
    for seg in &p.segments {
        let ss = show_path(&OwnedValuePath { segments: vec![seg.clone()] });
        sink.emit("c20.seg", &[ss.clone()]);
        sink.emit("o.c20.seg", &[ss]);
        if let OwnedSegment::Field(f) = seg {
            let f = f.as_str();
            let bare = !f.is_empty() && f.chars().all(|c| c.is_ascii_alphanumeric() || c == '_' || c == '@');
            sink.count(if bare { "c20:field_bare" } else { "c20:field_quoted" });
            if f.contains('"') || f.contains('\\') {
                sink.count("c20:field_with_escape");
            }
            if !f.is_ascii() {
                sink.count("c20:field_non_ascii");
            }
        } else {
            sink.count("c20:index_segment");
        }
    }
}

/// all ops on one text.
fn emit_text(sink: &mut Sink, text: &str, vrl_model_exact: bool) {
    let ht = h(text);
    if let Some(r) = sink.emit("c20.parse", &["v".to_string(), ht.clone()]) {
        sink.count(&format!("c20:parse_v_{}", r.reply.split(' ').next().unwrap()));
    }
    if let Some(r) = sink.emit("c20.parse", &["t".to_string(), ht.clone()]) {
        sink.count(&format!("c20:parse_t_{}", r.reply.split(' ').next().unwrap()));
    }
    if vrl_model_exact {
        sink.emit("c20.vrl", &[ht.clone()]);
    }
    if let Some(r) = sink.emit("o.c20.agree", &[ht]) {
        let v = r.obs[0].starts_with("path");
        let s = r.obs[1].starts_with("ok");
        sink.count(match (v, s) {
            (true, true) => "c20:text_both_accept",
            (true, false) => "c20:text_vrl_only",
            (false, true) => "c20:text_string_parser_only",
            (false, false) => "c20:text_neither",
        });
        if v {
            if let Ok(Some(tp)) = vrl_query(text) {
                if compile_check(text, &tp) == Ok(true) {
                    sink.count("c20:vrl_compile_panicked");
                }
            }
        }
    }
}

fn enumerate(sink: &mut Sink, max_len: usize) {
    let k = ALPHABET.len();
    let mut idx: Vec<usize> = Vec::new();
    let mut text = String::new();
    for len in 0..=max_len {
        idx.clear();
        idx.resize(len, 0);
        loop {
            text.clear();
            for &i in &idx {
                text.push(ALPHABET[i]);
            }
            emit_text(sink, &text, true);
            sink.count("c20:exhaustive_texts");
            // next tuple
            let mut pos = len;
            loop {
                if pos == 0 {
                    break;
                }
                pos -= 1;
                idx[pos] += 1;
                if idx[pos] < k {
                    break;
                }
                idx[pos] = 0;
                if pos == 0 {
                    pos = usize::MAX;
                    break;
                }
            }
            if len == 0 || pos == usize::MAX {
                break;
            }
        }
    }
}

/// VRL-source spelling of a path: like `render`, with VRL string escapes for what VRL cannot take raw.
fn vrl_spelling(rng: &mut Rng, prefix: char, p: &OwnedValuePath) -> String {
    let mut out = String::new();
    out.push(prefix);
    for (i, seg) in p.segments.iter().enumerate() {
        match seg {
            OwnedSegment::Index(n) => {
                let pad = if rng.chance(1, 6) { " " } else { "" };
                out.push_str(&format!("[{pad}{n}{pad}]"));
            }
            OwnedSegment::Field(f) => {
                if i != 0 && !(rng.chance(1, 8)) {
                    out.push('.');
                }
                let f = f.as_str();
                let bare = !f.is_empty() && f.chars().all(|c| c.is_ascii_alphanumeric() || c == '_' || c == '@');
                if bare && rng.chance(3, 4) {
                    out.push_str(f);
                } else {
                    out.push('"');
                    for c in f.chars() {
                        match c {
                            '"' | '\\' => {
                                out.push('\\');
                                out.push(c)
                            }
                            '\n' if rng.chance(1, 2) => out.push_str("\\n"),
                            '\t' if rng.chance(1, 2) => out.push_str("\\t"),
                            '\0' => out.push_str("\\0"),
                            c if !c.is_ascii() && rng.chance(1, 3) => out.push_str(&format!("\\u{{{:x}}}", c as u32)),
                            c => out.push(c),
                        }
                    }
                    out.push('"');
                }
            }
        }
    }
    out
}

fn mutate(rng: &mut Rng, text: &str) -> String {
    let mut cs: Vec<char> = text.chars().collect();
    let edits = 1 + rng.below(2);
    for _ in 0..edits {
        let pos = rng.below(cs.len() as u64 + 1) as usize;
        match rng.below(3) {
            0 => cs.insert(pos, *rng.pick(WIDE)),
            1 if pos < cs.len() => {
                cs.remove(pos);
            }
            _ if pos < cs.len() => cs[pos] = *rng.pick(WIDE),
            _ => cs.push(*rng.pick(WIDE)),
        }
    }
    cs.into_iter().collect()
}

const EDGE_TEXTS: &[&str] = &[
    "", ".", "%", "..", "%.", ".%", "%%", "%.a", "..a", ".a..b", ".a.", "a.", "[-]", "[-0]", "[00]", "[0_0]", ".[0]",
    "[99999999999999999999]", "a[99999999999999999999]", "$[99999999999999999999]", "[-99999999999999999999]",
    "[9223372036854775807]", "[9223372036854775808]", "[-9223372036854775808]", "[-9223372036854775809]",
    "[9223372036854775810]", "[92233720368547758070]", "[-92233720368547758080]", "[009223372036854775807]",
    ".a[9223372036854775807]", ".a[9223372036854775808]", ".a[-9223372036854775808]", ".[-9223372036854775808]",
    ".a[ 0 ]", ".a[\t0]", ".a[0 0]", ".a[-]", ".a[- 0]", ".a[-_0]", ".a[0_]", ".a[_0]", ".a[0a]", ".a[0.]", ".a[0.0]",
    "._", ".__", "._0", ".0", ".0_", ".0_a", ".0a", ".0.a", ".0.0", ".a.0", ".a.0a", ".00a", ".@", ".0@", ".a@b", ".-",
    ".a-b", ".a-0", ".a - 0", ".a.if", ".null", ".true", ".array", ".r", ".s", ".t", ".r'a'", ".ar'", ".a(", ".a!",
    ".a\"b\"", ".\"a\"b", ".\"a\"\"b\"", ".\"a\".b", ".\"a\"[0]", ".[0]a", ".[0].a", ".[0][1]", ".[0]\"a\"", ". a", " .a ",
    ".a .b", ".a. b", ". \"a\"", "\t.a", ".a\t", ".\"\"", ".\"\\\"\"", ".\"\\\\\"", ".\"\\0\"", ".\"\\n\"", ".\"\\'\"", ".\"\\a\"",
    ".\"\\u{41}\"", ".\"\\u{}\"", ".\"\\u{110000}\"", ".\"\\u{d800}\"", ".\"\\u{0000000041}\"", ".\"\\u{41\"", ".\"\\u41\"",
    ".\"\\\n  x\"", ".\"a\nb\"", ".\"{{a}}\"", ".\"{{ a }}\"", ".\"{{  a  }}\"", ".\"a{{b\"", ".\"{{}}\"", ".\"{{ }}\"", ".\"\\{{a\\}}\"",
    ".\"\\{{a}}\"", ".\"{{a\\}}\"", ".\"a\\\\{{b}}\"", ".\"x{{a}}y{{b}}z\"", ".\"{{a}}}\"", ".\"{a}\"", ".\"}}\"", ".\"{{ \\\" }}\"",
    ".\"\\\\}}\"", ".\"\\\\\\\\}}\"", ".\"\\\\{{\"", ".\"a\\\\}}b\"", ".\"a}}\"",
    ".\"{\"", ".\"{{{a}}}\"", ".\"\\}}\"", ".\"a\\{b\"", "%\"{{x}}\"", ".a.\"{{ x }}\"[0]", ".\"é\"", ".é", ".\"🤖\".b", "a", "0", "\"a\"",
    "[0]", "[.a]", "{.a}", "(.a)", "!.a", "-.a", ".a,", ".a?", ".a ?? 0", ".a\n", "\n.a", ".a;", ".a # c", "# c\n.a",
];

pub fn generate(sink: &mut Sink, rng: &mut Rng, n: u64) {
    // `n` ≥ 100000 (thorough tier) also selects the longer exhaustive enumeration.
    let max_len = if n >= 100_000 { 6 } else { 5 };
    // 1. fixed edge cases
    let edge_paths: Vec<OwnedValuePath> = vec![
        OwnedValuePath::root(),
        OwnedValuePath::single_field(""),
        OwnedValuePath::single_field("0"),
        OwnedValuePath::single_field("a\"b"),
        OwnedValuePath::single_field("a\\b"),
        OwnedValuePath::single_field("\\"),
        OwnedValuePath::single_field("\""),
        OwnedValuePath { segments: vec![OwnedSegment::Index(isize::MIN)] },
        OwnedValuePath { segments: vec![OwnedSegment::Index(isize::MAX)] },
        OwnedValuePath { segments: vec![OwnedSegment::Index(0), OwnedSegment::Field("0".into()), OwnedSegment::Index(-1)] },
        OwnedValuePath { segments: vec![OwnedSegment::Field("a".into()), OwnedSegment::Field("b c".into()), OwnedSegment::Index(-1)] },
    ];
    for p in &edge_paths {
        emit_path(sink, p);
    }
    for f in FIELDS {
        emit_path(sink, &OwnedValuePath::single_field(f));
        emit_path(sink, &OwnedValuePath { segments: vec![OwnedSegment::Index(3), OwnedSegment::Field((*f).into())] });
    }
    for t in EDGE_TEXTS {
        // texts with newline, `;`, `#` are outside the fragment the VRL model is exact on
        let exact = !t.contains(['\n', ';', '#']);
        emit_text(sink, t, exact);
        sink.count("c20:edge_texts");
    }
    // 2. random owned paths: render / parse / oracle, and their VRL spelling through the compiler
    for _ in 0..n {
        let p = gen_owned_path(rng);
        emit_path(sink, &p);
        if rng.chance(1, 2) {
            let prefix = if rng.chance(1, 2) { '.' } else { '%' };
            let src = vrl_spelling(rng, prefix, &p);
            let exact = !src.contains(['\n', ';', '#']);
            emit_text(sink, &src, exact);
            sink.count("c20:vrl_spelled_paths");
        }
        // mutated renderings through the string parsers and the VRL parser
        if rng.chance(1, 2) {
            let kind = *rng.pick(&["v", "e", "m"]);
            let t = mutate(rng, &render(kind, &p).unwrap());
            let exact = !t.contains(['\n', ';', '#']);
            emit_text(sink, &t, exact);
            sink.count("c20:mutated_renderings");
        }
        if rng.chance(1, 4) {
            let len = rng.below(9);
            let t: String = (0..len).map(|_| *rng.pick(WIDE)).collect();
            emit_text(sink, &t, true);
            sink.count("c20:random_wide_texts");
        }
    }
    // 3. exhaustive: every text up to `max_len` over the path alphabet
    enumerate(sink, max_len);
    sink.count(&format!("c20:exhaustive_max_len_{max_len}"));
}
