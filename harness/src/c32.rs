//! C32 – grok rules on the REAL code (`vrl::datadog_grok::parse_grok_rules::parse_grok_rules`,
//! `parse_grok::parse_grok`, and `parse_groks!` through compiled VRL programs).
//!
//!   c32.compile rule aliases        -> ok <fields> | err:<class> | panic
//!   c32.src     rule aliases        -> src:<hex of the regex source built for rule ++ "("> | err:… | panic
//!                                      (the source is read off the `InvalidGrokExpression` error that the
//!                                      unbalanced parenthesis provokes: the only public observation of it)
//!   c32.match   rule aliases input  -> nomatch | ok <value> <#internal errors> | err:<class> | panic
//!   c32.vrl     rule aliases input  -> the same through `parse_groks!(.msg, patterns: [..], aliases: {..})`
//!   o.c32.*                         -> oracle observations (see lean/VrlModel/Driver/C32.lean)
//!
//! rule / alias / input texts are hex of their UTF-8 bytes (`-` = empty); aliases are
//! `<hexname>:<hexdef>` separated by single spaces (`-` = none).
use crate::rng::Rng;
use crate::sink::{guarded, Reply, Sink};
use crate::wire::*;
use std::collections::BTreeMap;
use vrl::datadog_grok::parse_grok::{parse_grok, FatalError};
use vrl::datadog_grok::parse_grok_rules::{parse_grok_rules, Error as RuleError, GrokRule};
use vrl::value::{KeyString, Value};

fn s_of_hex(h: &str) -> Option<String> {
    if h == "-" {
        return Some(String::new());
    }
    String::from_utf8(unhex(h)?).ok()
}

fn hx(s: &str) -> String {
    if s.is_empty() { "-".to_string() } else { hex(s.as_bytes()) }
}

fn parse_aliases(a: &str) -> Option<BTreeMap<KeyString, String>> {
    let mut m = BTreeMap::new();
    if a == "-" {
        return Some(m);
    }
    for item in a.split(' ') {
        let (k, v) = item.split_once(':')?;
        m.insert(KeyString::from(s_of_hex(k)?), s_of_hex(v)?);
    }
    Some(m)
}

fn show_aliases(a: &[(String, String)]) -> String {
    if a.is_empty() {
        return "-".to_string();
    }
    a.iter().map(|(k, v)| format!("{}:{}", hx(k), hx(v))).collect::<Vec<_>>().join(" ")
}

fn err_class(e: &RuleError) -> String {
    match e {
        RuleError::CircularDependencyInAliasDefinition(n) => format!("err:circular:{}", hx(n)),
        RuleError::UnknownFilter(_) => "err:filter".into(),
        RuleError::InvalidFunctionArguments(_) => "err:args".into(),
        RuleError::InvalidGrokExpression(p, msg) => {
            if p.starts_with("(?m)\\A") {
                if msg.contains("could not be found in the definition map") { "err:undef".into() } else { "err:regex".into() }
            } else {
                "err:syntax".into()
            }
        }
    }
}

/// undo Rust's `{:?}` escaping of a `String`.
fn undebug(s: &str) -> String {
    let mut out = String::new();
    let mut it = s.chars().peekable();
    while let Some(c) = it.next() {
        if c != '\\' {
            out.push(c);
            continue;
        }
        match it.next() {
            Some('n') => out.push('\n'),
            Some('t') => out.push('\t'),
            Some('r') => out.push('\r'),
            Some('0') => out.push('\0'),
            Some('u') => {
                let mut h = String::new();
                it.next(); // {
                for d in it.by_ref() {
                    if d == '}' {
                        break;
                    }
                    h.push(d);
                }
                if let Some(ch) = u32::from_str_radix(&h, 16).ok().and_then(char::from_u32) {
                    out.push(ch);
                }
            }
            Some(o) => out.push(o),
            None => {}
        }
    }
    out
}

/// canonical name of a filter from its `Debug` form (the type is not nameable from outside).
fn show_filter(dbg: &str) -> String {
    let simple = [
        ("Integer", "int"),
        ("IntegerExt", "intext"),
        ("Number", "num"),
        ("NumberExt", "numext"),
        ("Lowercase", "lower"),
        ("Uppercase", "upper"),
        ("Boolean", "bool"),
        ("Json", "other:json"),
        ("Rubyhash", "other:rubyhash"),
        ("Querystring", "other:querystring"),
        ("Decodeuricomponent", "other:decodeuricomponent"),
        ("Xml", "other:xml"),
    ];
    for (d, c) in simple {
        if dbg == d {
            return c.to_string();
        }
    }
    if let Some(r) = dbg.strip_prefix("NullIf(\"").and_then(|r| r.strip_suffix("\")")) {
        return format!("nullif:{}", hx(&undebug(r)));
    }
    if let Some(r) = dbg.strip_prefix("Scale(").and_then(|r| r.strip_suffix(")")) {
        if let Ok(f) = r.parse::<f64>() {
            return format!("scale:{:016x}", f.to_bits());
        }
    }
    format!("unmodelled:{}", dbg.split('(').next().unwrap_or(""))
}

fn show_fields(rule: &GrokRule) -> String {
    let mut v: Vec<(u64, String)> = Vec::new();
    for (name, f) in &rule.fields {
        let n: u64 = name.strip_prefix("grok").and_then(|d| d.parse().ok()).unwrap_or(u64::MAX);
        let path = if f.lookup.segments.is_empty() {
            "-".to_string()
        } else {
            f.lookup
                .segments
                .iter()
                .map(|s| match s {
                    vrl::path::OwnedSegment::Field(k) => hx(k.as_str()),
                    vrl::path::OwnedSegment::Index(i) => format!("#{i}"),
                })
                .collect::<Vec<_>>()
                .join(".")
        };
        let filters = if f.filters.is_empty() {
            "-".to_string()
        } else {
            f.filters.iter().map(|x| show_filter(&format!("{x:?}"))).collect::<Vec<_>>().join(",")
        };
        v.push((n, format!("{n}={path}={filters}")));
    }
    v.sort();
    if v.is_empty() { "-".to_string() } else { v.into_iter().map(|x| x.1).collect::<Vec<_>>().join(";") }
}

fn compile(rule: &str, aliases: &BTreeMap<KeyString, String>) -> Result<Result<Vec<GrokRule>, RuleError>, String> {
    let (rule, aliases) = (rule.to_string(), aliases.clone());
    guarded(move || parse_grok_rules(&[rule], aliases))
}

fn do_match(rule: &str, aliases: &BTreeMap<KeyString, String>, input: &str) -> String {
    match compile(rule, aliases) {
        Err(_) => "panic".into(),
        Ok(Err(e)) => err_class(&e),
        Ok(Ok(rules)) => {
            let input = input.to_string();
            match guarded(move || parse_grok(&input, &rules)) {
                Err(_) => "panic".into(),
                Ok(Err(FatalError::NoMatch)) => "nomatch".into(),
                Ok(Err(FatalError::RegexEngineError)) => "engine-error".into(),
                Ok(Ok(p)) => format!("ok\t{}\t{}", show_value(&p.parsed), p.internal_errors.len()),
            }
        }
    }
}

/// a VRL string literal for `s`.
fn vrl_str(s: &str) -> String {
    let mut out = String::from("\"");
    for c in s.chars() {
        match c {
            '"' => out.push_str("\\\""),
            '\\' => out.push_str("\\\\"),
            '\n' => out.push_str("\\n"),
            '\t' => out.push_str("\\t"),
            '\r' => out.push_str("\\r"),
            '\0' => out.push_str("\\0"),
            '{' => out.push_str("\\{"),
            c => out.push(c),
        }
    }
    out.push('"');
    out
}

fn do_vrl(rule: &str, aliases: &BTreeMap<KeyString, String>, input: &str) -> String {
    let al: Vec<String> = aliases.iter().map(|(k, v)| format!("{}: {}", vrl_str(k.as_str()), vrl_str(v))).collect();
    let src = format!("parse_groks!(.msg, patterns: [{}], aliases: {{{}}})", vrl_str(rule), al.join(", "));
    let mut ev = BTreeMap::new();
    ev.insert(KeyString::from("msg"), Value::from(input));
    match guarded(|| crate::vrlrun::run_vrl(&src, Value::Object(ev))) {
        Err(_) => "panic".into(),
        Ok(Ok(v)) => format!("ok\t{}", show_value(&v)),
        Ok(Err(e)) if e == "compile-error" => "compile-error".into(),
        Ok(Err(e)) if e.starts_with("panic") => "panic".into(),
        Ok(Err(e)) if e.contains("value does not match any rule") => "nomatch".into(),
        Ok(Err(e)) => format!("runtime-error:{}", e.replace(['\t', '\n'], " ")),
    }
}

pub fn exec(op: &str, a: &[String]) -> Option<Reply> {
    match (op, a) {
        ("c32.compile", [rule, aliases]) => {
            let (rule, aliases) = (s_of_hex(rule)?, parse_aliases(aliases)?);
            Some(Reply::plain(match compile(&rule, &aliases) {
                Err(_) => "panic".to_string(),
                Ok(Err(e)) => err_class(&e),
                Ok(Ok(rules)) => format!("ok\t{}", rules.first().map(show_fields).unwrap_or_else(|| "-".into())),
            }))
        }
        ("c32.src", [rule, aliases]) => {
            let (mut rule, aliases) = (s_of_hex(rule)?, parse_aliases(aliases)?);
            rule.push('(');
            Some(Reply::plain(match compile(&rule, &aliases) {
                Err(_) => "panic".to_string(),
                Ok(Err(RuleError::InvalidGrokExpression(p, _))) if p.starts_with("(?m)\\A") => format!("src:{}", hx(&p)),
                Ok(Err(e)) => err_class(&e),
                Ok(Ok(_)) => "compiled".to_string(),
            }))
        }
        ("c32.match", [rule, aliases, input]) => {
            let (rule, aliases, input) = (s_of_hex(rule)?, parse_aliases(aliases)?, s_of_hex(input)?);
            Some(Reply::plain(do_match(&rule, &aliases, &input)))
        }
        ("c32.vrl", [rule, aliases, input]) => {
            let (rule, aliases, input) = (s_of_hex(rule)?, parse_aliases(aliases)?, s_of_hex(input)?);
            Some(Reply::plain(do_vrl(&rule, &aliases, &input)))
        }
        ("o.c32.lit", [lit, input]) => {
            let (lit, input) = (s_of_hex(lit)?, s_of_hex(input)?);
            let r = do_match(&esc(&lit), &BTreeMap::new(), &input);
            Some(Reply::oracle(vec![match_obs(&r)]))
        }
        ("o.c32.cyc", [rule, aliases]) => {
            let (rule, aliases) = (s_of_hex(rule)?, parse_aliases(aliases)?);
            let direct = match compile(&rule, &aliases) {
                Err(_) => "panic",
                Ok(Err(RuleError::CircularDependencyInAliasDefinition(_))) => "circular",
                Ok(Err(_)) => "other",
                Ok(Ok(_)) => "accepted",
            };
            // the same rule through a compiled VRL program: rejected at compile time iff rejected here
            let via_vrl = do_vrl(&rule, &aliases, "");
            let vrl_rejects = via_vrl == "compile-error" || via_vrl == "panic";
            let obs = if vrl_rejects == (direct != "accepted") { direct.to_string() } else { format!("vrl-disagrees:{via_vrl}") };
            Some(Reply::oracle(vec![obs]))
        }
        ("o.c32.cap", [items, aliases]) => {
            let (items, aliases) = (parse_items(items)?, parse_aliases(aliases)?);
            let (rule, input) = build_rule(&items);
            let r = do_match(&rule, &aliases, &input);
            let mut f = r.split('\t');
            let mut obs = match (f.next(), f.next()) {
                (Some("ok"), Some(v)) => vec!["ok".to_string(), v.to_string()],
                (Some(x), _) => vec![x.split(':').next().unwrap_or("").to_string()],
                _ => vec!["err".to_string()],
            };
            // Rust core's case mapping of every non-ASCII sample (a primitive of the model: `Prims.lower/upper`)
            if obs[0] == "ok" {
                for it in &items {
                    if let Item::Ph { sample, .. } = it {
                        if !sample.is_ascii() {
                            obs.push("L".to_string());
                            obs.push(hx(sample));
                            obs.push(hx(&sample.to_lowercase()));
                            obs.push(hx(&sample.to_uppercase()));
                        }
                    }
                }
            }
            Some(Reply::oracle(obs))
        }
        ("o.c32.anch", [items, aliases, input]) => {
            let (items, aliases, input) = (parse_items(items)?, parse_aliases(aliases)?, s_of_hex(input)?);
            let (rule, _) = build_rule(&items);
            let r = do_match(&rule, &aliases, &input);
            Some(Reply::oracle(vec![match_obs(&r)]))
        }
        _ => None,
    }
}

fn match_obs(r: &str) -> String {
    if r == "nomatch" {
        "n".into()
    } else if r.starts_with("ok\t") {
        "m".into()
    } else {
        r.split(':').next().unwrap_or("").to_string()
    }
}

/// items of an oracle rule (see lean/VrlModel/Driver/C32.lean)
enum Item {
    Lit(String),
    Verb(String),
    Ph { name: String, dest: String, filter: String, sample: String },
}

fn parse_items(s: &str) -> Option<Vec<Item>> {
    if s == "-" {
        return Some(vec![]);
    }
    s.split(' ')
        .map(|t| {
            let f: Vec<&str> = t.split(':').collect();
            match f.as_slice() {
                ["L", h] => Some(Item::Lit(s_of_hex(h)?)),
                ["T", h] => Some(Item::Verb(s_of_hex(h)?)),
                ["P", n, d, fl, smp] => {
                    Some(Item::Ph { name: s_of_hex(n)?, dest: s_of_hex(d)?, filter: s_of_hex(fl)?, sample: s_of_hex(smp)? })
                }
                _ => None,
            }
        })
        .collect()
}

fn show_items(items: &[Item]) -> String {
    if items.is_empty() {
        return "-".into();
    }
    items
        .iter()
        .map(|i| match i {
            Item::Lit(s) => format!("L:{}", hx(s)),
            Item::Verb(s) => format!("T:{}", hx(s)),
            Item::Ph { name, dest, filter, sample } => format!("P:{}:{}:{}:{}", hx(name), hx(dest), hx(filter), hx(sample)),
        })
        .collect::<Vec<_>>()
        .join(" ")
}

/// rule text and the input assembled from literal texts and samples.
fn build_rule(items: &[Item]) -> (String, String) {
    let (mut rule, mut input) = (String::new(), String::new());
    for i in items {
        match i {
            Item::Lit(s) => {
                rule.push_str(&esc(s));
                input.push_str(s);
            }
            Item::Verb(s) => rule.push_str(s),
            Item::Ph { name, dest, filter, sample } => {
                rule.push_str("%{");
                rule.push_str(name);
                if !dest.is_empty() || !filter.is_empty() {
                    rule.push(':');
                    rule.push_str(dest);
                }
                if !filter.is_empty() {
                    rule.push(':');
                    rule.push_str(filter);
                }
                rule.push('}');
                input.push_str(sample);
            }
        }
    }
    (rule, input)
}

// ---------------------------------------------------------------------------------------------
// generators

/// literal alphabet: every regex metacharacter, placeholder punctuation, letters, digits, blanks,
/// newline, non-ASCII.
const LIT: &[char] = &[
    '.', '*', '+', '?', '(', ')', '[', ']', '{', '}', '^', '$', '|', '\\', '/', 'a', 'b', 'c', 'A', 'Z', '0', '7', ' ', '%',
    '"', ':', '-', '_', '<', '>', '=', '#', '&', '~', '\'', ',', '!', '@', ';', '\n', '\t', 'é', '→',
];
const META: &[char] = &['.', '*', '+', '?', '(', ')', '[', ']', '{', '}', '^', '$', '|', '\\', '/'];

/// the reference escaper of the generator (Lean: `C32.esc`).
pub fn esc(s: &str) -> String {
    let mut out = String::new();
    for c in s.chars() {
        if META.contains(&c) {
            out.push('\\');
        }
        out.push(c);
    }
    out
}

fn gen_lit(rng: &mut Rng, max: u64) -> String {
    let n = rng.below(max + 1);
    (0..n).map(|_| *rng.pick(LIT)).collect()
}

fn gen_lit_ascii(rng: &mut Rng, max: u64, ascii: bool) -> String {
    let s = gen_lit(rng, max);
    if ascii { s.chars().filter(char::is_ascii).collect() } else { s }
}

/// alias definitions inside the reference subset, each with sample members and non-members.
struct Pat {
    /// uses `\d \w \s`: the reference gives these an ASCII meaning only
    classy: bool,
    def: &'static str,
    yes: &'static [&'static str],
    no: &'static [&'static str],
}
const PATS: &[Pat] = &[
    Pat { classy: false, def: "[0-9]+", yes: &["7", "2024", "007"], no: &["", "x", "1a"] },
    Pat { classy: false, def: "[a-z]+", yes: &["a", "abc", "zz"], no: &["", "A", "a1"] },
    Pat { classy: true, def: "\\d+", yes: &["0", "42"], no: &["", "-"] },
    Pat { classy: true, def: "\\w+", yes: &["a_1", "Zed"], no: &["", " ", "-"] },
    Pat { classy: false, def: "[^ ]+", yes: &["x", "a.b", "%{"], no: &["", " "] },
    Pat { classy: false, def: "(?:ab|cd)+", yes: &["ab", "cdab"], no: &["", "a", "abc"] },
    Pat { classy: false, def: "a|b", yes: &["a", "b"], no: &["", "ab", "c"] },
    Pat { classy: false, def: "x*", yes: &["", "x", "xxx"], no: &["y"] },
    Pat { classy: false, def: "[A-Z][a-z]*", yes: &["A", "Hello"], no: &["", "hello", "HeLLo"] },
    Pat { classy: false, def: "-?[0-9]+", yes: &["-5", "12"], no: &["", "--1"] },
    Pat { classy: false, def: "[+-]?[0-9]+(?:\\.[0-9]+)?", yes: &["1.5", "-2", "+0.25", "3.0"], no: &["", ".", "1."] },
    Pat { classy: false, def: "(?:true|false|TRUE|no)", yes: &["true", "TRUE", "no"], no: &["", "tru"] },
    Pat { classy: false, def: ".+?", yes: &["q", "a b"], no: &[""] },
    Pat { classy: true, def: "\\S+", yes: &["x", "a.b", "%"], no: &["", " "] },
    Pat { classy: false, def: "[a-c\\-]+", yes: &["a-b", "-"], no: &["", "d"] },
];

const ALIAS_NAMES: &[&str] = &["d", "w", "p1", "_x", "my.pat", "long_alias", "Q", "n0", "e"];
const DESTS: &[&str] = &["x", "y", "z", "a.b", "a.c", "k", "n.m.o", "x", "v", "[\"s p\"]", "@t", "u-v"];
const FILTERS: &[&str] = &[
    "integer",
    "number",
    "lowercase",
    "uppercase",
    "boolean",
    "nullIf(\"-\")",
    "nullIf(\"a\")",
    "nullIf(\"\")",
    "scale(10)",
    "scale(0.5)",
    "scale(1000)",
    "scale(0)",
    "integerExt",
    "numberExt",
    "nullIf(\"x\\\"y\")",
];
const BAD_FILTERS: &[&str] = &[
    "nosuch", "scale", "scale()", "scale(\"a\")", "nullIf", "nullIf()", "nullIf(1)", "nullIf(x)", "scale(-1)", "integer(", "json", "lowercase:uppercase",
    "scale(1e400)", "scale(1,2)", "scale(1,)", "scale(,)", "nullIf(\"\\q\")", "nullIf(\"\\\\n\")", "null", "true",
];

struct FlatRule {
    rule: String,
    aliases: Vec<(String, String)>,
    good: String,
    /// (placeholder has a destination, sample used)
    n_ph: usize,
    ascii: bool,
}

/// text + placeholders over aliases with plain definitions; `good` is an input built from samples.
fn gen_flat(rng: &mut Rng, with_filters: bool) -> FlatRule {
    let mut rule = String::new();
    let mut good = String::new();
    let mut aliases: Vec<(String, String)> = Vec::new();
    let n_items = 1 + rng.below(5);
    let mut n_ph = 0;
    // `\d \w \s` have an ASCII meaning only in the reference: either ASCII text, or no such classes
    let ascii = rng.chance(1, 2);
    for _ in 0..n_items {
        if rng.chance(1, 2) {
            let l = gen_lit_ascii(rng, 4, ascii);
            rule.push_str(&esc(&l));
            good.push_str(&l);
        } else {
            let name = *rng.pick(ALIAS_NAMES);
            let pat = match aliases.iter().find(|(k, _)| k == name) {
                Some((_, d)) => PATS.iter().find(|p| p.def == d).unwrap(),
                None => {
                    let mut p = rng.pick(PATS);
                    while p.classy && !ascii {
                        p = rng.pick(PATS);
                    }
                    aliases.push((name.to_string(), p.def.to_string()));
                    p
                }
            };
            rule.push_str("%{");
            rule.push_str(name);
            match rng.below(6) {
                0 => {}
                1 => rule.push(':'),
                _ => {
                    rule.push(':');
                    rule.push_str(*rng.pick(DESTS));
                    if with_filters && rng.chance(1, 2) {
                        rule.push(':');
                        rule.push_str(*rng.pick(FILTERS));
                    }
                }
            }
            rule.push('}');
            good.push_str(*rng.pick(pat.yes));
            n_ph += 1;
        }
    }
    FlatRule { rule, aliases, good, n_ph, ascii }
}

fn mutate(rng: &mut Rng, s: &str) -> String {
    let mut cs: Vec<char> = s.chars().collect();
    match rng.below(7) {
        0 if !cs.is_empty() => {
            let i = rng.below(cs.len() as u64) as usize;
            cs.remove(i);
        }
        1 => {
            let i = rng.below(cs.len() as u64 + 1) as usize;
            cs.insert(i, *rng.pick(LIT));
        }
        2 if !cs.is_empty() => {
            let i = rng.below(cs.len() as u64) as usize;
            cs[i] = if cs[i].is_ascii_lowercase() { cs[i].to_ascii_uppercase() } else { *rng.pick(LIT) };
        }
        3 => cs.push('\n'),
        4 => cs.insert(0, '\n'),
        5 if cs.len() > 1 => {
            let i = rng.below(cs.len() as u64 - 1) as usize;
            cs.swap(i, i + 1);
        }
        _ => cs.push(*rng.pick(LIT)),
    }
    cs.into_iter().collect()
}

/// alias graphs over a few names: chains, DAGs (shared nodes), self loops, longer cycles, cycles not
/// reachable from the rule.
fn gen_graph(rng: &mut Rng) -> (String, Vec<(String, String)>) {
    let n = 1 + rng.below(5) as usize;
    let names: Vec<&str> = ALIAS_NAMES[..n].to_vec();
    let mut aliases = Vec::new();
    for (i, name) in names.iter().enumerate() {
        let mut def = String::new();
        let k = rng.below(3);
        for _ in 0..k {
            if rng.chance(1, 3) {
                def.push_str(&esc(&gen_lit(rng, 2)));
            }
            // mostly forward edges (acyclic), sometimes any edge
            let j = if rng.chance(3, 4) && i + 1 < n { i + 1 + rng.below((n - i - 1) as u64) as usize } else { rng.below(n as u64) as usize };
            def.push_str("%{");
            def.push_str(names[j]);
            if rng.chance(1, 3) {
                def.push(':');
                def.push_str(*rng.pick(DESTS));
            }
            def.push('}');
        }
        if k == 0 || rng.chance(1, 3) {
            def.push_str(rng.pick(PATS).def);
        }
        aliases.push((name.to_string(), def));
    }
    let mut rule = String::new();
    for _ in 0..1 + rng.below(2) {
        rule.push_str(&esc(&gen_lit(rng, 2)));
        rule.push_str("%{");
        rule.push_str(if rng.chance(1, 10) { "nosuch" } else { names[rng.below(n as u64) as usize] });
        if rng.chance(1, 3) {
            rule.push_str(":r");
        }
        rule.push('}');
    }
    (rule, aliases)
}

const RAW: &[&str] = &[
    "a+", "^*", "a\\b*", "(?:ab|cd)*x", "[a-c]+", "\\d+", "x?y", "a|b", ".*", "^a$", "a.c", "(a)(b)", "(?<foo>a+)b", "a*?b", "\\bfoo\\b", "[^a]", "a\\.b", "(", ")", "a)", "*a", "a**",
    "[a", "a{2}", "\\Aa", "a\\z", "a$", "(?s)a.b", "\\s\\S", "\\W\\w", "é+", "(?<n>x)|(?<m>y)", "a||b", "()", "(?:)", "a+?", "a??",
];
const RAW_INPUTS: &[&str] = &["", "a", "b", "ab", "abc", "aaa", "x", "y", "xy", "cdabx", "a\nc", "a\n", "\na", "foo", " foo ", "a.b", "axb", "éé", "aab", "1 2", "x_", "ba"];

const BUILTIN: &[&str] = &["word", "notSpace", "data", "greedyData", "integer", "space", "integerStr", "nosuch", "Zq", "boolean", "foo.bar", "number", "regex(\"[a-c]+\")", "regex(\"a|b\")", "regex", "regex(1)", "date"];

const MALFORMED: &[&str] = &[
    "%{", "%{}", "%{a", "%{a:}", "%{a::}", "%{a:b:c:d}", "%{a:x:nullIf()}", "%{\"x}", "%{a\"}", "%{a:\"b\"}", "%{a:[\"b\"]}", "%{a:[b]}", "%{ a : x }", "%{a:.x}",
    "%{a:x.}", "%{a:x..y}", "%{a.b.c}", "%{a.}", "%{.a}", "%{1a}", "%{a:1}", "%{a:x:f(1,\"s\",g(2),true,null,.5)}", "%{a:x y}", "%{a-b}", "%{a:x-y}", "%{a:@x}",
    "%{$a}", "%%{a}", "%{a}%{a}", "%{a}}", "{%{a}", "%{a:x:nullIf(\"}\")}", "%{a:x:nullIf(\"\\\"\")}", "%{a:x:nullIf(\"\\\\\")}", "%{a:x:nullIf(\"\\\\\")} \"",
    "%{a:x:nullIf(\"q)}", "%{a:true}", "%{true}", "%{a:x:scale(1.5e1)}", "%{a:x:scale(1e)}", "%{a:x:scale(99999999999999999999)}", "%{a:x:scale(1.2.3)}",
    "%{a:x:scale(+1)}", "%{a:x:scale(1)", "%{a:x:é}", "%{a:x:f(g(1,h(2)),3)}", "%{a:x:f(g(,))}", "%{a:x:f(g(1,),)}", "%{a:x:f(a.b(1))}", "%{a:x:f(a.)}",
    "%{a:x:scale(g(1))}", "%{a:x:f(1 2)}", "%{a:x:f((1))}", "%{a(1)(2)}", "%{a:x:f(g(1)}", "%{a:x:f(g(1)))}", "%{a:x:f(a.b.c,d)}", "%{a(1):x}", "%{a():x:scale(2,g())}", "%{é}", "%{a:é}", "%{a:x:nullIf(\"é→\")}", "%{a=b}", "\\%{a}", "%\\{a}",
];

fn reply_class(r: &str) -> String {
    let head = r.split('\t').next().unwrap_or("");
    let mut parts = head.split(':');
    match (parts.next(), parts.next()) {
        (Some("err"), Some(c)) => format!("err:{c}"),
        (Some(x), _) => x.to_string(),
        _ => String::new(),
    }
}

fn emit_all(sink: &mut Sink, rule: &str, aliases: &[(String, String)], inputs: &[String], bucket: &str) {
    let (r, a) = (hx(rule), show_aliases(aliases));
    if let Some(rep) = sink.emit("c32.compile", &[r.clone(), a.clone()]) {
        sink.count(&format!("c32:{bucket}:compile:{}", reply_class(&rep.reply)));
    }
    sink.emit("c32.src", &[r.clone(), a.clone()]);
    for i in inputs {
        if let Some(rep) = sink.emit("c32.match", &[r.clone(), a.clone(), hx(i)]) {
            sink.count(&format!("c32:{bucket}:match:{}", reply_class(&rep.reply)));
        }
    }
}

/// separators: characters no oracle pattern can match, so that the split of the input is unique.
const SEP: &[char] = &[';', '=', '#', '~', ',', '!', '|', '/'];
/// patterns whose language avoids the separators (and `.`-like wildcards).
const OPATS: &[(&str, &[&str])] = &[
    ("[0-9]+", &["7", "2024", "007", "10"]),
    ("[a-z]+", &["a", "abc", "true"]),
    ("(?:ab|cd)+", &["ab", "cdab"]),
    ("a|b", &["a", "b"]),
    ("x*", &["", "x", "xxx"]),
    ("[A-Z][a-z]*", &["A", "Hello", "True"]),
    ("-?[0-9]+", &["-5", "12", "-0"]),
    ("[+-]?[0-9]+(?:\\.[0-9]+)?", &["1.5", "-2", "+0.25", "3.0", "99999999999999999999"]),
    ("(?:NaN|inf|-inf|[0-9]+)", &["NaN", "inf", "-inf", "5"]),
    ("[a-zA-Z]+", &["True", "FALSE", "x"]),
    // non-ASCII letters: the case filters use Rust's full Unicode mapping (`str::to_lowercase`)
    ("[^ ;,|:=]+", &["ÉCOLE", "Zürich", "ΑΒΓ", "straße", "İx", "abcÉ", "ǅ"]),
];
const ODESTS: &[&str] = &["x", "y", "z", "a.b", "a.c", "k", "x", "x", "a"];

fn gen_cap_rule(rng: &mut Rng, same_dest: bool) -> (Vec<Item>, Vec<(String, String)>) {
    let mut items = Vec::new();
    let mut aliases: Vec<(String, String)> = Vec::new();
    let n_ph = if same_dest { 9 + rng.below(5) } else { 1 + rng.below(4) };
    if rng.chance(1, 2) {
        items.push(Item::Lit(gen_lit(rng, 3)));
    }
    for k in 0..n_ph {
        if k > 0 {
            // a literal with at least one separator
            let mut l = gen_lit(rng, 2);
            l.push(*rng.pick(SEP));
            if rng.chance(1, 3) {
                l.push_str(&gen_lit(rng, 2));
            }
            items.push(Item::Lit(l));
        }
        let name = *rng.pick(ALIAS_NAMES);
        let samples = match aliases.iter().find(|(k, _)| k == name) {
            Some((_, d)) => OPATS.iter().find(|p| p.0 == d).unwrap().1,
            None => {
                let p = rng.pick(OPATS);
                aliases.push((name.to_string(), p.0.to_string()));
                p.1
            }
        };
        let (dest, filter) = if same_dest {
            ("x".to_string(), String::new())
        } else {
            match rng.below(8) {
                0 => (String::new(), String::new()),
                1 => (String::new(), rng.pick(FILTERS).to_string()),
                2 | 3 | 4 => (rng.pick(ODESTS).to_string(), String::new()),
                _ => (rng.pick(ODESTS).to_string(), rng.pick(FILTERS).to_string()),
            }
        };
        items.push(Item::Ph { name: name.to_string(), dest, filter, sample: rng.pick(samples).to_string() });
    }
    if rng.chance(1, 2) {
        let mut l = String::from(*rng.pick(SEP));
        l.push_str(&gen_lit(rng, 2));
        items.push(Item::Lit(l));
    }
    (items, aliases)
}

const ANCH_VERB: &[&str] = &["a+", "[a-c]+", "x?y", "a|b", "(?:ab|cd)*x", ".*", "(a|b)", "a.c", "[|]", "\\|", "^a$", "b*?"];
const ANCH_DEFS: &[&str] = &["a|b", "[0-9]+", "ab|cd", "(?:a|b)", "x*", "[a-z]+", "a|", "[a|b]"];
const ANCH_INPUTS: &[&str] = &["", "a", "b", "ab", "ax", "xb", "xa", "xay", "abcd", "cd", "y", "xy", "7", "a7", "|", "a\nb", "aab"];

fn gen_anch_rule(rng: &mut Rng) -> (Vec<Item>, Vec<(String, String)>, String) {
    let mut items = Vec::new();
    let mut aliases: Vec<(String, String)> = Vec::new();
    let mut good = String::new();
    for _ in 0..1 + rng.below(3) {
        match rng.below(4) {
            0 => items.push(Item::Verb(rng.pick(ANCH_VERB).to_string())),
            1 => {
                let l: String = gen_lit(rng, 2).chars().filter(char::is_ascii).collect();
                good.push_str(&l);
                items.push(Item::Lit(l));
            }
            _ => {
                let name = *rng.pick(&ALIAS_NAMES[..4]);
                if !aliases.iter().any(|(k, _)| k == name) {
                    aliases.push((name.to_string(), rng.pick(ANCH_DEFS).to_string()));
                }
                let dest = if rng.chance(1, 2) { String::new() } else { "x".to_string() };
                items.push(Item::Ph { name: name.to_string(), dest, filter: String::new(), sample: String::new() });
                good.push_str(*rng.pick(&["a", "b", "7", "ab", ""][..]));
            }
        }
    }
    let input = if rng.chance(1, 2) { good } else { rng.pick(ANCH_INPUTS).replace("\\n", "\n") };
    if build_rule(&items).0.is_empty() {
        // an empty rule is dropped by parse_grok_rules (by design): not a rule
        items.push(Item::Lit("a".into()));
    }
    (items, aliases, input)
}

fn generate_oracle(sink: &mut Sink, rng: &mut Rng, n: u64) {
    // case filters on non-ASCII captures (full Unicode mapping, not the ASCII one)
    for sample in ["ÉCOLE", "Zürich", "ΑΒΓ", "straße", "İx", "abcÉ", "ǅ", "ÀÉÎõü", "ǆ"] {
        for filter in ["lowercase", "uppercase"] {
            let items = vec![Item::Ph { name: "q".to_string(), dest: "x".to_string(), filter: filter.to_string(), sample: sample.to_string() }];
            let aliases = vec![("q".to_string(), "[^ ;,|:=]+".to_string())];
            sink.emit("o.c32.cap", &[show_items(&items), show_aliases(&aliases)]);
        }
    }
    // numeric filters at and beyond the i64 range (a whole float is an integer only if it survives f64 -> i64 -> f64)
    for sample in ["99999999999999999999", "9223372036854775808", "9223372036854775807", "-9223372036854775809", "9007199254740993", "18446744073709551616", "1.0", "-0"] {
        for filter in ["number", "numberExt", "integer", "integerExt", "scale(1)", "scale(2)"] {
            let items = vec![Item::Ph { name: "q".to_string(), dest: "x".to_string(), filter: filter.to_string(), sample: sample.to_string() }];
            let aliases = vec![("q".to_string(), "[+-]?[0-9]+(?:\\.[0-9]+)?".to_string())];
            sink.emit("o.c32.cap", &[show_items(&items), show_aliases(&aliases)]);
        }
    }
    for i in 0..n {
        match i % 4 {
            0 => {
                let mut s = gen_lit(rng, 8);
                if s.is_empty() {
                    s.push(*rng.pick(LIT));
                }
                let t = match rng.below(3) {
                    0 => s.clone(),
                    1 => mutate(rng, &s),
                    _ => gen_lit(rng, 3),
                };
                if let Some(r) = sink.emit("o.c32.lit", &[hx(&s), hx(&t)]) {
                    sink.count(if s == t { "c32:o.lit:own_text" } else { "c32:o.lit:other_text" });
                    let _ = r;
                }
            }
            1 => {
                let (mut rule, aliases) = gen_graph(rng);
                if rng.chance(1, 60) {
                    rule.push_str("%{d:x:nullIf()}");
                }
                if let Some(r) = sink.emit("o.c32.cyc", &[hx(&rule), show_aliases(&aliases)]) {
                    sink.count(&format!("c32:o.cyc:{}", r.obs.first().map(String::as_str).unwrap_or("")));
                }
            }
            2 => {
                let (items, aliases) = gen_cap_rule(rng, i % 40 == 2);
                if let Some(r) = sink.emit("o.c32.cap", &[show_items(&items), show_aliases(&aliases)]) {
                    sink.count(&format!("c32:o.cap:{}", r.obs.first().map(String::as_str).unwrap_or("")));
                }
            }
            _ => {
                let (items, aliases, input) = gen_anch_rule(rng);
                if let Some(r) = sink.emit("o.c32.anch", &[show_items(&items), show_aliases(&aliases), hx(&input)]) {
                    sink.count(&format!("c32:o.anch:{}", r.obs.first().map(String::as_str).unwrap_or("")));
                }
            }
        }
    }
}

pub fn generate(sink: &mut Sink, rng: &mut Rng, n: u64) {
    generate_oracle(sink, rng, n / 2);
    // fixed edge cases first
    let a1 = vec![("a".to_string(), "[a-z]+".to_string())];
    for m in MALFORMED {
        emit_all(sink, m, &a1, &["abc".to_string(), "".to_string()], "malformed");
    }
    for f in BAD_FILTERS.iter().chain(FILTERS.iter()) {
        emit_all(sink, &format!("%{{a:x:{f}}}"), &a1, &["abc".to_string()], "filters");
    }
    for r in RAW {
        let inputs: Vec<String> = RAW_INPUTS.iter().map(|s| s.to_string()).collect();
        emit_all(sink, r, &[], &inputs, "raw");
    }
    for b in BUILTIN {
        for d in ["", ":x", ":x:uppercase"] {
            let inputs: Vec<String> = ["abc", "12", "a b", "", "boolean", "-3 x", "true"].iter().map(|s| s.to_string()).collect();
            emit_all(sink, &format!("%{{{b}{d}}}"), &[], &inputs, "builtin");
            emit_all(sink, &format!("<%{{{b}{d}}}> %{{{b}{d}}}"), &[], &["<ab> cd".to_string(), "<1> 2".to_string()], "builtin");
        }
    }
    // nested alias definitions with matching inputs (numbering of nested captures, shared destinations)
    let nested = vec![
        ("outer".to_string(), "<%{inner:x}>%{num:n:integer}".to_string()),
        ("inner".to_string(), "[a-z]+".to_string()),
        ("num".to_string(), "[0-9]+".to_string()),
        ("pair".to_string(), "%{inner:k.a}=%{num:k.b:scale(10)}".to_string()),
        ("deep".to_string(), "\\[%{pair:p}(?:,%{pair})*\\]".to_string()),
    ];
    for rule in ["%{outer:o} %{outer}", "%{outer}", "%{pair:k}", "%{deep:d}", "%{deep}", "%{inner:x}%{num:x}%{inner:x}", "%{outer:a.b}|%{pair:a}"] {
        let inputs: Vec<String> =
            ["<ab>12 <cd>7", "<ab>12", "ab=3", "[ab=3]", "[ab=3,cd=4]", "[ab=3,cd=4,ef=5]", "ab12cd", "<q>1", "", "x=1"].iter().map(|s| s.to_string()).collect();
        emit_all(sink, rule, &nested, &inputs, "nested");
    }
    // every single literal character, and all pairs of metacharacters
    for c in LIT {
        let s = c.to_string();
        emit_all(sink, &esc(&s), &[], &[s.clone(), String::new(), format!("{s}{s}"), "a".into()], "lit1");
    }
    for c in META {
        for d in META {
            let s = format!("{c}{d}");
            emit_all(sink, &esc(&s), &[], &[s.clone(), c.to_string()], "lit2");
        }
    }
    for i in 0..n {
        match i % 8 {
            0 | 1 => {
                // literal-only rules
                let s = gen_lit(rng, 8);
                let mut inputs = vec![s.clone(), String::new()];
                for _ in 0..3 {
                    inputs.push(mutate(rng, &s));
                }
                emit_all(sink, &esc(&s), &[], &inputs, "literal");
                if i % 16 == 0 {
                    sink.emit("c32.vrl", &[hx(&esc(&s)), "-".into(), hx(&s)]);
                }
            }
            2 | 3 | 4 => {
                let f = gen_flat(rng, i % 8 != 2);
                let mut inputs = vec![f.good.clone()];
                for _ in 0..2 {
                    let m = mutate(rng, &f.good);
                    inputs.push(if f.ascii { m.chars().filter(char::is_ascii).collect() } else { m });
                }
                if f.n_ph > 0 && rng.chance(1, 4) {
                    inputs.push(String::new());
                }
                emit_all(sink, &f.rule, &f.aliases, &inputs, "flat");
                if i % 16 == 3 {
                    sink.emit("c32.vrl", &[hx(&f.rule), show_aliases(&f.aliases), hx(&f.good)]);
                }
            }
            5 | 6 => {
                let (rule, aliases) = gen_graph(rng);
                let inputs = vec![gen_lit(rng, 3)];
                emit_all(sink, &rule, &aliases, &inputs, "graph");
                if i % 16 == 5 {
                    sink.emit("c32.vrl", &[hx(&rule), show_aliases(&aliases), hx(&inputs[0])]);
                }
            }
            _ => {
                // verbatim regex snippets mixed with escaped text and placeholders
                let mut rule = String::new();
                for _ in 0..1 + rng.below(3) {
                    match rng.below(3) {
                        0 => rule.push_str(*rng.pick(RAW)),
                        1 => rule.push_str(&esc(&gen_lit(rng, 2))),
                        _ => rule.push_str(*rng.pick(MALFORMED)),
                    }
                }
                let inputs = vec![rng.pick(RAW_INPUTS).to_string(), gen_lit(rng, 3)];
                emit_all(sink, &rule, &a1, &inputs, "mixed");
            }
        }
    }
}
