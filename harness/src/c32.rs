//! C32 – grok rules: correspondence ops `c32.*` and oracle `o.c32` (work in progress: probe op).
use crate::rng::Rng;
use crate::sink::{guarded, Reply, Sink};
use crate::wire::*;
use std::collections::BTreeMap;
use vrl::datadog_grok::parse_grok::parse_grok;
use vrl::datadog_grok::parse_grok_rules::{parse_grok_rules, Error as RuleError, GrokRule};
use vrl::value::{KeyString, Value};

fn s_of_hex(h: &str) -> Option<String> {
    if h == "-" {
        return Some(String::new());
    }
    String::from_utf8(unhex(h)?).ok()
}

fn parse_aliases(a: &str) -> Option<BTreeMap<KeyString, String>> {
    let mut m = BTreeMap::new();
    if a == "-" {
        return Some(m);
    }
    for item in a.split(' ') {
        let (k, v) = item.split_once(':')?;
        m.insert(KeyString::from(s_of_hex(k)?), s_of_hex(v)?);
    }
    Some(m)
}

pub fn exec(op: &str, a: &[String]) -> Option<Reply> {
    match (op, a) {
        ("c32.probe", [rule, aliases, input]) => {
            let rule = s_of_hex(rule)?;
            let aliases = parse_aliases(aliases)?;
            let input = s_of_hex(input)?;
            let r = guarded(move || match parse_grok_rules(&[rule], aliases) {
                Err(e) => format!("compile-err {e:?}"),
                Ok(rules) => {
                    let mut s = String::new();
                    for r in &rules {
                        s.push_str(&format!("fields={:?} pattern={:?} ", r.fields, r.pattern));
                    }
                    match parse_grok(&input, &rules) {
                        Ok(p) => format!("{s} => ok {} errs={:?}", p.parsed, p.internal_errors),
                        Err(e) => format!("{s} => {e:?}"),
                    }
                }
            });
            Some(Reply::plain(match r {
                Ok(s) => s.replace(['\n', '\t'], " "),
                Err(p) => format!("panic {p}").replace(['\n', '\t'], " "),
            }))
        }
        _ => None,
    }
}

pub fn generate(_sink: &mut Sink, _rng: &mut Rng, _n: u64) {}
