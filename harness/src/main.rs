//! vrl-verif-harness: runs the real vrl code on generated cases and writes the line-protocol
//! files compared against the Lean model by /verif/bin/check.
mod arith;
mod c10;
mod c11;
mod c17;
mod c18;
mod c30;
mod c31;
mod gens;
mod lang;
mod vrlrun;
mod rng;
mod sink;
mod wire;

use sink::Reply;
use std::io::BufRead;
use std::path::PathBuf;

/// Run one case (`op` + inputs) on the implementation.
pub fn exec(op: &str, inputs: &[String]) -> Option<Reply> {
    // first module that recognises the op answers
    None.or_else(|| c18::exec(op, inputs))
        .or_else(|| lang::exec(op, inputs))
        .or_else(|| c17::exec(op, inputs))
        .or_else(|| arith::exec(op, inputs))
        .or_else(|| c10::exec(op, inputs))
        .or_else(|| c11::exec(op, inputs))
        .or_else(|| c30::exec(op, inputs))
        .or_else(|| c31::exec(op, inputs))
}

fn generate(prop: &str, sink: &mut sink::Sink, rng: &mut rng::Rng, n: u64) -> bool {
    match prop {
        "C18" => c18::generate(sink, rng, n),
        "LANG" => lang::generate(sink, rng, n, true, None),
        "C06" => lang::generate(sink, rng, n, false, Some("o.c06")),
        "C07" => lang::generate(sink, rng, n, false, Some("o.c07")),
        "C08" => lang::generate(sink, rng, n, false, Some("o.c08")),
        "C09" => lang::generate(sink, rng, n, false, Some("o.c09")),
        "C17" => c17::generate(sink, rng, n),
        "C13" => lang::generate(sink, rng, n, false, Some("o.c13")),
        "C10" => c10::generate(sink, rng, n),
        "C11" => c11::generate(sink, rng, n),
        "C30" => c30::generate(sink, rng, n),
        "C31" => c31::generate(sink, rng, n),
        _ => return false,
    }
    true
}

fn main() {
    let args: Vec<String> = std::env::args().collect();
    if args.len() < 2 {
        eprintln!("usage: vrl-verif-harness gen <PROP> <seed> <n> <outdir> | exec <file>");
        std::process::exit(2);
    }
    // panics are caught per case; keep stderr quiet
    std::panic::set_hook(Box::new(|_| {}));
    match args[1].as_str() {
        "gen" => {
            let prop = args[2].as_str();
            let seed: u64 = args[3].parse().expect("seed");
            let n: u64 = args[4].parse().expect("n");
            let dir = PathBuf::from(&args[5]);
            let mut sink = sink::Sink::new(&dir).expect("outdir");
            let mut rng = rng::Rng::new(seed);
            // committed corpus (minimised past failures, known-finding replays) runs first, every time
            let corpus = PathBuf::from(concat!(env!("CARGO_MANIFEST_DIR"), "/../corpus")).join(prop);
            if let Ok(rd) = std::fs::read_dir(&corpus) {
                let mut files: Vec<_> = rd.filter_map(Result::ok).map(|e| e.path()).collect();
                files.sort();
                for f in files {
                    let Ok(text) = std::fs::read_to_string(&f) else { continue };
                    for line in text.lines() {
                        if line.is_empty() || line.starts_with("//") {
                            continue;
                        }
                        let mut parts = line.split('\t');
                        let op = parts.next().unwrap().to_string();
                        let inputs: Vec<String> = parts.take_while(|a| *a != "|").map(str::to_string).collect();
                        if sink.emit(&op, &inputs).is_some() {
                            sink.count("corpus_cases");
                        }
                    }
                }
            }
            if !generate(prop, &mut sink, &mut rng, n) {
                eprintln!("unknown property {prop}");
                std::process::exit(2);
            }
            sink.finish(&dir);
        }
        // re-run cases (op + inputs; anything after a `|` field is ignored) on the implementation:
        // prints `<full case line>` and `=> <implementation reply>` per case.
        "exec" => {
            let f = std::fs::File::open(&args[2]).expect("case file");
            for line in std::io::BufReader::new(f).lines() {
                let line = line.unwrap();
                if line.is_empty() || line.starts_with("//") {
                    continue;
                }
                let mut parts = line.split('\t');
                let op = parts.next().unwrap().to_string();
                let inputs: Vec<String> = parts.take_while(|a| *a != "|").map(str::to_string).collect();
                match exec(&op, &inputs) {
                    Some(r) => {
                        println!("{}", sink::case_line(&op, &inputs, &r));
                        println!("=> {}", r.reply);
                    }
                    None => println!("=> not-executable"),
                }
            }
        }
        _ => {
            eprintln!("unknown command");
            std::process::exit(2);
        }
    }
}
