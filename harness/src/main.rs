//! vrl-verif-harness: runs the real vrl code on generated cases and writes the line-protocol
//! files compared against the Lean model by /verif/bin/check.
mod arith;
mod c10;
mod c11;
mod c14;
mod c15;
mod c17;
mod c18;
mod c25;
mod c29;
mod c20;
mod c22;
mod c23;
mod c24;
mod c35;
mod c36;
mod c27;
mod c26;
mod c28;
mod c29f;
mod c21;
mod c19;
mod kindwire;
mod c32;
mod c33;
mod c34;
mod c03;
mod c08d;
mod typedx;
mod c03decl;
mod c30;
mod c31;
mod gens;
mod lang;
mod vrlrun;
mod vrlrun_c22;
mod vrlrun_c27;
mod rng;
mod sink;
mod sweep;
mod typed;
mod tinfo;
mod wire;

use sink::Reply;
use std::io::BufRead;
use std::path::PathBuf;

type Exec = fn(&str, &[String]) -> Option<Reply>;

/// one entry per module (keep one per line: builder branches are merged by line union)
const EXECS: &[Exec] = &[
    c18::exec,
    lang::exec,
    c17::exec,
    arith::exec,
    c10::exec,
    c11::exec,
    c25::exec,
    c29::exec,
    c20::exec,
    c22::exec,
    c15::exec,
    sweep::exec,
    c14::exec,
    typed::exec,
    c23::exec,
    c24::exec,
    c35::exec,
    c36::exec,
    c27::exec,
    c26::exec,
    c28::exec,
    c29f::exec,
    c21::exec,
    c19::exec,
    c32::exec,
    c33::exec,
    c30::exec,
    c31::exec,
    c34::exec,
    c03::exec,
    c08d::exec,
    c03decl::exec,
    tinfo::exec,
];

/// Run one case (`op` + inputs) on the implementation: the first module that recognises the op answers.
pub fn exec(op: &str, inputs: &[String]) -> Option<Reply> {
    EXECS.iter().find_map(|f| f(op, inputs))
}

fn generate(prop: &str, sink: &mut sink::Sink, rng: &mut rng::Rng, n: u64) -> bool {
    match prop {
        "C18" => c18::generate(sink, rng, n),
        "LANG" => lang::generate(sink, rng, n, true, None),
        "C06" => lang::generate(sink, rng, n, false, Some("o.c06")),
        "C07" => lang::generate(sink, rng, n, false, Some("o.c07")),
        "C08" => {
            lang::generate(sink, rng, n, false, Some("o.c08"));
            c08d::generate(sink, rng, n);
        }
        "C09" => lang::generate(sink, rng, n, false, Some("o.c09")),
        "C01" => {
            typedx::generate(sink, rng, "o.c01");
            typed::generate(sink, rng, n, "o.c01");
            typed::generate_env(sink, rng, n, "o.c01");
            tinfo::generate(sink, rng, n);
        }
        "C02" => {
            typedx::generate(sink, rng, "o.c02");
            typed::generate(sink, rng, n, "o.c02");
            typed::generate_env(sink, rng, n, "o.c02");
            tinfo::generate(sink, rng, n);
        }
        "C12" => {
            typedx::generate(sink, rng, "o.c12");
            typed::generate(sink, rng, n, "o.c12");
            typed::generate_env(sink, rng, n, "o.c12");
            tinfo::generate(sink, rng, n);
        }
        "C04" => sweep::generate(sink, rng, n, "o.c04.fn"),
        "C05" => sweep::generate(sink, rng, n, "o.c05.fn"),
        "C14" => c14::generate(sink, rng, n),
        "C15" => c15::generate(sink, rng, n),
        "C16" => c17::generate_c16(sink, rng, n),
        "C17" => c17::generate(sink, rng, n),
        "C13" => lang::generate(sink, rng, n, false, Some("o.c13")),
        "C10" => c10::generate(sink, rng, n),
        "C11" => c11::generate(sink, rng, n),
        "C25" => c25::generate(sink, rng, n),
        "C20" => c20::generate(sink, rng, n),
        "C22" => c22::generate(sink, rng, n),
        "C23" => c23::generate(sink, rng, n),
        "C24" => c24::generate(sink, rng, n),
        "C35" => c35::generate(sink, rng, n),
        "C36" => c36::generate(sink, rng, n),
        "C27" => c27::generate(sink, rng, n),
        "C26" => c26::generate(sink, rng, n),
        "C28" => c28::generate(sink, rng, n),
        "C29" => {
            c29::generate(sink, rng, n);
            c29f::generate(sink, rng, n);
        }
        "C21" => c21::generate(sink, rng, n),
        "C19" => c19::generate(sink, rng, n),
        "C32" => c32::generate(sink, rng, n),
        "C33" => c33::generate(sink, rng, n),
        "C30" => c30::generate(sink, rng, n),
        "C31" => c31::generate(sink, rng, n),
        "C34" => c34::generate(sink, rng, n),
        "C03" => c03::generate(sink, rng, n),
        _ => return false,
    }
    true
}

fn main() {
    let args: Vec<String> = std::env::args().collect();
    if args.len() < 2 {
        eprintln!("usage: vrl-verif-harness gen <PROP> <seed> <n> <outdir> | exec <file>");
        std::process::exit(2);
    }
    // panics are caught per case; keep stderr quiet
    std::panic::set_hook(Box::new(|_| {}));
    match args[1].as_str() {
        "sweep-worker" => sweep::worker_main(),
        "gen" => {
            let prop = args[2].as_str();
            let seed: u64 = args[3].parse().expect("seed");
            let n: u64 = args[4].parse().expect("n");
            let dir = PathBuf::from(&args[5]);
            let mut sink = sink::Sink::new(&dir).expect("outdir");
            let mut rng = rng::Rng::new(seed);
            // committed corpus (minimised past failures, known-finding replays) runs first, every time
            let corpus = PathBuf::from(concat!(env!("CARGO_MANIFEST_DIR"), "/../corpus")).join(prop);
            if let Ok(rd) = std::fs::read_dir(&corpus) {
                let mut files: Vec<_> = rd.filter_map(Result::ok).map(|e| e.path()).collect();
                files.sort();
                for f in files {
                    let Ok(text) = std::fs::read_to_string(&f) else { continue };
                    for line in text.lines() {
                        if line.is_empty() || line.starts_with("//") {
                            continue;
                        }
                        let mut parts = line.split('\t');
                        let op = parts.next().unwrap().to_string();
                        let inputs: Vec<String> = parts.take_while(|a| *a != "|").map(str::to_string).collect();
                        if sink.emit(&op, &inputs).is_some() {
                            sink.count("corpus_cases");
                        }
                    }
                }
            }
            if !generate(prop, &mut sink, &mut rng, n) {
                eprintln!("unknown property {prop}");
                std::process::exit(2);
            }
            sink.finish(&dir);
        }
        // re-run cases (op + inputs; anything after a `|` field is ignored) on the implementation:
        // prints `<full case line>` and `=> <implementation reply>` per case.
        "exec" => {
            let f = std::fs::File::open(&args[2]).expect("case file");
            for line in std::io::BufReader::new(f).lines() {
                let line = line.unwrap();
                if line.is_empty() || line.starts_with("//") {
                    continue;
                }
                let mut parts = line.split('\t');
                let op = parts.next().unwrap().to_string();
                let inputs: Vec<String> = parts.take_while(|a| *a != "|").map(str::to_string).collect();
                match exec(&op, &inputs) {
                    Some(r) => {
                        println!("{}", sink::case_line(&op, &inputs, &r));
                        println!("=> {}", r.reply);
                    }
                    None => println!("=> not-executable"),
                }
            }
        }
        "c33" => c33::cli(&args[2..]),
        _ => {
            eprintln!("unknown command");
            std::process::exit(2);
        }
    }
}
