//! Canonical text form of values and paths (DESIGN Appendix B); mirrored by lean/VrlModel/Wire.lean.
use vrl::path::{OwnedSegment, OwnedValuePath};
use vrl::value::Value;

pub fn hex(bs: &[u8]) -> String {
    let mut s = String::with_capacity(bs.len() * 2);
    for b in bs {
        s.push_str(&format!("{b:02x}"));
    }
    s
}

pub fn unhex(s: &str) -> Option<Vec<u8>> {
    if s.len() % 2 != 0 {
        return None;
    }
    (0..s.len() / 2)
        .map(|i| u8::from_str_radix(&s[2 * i..2 * i + 2], 16).ok())
        .collect()
}

pub fn show_value(v: &Value) -> String {
    let mut s = String::new();
    write_value(v, &mut s);
    s
}

fn write_value(v: &Value, s: &mut String) {
    match v {
        Value::Null => s.push('n'),
        Value::Boolean(true) => s.push('t'),
        Value::Boolean(false) => s.push('f'),
        Value::Integer(i) => s.push_str(&format!("i:{i}")),
        Value::Float(f) => s.push_str(&format!("d:{:016x}", f.into_inner().to_bits())),
        Value::Bytes(b) => {
            s.push_str("b:");
            s.push_str(&hex(b));
        }
        Value::Timestamp(t) => {
            let ns = i128::from(t.timestamp()) * 1_000_000_000 + i128::from(t.timestamp_subsec_nanos());
            s.push_str(&format!("ts:{ns}"));
        }
        Value::Regex(r) => {
            s.push_str("re:");
            s.push_str(&hex(r.as_str().as_bytes()));
        }
        Value::Array(a) => {
            s.push('[');
            for x in a {
                s.push(' ');
                write_value(x, s);
            }
            s.push_str(" ]");
        }
        Value::Object(m) => {
            s.push('{');
            for (k, x) in m {
                s.push_str(" k:");
                s.push_str(&hex(k.as_str().as_bytes()));
                s.push(' ');
                write_value(x, s);
            }
            s.push_str(" }");
        }
    }
}

pub fn show_opt(v: Option<&Value>) -> String {
    match v {
        None => "none".to_string(),
        Some(v) => show_value(v),
    }
}

pub fn show_path(p: &OwnedValuePath) -> String {
    if p.segments.is_empty() {
        return "-".to_string();
    }
    p.segments
        .iter()
        .map(|s| match s {
            OwnedSegment::Field(f) => format!(".{}", hex(f.as_str().as_bytes())),
            OwnedSegment::Index(i) => format!("#{i}"),
        })
        .collect::<Vec<_>>()
        .join(" ")
}

pub fn parse_value(s: &str) -> Option<Value> {
    let toks: Vec<&str> = s.split(' ').filter(|t| !t.is_empty()).collect();
    let mut pos = 0;
    let v = parse_v(&toks, &mut pos)?;
    if pos == toks.len() { Some(v) } else { None }
}

fn parse_v(toks: &[&str], pos: &mut usize) -> Option<Value> {
    let t = *toks.get(*pos)?;
    *pos += 1;
    Some(match t {
        "n" => Value::Null,
        "t" => Value::Boolean(true),
        "f" => Value::Boolean(false),
        "[" => {
            let mut a = Vec::new();
            while *toks.get(*pos)? != "]" {
                a.push(parse_v(toks, pos)?);
            }
            *pos += 1;
            Value::Array(a)
        }
        "{" => {
            let mut m = vrl::value::ObjectMap::new();
            while *toks.get(*pos)? != "}" {
                let k = toks.get(*pos)?.strip_prefix("k:")?;
                *pos += 1;
                let key = String::from_utf8(unhex(k)?).ok()?;
                let v = parse_v(toks, pos)?;
                m.insert(key.into(), v);
            }
            *pos += 1;
            Value::Object(m)
        }
        _ => {
            if let Some(x) = t.strip_prefix("i:") {
                Value::Integer(x.parse().ok()?)
            } else if let Some(x) = t.strip_prefix("d:") {
                let f = f64::from_bits(u64::from_str_radix(x, 16).ok()?);
                Value::Float(ordered_float::NotNan::new(f).ok()?)
            } else if let Some(x) = t.strip_prefix("b:") {
                Value::Bytes(unhex(x)?.into())
            } else if let Some(x) = t.strip_prefix("ts:") {
                let ns: i128 = x.parse().ok()?;
                let secs = ns.div_euclid(1_000_000_000) as i64;
                let sub = ns.rem_euclid(1_000_000_000) as u32;
                Value::Timestamp(chrono::DateTime::from_timestamp(secs, sub)?)
            } else if let Some(x) = t.strip_prefix("re:") {
                let src = String::from_utf8(unhex(x)?).ok()?;
                Value::Regex(vrl::value::ValueRegex::new(std::sync::Arc::new(regex::Regex::new(&src).ok()?)))
            } else {
                return None;
            }
        }
    })
}

pub fn parse_path(s: &str) -> Option<OwnedValuePath> {
    if s == "-" {
        return Some(OwnedValuePath::root());
    }
    let mut segs = Vec::new();
    for t in s.split(' ').filter(|t| !t.is_empty()) {
        if let Some(h) = t.strip_prefix('.') {
            segs.push(OwnedSegment::Field(String::from_utf8(unhex(h)?).ok()?.into()));
        } else if let Some(i) = t.strip_prefix('#') {
            segs.push(OwnedSegment::Index(i.parse().ok()?));
        } else {
            return None;
        }
    }
    Some(OwnedValuePath { segments: segs })
}
