//! C01 / C02 / C12 – oracle on the implementation's own type information.
//!
//! `o.typed <pid> <hex source> <event> <metadata>`: compile, then step through the root expressions
//! of the compiled program with one `Context` (exactly what `Block::resolve` does), recording for
//! each root expression the `TypeDef` and constant the compiler computed for it in the type state
//! reaching it (`apply_type_info` / `resolve_constant`, public API) and what it evaluated to; plus
//! the program-level `final_type_info`, `ProgramInfo` flags and the final event/metadata. The Lean
//! driver evaluates the Spec predicates (`Spec.memR`, …) on these observations.
use crate::kindwire::show_kind;
use crate::lang;
use crate::rng::Rng;
use crate::sink::{guarded, Reply, Sink};
use crate::wire::*;
use vrl::compiler::state::RuntimeState;
use vrl::compiler::{Context, Expression, ExpressionError, TargetValue, TimeZone};
use vrl::value::{Secrets, Value};

pub fn exec(op: &str, a: &[String]) -> Option<Reply> {
    match (op, a) {
        ("o.c01" | "o.c02" | "o.c12", [src, event, metadata]) => oracle(src, None, event, metadata),
        // the same oracle on a program compiled against a declared external environment
        // (`ExternalEnv::new_with_kind`), run on an event / metadata generated from the declared kinds
        ("o.c01.env" | "o.c02.env" | "o.c12.env", [src, tk, mk, event, metadata]) => {
            oracle(src, Some((tk.as_str(), mk.as_str())), event, metadata)
        }
        _ => None,
    }
}

fn oracle(src: &str, env: Option<(&str, &str)>, event: &str, metadata: &str) -> Option<Reply> {
    {
        {
            let srct = String::from_utf8(unhex(src)?).ok()?;
            if std::env::var("VERIF_TRACE").is_ok() {
                eprintln!("TRACE {srct:?} {event}");
            }
            let program = match env {
                None => crate::vrlrun::compile(&srct).ok()?,
                Some((tk, mk)) => {
                    let target = crate::kindwire::parse_kind(tk)?;
                    let metadata_kind = crate::kindwire::parse_kind(mk)?;
                    crate::tinfo::compile_env(&srct, &target, &metadata_kind).ok()?
                }
            };
            let dump = vrl::compiler::verif::dump_program(&program);
            let has_bang = srct.contains("!(");
            let has_abort = srct.contains("abort");
            let info = program.info().clone();
            let fin = program.final_type_info();
            let mut obs = vec![
                dump,
                show_kind(fin.result.kind()),
                show_kind(fin.result.returns()),
                show_kind(fin.state.external.target_kind()),
                show_kind(fin.state.external.metadata_kind()),
                format!("{}{}{}{}", u8::from(info.fallible), u8::from(info.abortable), u8::from(has_bang), u8::from(has_abort)),
            ];
            // step through the root expressions
            let mut target = TargetValue { value: parse_value(event)?, metadata: parse_value(metadata)?, secrets: Secrets::default() };
            let mut rstate = RuntimeState::default();
            let tz = TimeZone::Named(chrono_tz::UTC);
            let mut tstate = program.initial_type_state();
            let roots = program.verif_expressions().exprs().clone();
            let mut steps: Vec<String> = Vec::new();
            let mut outcome = "ok n".to_string();
            let stepped = guarded(|| {
                let mut ctx = Context::new(&mut target, &mut rstate, &tz);
                for e in &roots {
                    let constant = e.resolve_constant(&tstate);
                    let td = e.apply_type_info(&mut tstate);
                    let r = e.resolve(&mut ctx);
                    let (rs, stop) = match &r {
                        Ok(v) => (format!("ok {}", show_value(v)), false),
                        Err(ExpressionError::Return { value, .. }) => (format!("ret {}", show_value(value)), true),
                        Err(ExpressionError::Abort { .. }) => ("abort".to_string(), true),
                        Err(err) => {
                            let m = err.to_string();
                            (if m.contains("NaN") { "err nan".to_string() } else { "err".to_string() }, true)
                        }
                    };
                    steps.push(format!(
                        "{}\t{}\t{}\t{}",
                        show_kind(td.kind()),
                        u8::from(td.is_fallible()),
                        constant.as_ref().map_or("-".to_string(), show_value),
                        rs
                    ));
                    outcome = rs;
                    if stop {
                        break;
                    }
                }
            });
            if stepped.is_err() {
                outcome = "panic".to_string();
            }
            obs.push(outcome);
            obs.push(show_value(&target.value));
            obs.push(show_value(&target.metadata));
            obs.push(steps.len().to_string());
            for s in steps {
                obs.extend(s.split('\t').map(str::to_string));
            }
            Some(Reply::oracle(obs))
        }
    }
}

/// `"s" * i64::MAX` makes `[u8]::repeat` abort the whole process (allocation failure is not a panic):
/// such programs are not run (the abort is C04's finding, not a typing matter)
pub fn risky_alloc(src: &str) -> bool {
    // coarse on purpose: a huge integer literal anywhere together with a `*` anywhere (the operand may be
    // a parenthesised expression or a variable holding the literal)
    const BIG: [&str; 2] = ["9223372036854775807", "9007199254740993"];
    BIG.iter().any(|b| src.contains(b)) && src.contains('*')
}

/// programs of the call-free typing generator, compiled against declared environments, on events
/// generated from the declared kinds
pub fn generate_env(sink: &mut Sink, rng: &mut Rng, n: u64, op: &str) {
    let op_env = format!("{op}.env");
    let mut accepted = 0u64;
    let mut tried = 0u64;
    while accepted < n && tried < n * 30 {
        tried += 1;
        let src = if rng.chance(1, 4) {
            let mut g = lang::Gen::new(rng);
            g.program()
        } else {
            let mut g = crate::tinfo::TGen::new(rng);
            g.program()
        };
        if risky_alloc(&src) {
            sink.count("typed:skipped_huge_repeat");
            continue;
        }
        let (tk, mk, declared) = crate::tinfo::gen_env(rng);
        let (stk, smk) = (show_kind(&tk), show_kind(&mk));
        if crate::kindwire::parse_kind(&stk).is_none() || crate::kindwire::parse_kind(&smk).is_none() {
            continue;
        }
        if crate::tinfo::compile_env(&src, &tk, &mk).is_err() {
            sink.count("typed:env:rejected_by_compiler");
            continue;
        }
        accepted += 1;
        sink.count(if declared { "typed:env:declared" } else { "typed:env:any" });
        for _ in 0..3 {
            let (event, meta) = if declared {
                match (crate::c19::gen_member(rng, &tk, 3), crate::c19::gen_member(rng, &mk, 2)) {
                    (Some(e), Some(m)) => (e, m),
                    _ => {
                        sink.count("typed:env:no_member");
                        continue;
                    }
                }
            } else {
                (lang::gen_event(rng), lang::gen_metadata(rng))
            };
            if let Some(r) = sink.emit(&op_env, &[hex(src.as_bytes()), stk.clone(), smk.clone(), show_value(&event), show_value(&meta)]) {
                let out = r.obs.get(6).cloned().unwrap_or_default();
                sink.count(&format!("typed:env:outcome:{}", out.split(' ').next().unwrap_or("")));
            }
        }
    }
}

pub fn generate(sink: &mut Sink, rng: &mut Rng, n: u64, op: &str) {
    let mut accepted = 0u64;
    let mut tried = 0u64;
    while accepted < n && tried < n * 20 {
        tried += 1;
        let src = {
            let mut g = lang::Gen::new(rng);
            g.program()
        };
        if risky_alloc(&src) {
            sink.count("typed:skipped_huge_repeat");
            continue;
        }
        if crate::vrlrun::compile(&src).is_err() {
            sink.count("typed:rejected_by_compiler");
            continue;
        }
        accepted += 1;
        for _ in 0..3 {
            let event = lang::gen_event(rng);
            let meta = lang::gen_metadata(rng);
            if let Some(r) = sink.emit(op, &[hex(src.as_bytes()), show_value(&event), show_value(&meta)]) {
                let out = r.obs.get(6).cloned().unwrap_or_default();
                sink.count(&format!("typed:outcome:{}", out.split(' ').next().unwrap_or("")));
            }
        }
    }
}
