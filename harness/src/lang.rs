//! Language core: program generator (VRL source text) and the `lang.run` correspondence op.
//!
//! `lang.run <hex source> <event> <metadata> <faults>`: compiles the source with the real compiler,
//! dumps the *compiled* tree through the `cfg(vrl_verif)` hook, runs it with `Runtime::resolve` on a
//! fault-injecting, logging target and reports outcome, final event/metadata, runtime variables and
//! the target access log. The dumped tree and the texts of the errors caught by infallible
//! assignments are passed to the model as observations (after the `|` field).
use crate::gens::*;
use crate::rng::Rng;
use crate::sink::{Reply, Sink};
use crate::vrlrun::{self, Outcome};
use crate::wire::*;
use vrl::compiler::TimeZone;
use vrl::value::{ObjectMap, Value};

pub fn show_run(r: &vrlrun::RunResult) -> String {
    let out = match &r.outcome {
        Outcome::Ok(v) => format!("ok {}", show_value(v)),
        Outcome::Error(_) => "error".to_string(),
        Outcome::Abort(None) => "abort -".to_string(),
        Outcome::Abort(Some(m)) => format!("abort {}", hex(m.as_bytes())),
        Outcome::Panic(_) => "panic".to_string(),
    };
    let vars: String = r.vars.iter().map(|(n, v)| format!(" v:{n}={};", show_value(v))).collect();
    format!(
        "{out}\t{}\t{}\tvars{vars}\tlog {}",
        show_value(&r.event),
        show_value(&r.metadata),
        r.log.join(" | ")
    )
}

pub fn parse_faults(s: &str) -> Option<Vec<u64>> {
    if s == "-" {
        return Some(vec![]);
    }
    s.split(' ').filter(|t| !t.is_empty()).map(|t| t.parse().ok()).collect()
}

pub fn exec(op: &str, a: &[String]) -> Option<Reply> {
    match (op, a) {
        ("lang.run", [src, event, metadata, faults]) => {
            let src = String::from_utf8(unhex(src)?).ok()?;
            let program = vrlrun::compile(&src).ok()?;
            let dump = vrl::compiler::verif::dump_program(&program);
            let r = vrlrun::run_program(
                &program,
                parse_value(event)?,
                parse_value(metadata)?,
                parse_faults(faults)?,
                &TimeZone::Named(chrono_tz::UTC),
            );
            let errs = if r.caught.is_empty() {
                "-".to_string()
            } else {
                r.caught.iter().map(|m| if m.is_empty() { "e".to_string() } else { hex(m.as_bytes()) }).collect::<Vec<_>>().join(" ")
            };
            Some(Reply { obs: vec![dump, errs], reply: show_run(&r) })
        }
        ("o.c16", [src, event, metadata, faults]) => {
            // observations: compiled tree, reported queries, reported assignments, access log of a run
            let srct = String::from_utf8(unhex(src)?).ok()?;
            let program = vrlrun::compile(&srct).ok()?;
            let dump = vrl::compiler::verif::dump_program(&program);
            let show = |ps: &Vec<vrl::path::OwnedTargetPath>| {
                let v: Vec<String> = ps
                    .iter()
                    .map(|p| format!("{}:{}", if p.prefix == vrl::path::PathPrefix::Event { "e" } else { "m" }, show_path(&p.path)))
                    .collect();
                if v.is_empty() { "-".to_string() } else { v.join(" | ") }
            };
            let info = program.info();
            let r = vrlrun::run_program(&program, parse_value(event)?, parse_value(metadata)?, parse_faults(faults)?, &TimeZone::Named(chrono_tz::UTC));
            let log = if r.log.is_empty() { "-".to_string() } else { r.log.join(" | ") };
            Some(Reply::oracle(vec![dump, show(&info.target_queries), show(&info.target_assignments), log]))
        }
        // only the oracles of the language-core properties: anything else with four inputs (`o.c14 … <seed>`)
        // belongs to another module
        (o, [src, event, metadata, faults]) if ["o.c06", "o.c07", "o.c08", "o.c09", "o.c13", "o.c17"].contains(&o) => {
            // Spec oracle: same run; the observed outcome/event/metadata/variables are observations
            let r = exec("lang.run", &[src.clone(), event.clone(), metadata.clone(), faults.clone()])?;
            let mut obs = r.obs;
            let parts: Vec<&str> = r.reply.split('\t').collect();
            if parts.len() < 4 {
                return None;
            }
            obs.extend(parts[..4].iter().map(|p| (*p).to_string()));
            Some(Reply::oracle(obs))
        }
        _ => None,
    }
}

// ---------------------------------------------------------------------------------------------
// program generator

#[derive(Clone, Copy, PartialEq, Debug)]
enum Ty {
    Float,
    Int,
    Str,
    Bool,
    Arr,
    Obj,
    Any,
}

const EVENT_PATHS: &[&str] = &[".a", ".b", ".s", ".n", ".t", ".arr", ".obj", ".obj.x", ".arr[0]", ".arr[-1]", ".a.b", ".q", "%m", "%m.k", "%a", ".m", "%a.b"];
const VARS: &[&str] = &["x", "y", "z", "k", "v"];

pub struct Gen<'a> {
    rng: &'a mut Rng,
    /// variables assigned so far (name, type)
    vars: Vec<(String, Ty)>,
    pub stats: Vec<&'static str>,
    in_closure: bool,
}

impl<'a> Gen<'a> {
    pub fn new(rng: &'a mut Rng) -> Self {
        Gen { rng, vars: Vec::new(), stats: Vec::new(), in_closure: false }
    }

    fn lit(&mut self, ty: Ty) -> String {
        match ty {
            Ty::Int => match self.rng.below(6) {
                0 => "0".into(),
                1 => "1".into(),
                2 => "-1".into(),
                3 => "9223372036854775807".into(),
                4 => "9007199254740993".into(),
                _ => self.rng.range(-20, 20).to_string(),
            },
            Ty::Float => (*self.rng.pick(&["0.0", "1.5", "-2.25", "1e3", "0.1", "100.0", "-0.0"])).to_string(),
            Ty::Str => format!("\"{}\"", self.rng.pick(&["", "a", "b", "12", "-7", "x y", "é", "abc"])),
            Ty::Bool => if self.rng.chance(1, 2) { "true".into() } else { "false".into() },
            Ty::Arr => match self.rng.below(3) {
                0 => "[]".into(),
                1 => "[1, 2, 3]".into(),
                _ => format!("[{}, {}]", self.expr(Ty::Int, 1), self.expr(Ty::Str, 1)),
            },
            Ty::Obj => match self.rng.below(3) {
                0 => "{}".into(),
                1 => "{\"a\": 1, \"b\": \"s\"}".into(),
                _ => format!("{{\"k\": {}, \"a\": {}}}", self.expr(Ty::Int, 1), self.expr(Ty::Bool, 1)),
            },
            Ty::Any => {
                let t = *self.rng.pick(&[Ty::Int, Ty::Str, Ty::Bool, Ty::Arr, Ty::Obj, Ty::Float]);
                if self.rng.chance(1, 8) { "null".into() } else { self.lit(t) }
            }
        }
    }

    fn var_of(&mut self, ty: Ty) -> Option<String> {
        let c: Vec<String> = self.vars.iter().filter(|(_, t)| *t == ty || ty == Ty::Any).map(|(n, _)| n.clone()).collect();
        if c.is_empty() { None } else { Some(self.rng.pick(&c).clone()) }
    }

    fn any_path(&mut self) -> String {
        (*self.rng.pick(EVENT_PATHS)).to_string()
    }

    /// an expression that may fail at run time (must be handled by the caller)
    fn fallible(&mut self, ty: Ty, depth: u32) -> String {
        self.stats.push("fallible");
        match ty {
            Ty::Int => match self.rng.below(5) {
                0 => format!("to_int({})", self.any_path()),
                1 => format!("int({})", self.any_path()),
                2 => format!("({} + {})", self.any_path(), self.expr(Ty::Int, depth)),
                3 => format!("({} * {})", self.rng.range(-2, 3), self.any_path()),
                _ => format!("to_int({})", self.expr(Ty::Any, depth)),
            },
            Ty::Float => match self.rng.below(4) {
                0 => format!("float({})", self.any_path()),
                1 => format!("({} / {})", self.expr(Ty::Int, depth), self.any_path()),
                2 => format!("({} / {})", self.expr(Ty::Float, depth), self.expr(Ty::Int, depth)),
                _ => format!("({} * {})", self.any_path(), self.lit(Ty::Float)),
            },
            Ty::Str => match self.rng.below(3) {
                0 => format!("string({})", self.any_path()),
                1 => format!("({} + {})", self.any_path(), self.expr(Ty::Str, depth)),
                _ => format!("string({})", self.expr(Ty::Any, depth)),
            },
            Ty::Bool => match self.rng.below(6) {
                0 => format!("bool({})", self.any_path()),
                1 => format!("({} > {})", self.any_path(), self.expr(Ty::Int, depth)),
                2 => format!("({} && {})", self.any_path(), self.expr(Ty::Bool, depth)),
                // a right operand that may be null / of any kind (`true && null` is false, not an error)
                3 => format!("({} && {})", self.expr(Ty::Bool, depth), self.any_path()),
                4 => format!("({} && ({} || null))", self.expr(Ty::Bool, depth), self.any_path()),
                _ => format!("({} || {})", self.any_path(), self.expr(Ty::Bool, depth)),
            },
            Ty::Arr => match self.rng.below(2) {
                0 => format!("array({})", self.any_path()),
                _ => format!("push({}, {})", self.any_path(), self.expr(Ty::Any, depth)),
            },
            Ty::Obj => match self.rng.below(2) {
                0 => format!("object({})", self.any_path()),
                _ => format!("({} | {})", self.any_path(), self.expr(Ty::Obj, depth)),
            },
            Ty::Any => {
                let t = *self.rng.pick(&[Ty::Int, Ty::Str, Ty::Bool, Ty::Arr, Ty::Obj, Ty::Float]);
                self.fallible(t, depth)
            }
        }
    }

    /// a control-flow escape usable as a statement: `return e`, `abort`, `abort "m"`
    fn escape(&mut self, depth: u32) -> String {
        match self.rng.below(4) {
            0 => {
                self.stats.push("abort");
                "abort".into()
            }
            1 => {
                self.stats.push("abort_msg");
                format!("abort {}", self.expr(Ty::Str, depth.min(1)))
            }
            _ => {
                self.stats.push("return");
                format!("return {}", self.expr(Ty::Any, depth.min(1)))
            }
        }
    }

    /// a block `{ stmts; value }` of the given type, possibly with an early escape
    fn block(&mut self, ty: Ty, depth: u32) -> String {
        let mut parts = Vec::new();
        let n = self.rng.below(3);
        let saved = self.vars.len();
        for _ in 0..n {
            parts.push(self.stmt(depth));
        }
        if self.rng.chance(1, 4) {
            let cond = self.expr(Ty::Bool, depth);
            let esc = self.escape(depth);
            parts.push(format!("if {cond} {{ {esc} }}"));
        } else if self.rng.chance(1, 10) {
            parts.push(self.escape(depth));
        }
        parts.push(self.expr(ty, depth));
        // variables first defined inside a block are out of scope afterwards
        self.vars.truncate(saved);
        format!("{{ {} }}", parts.join("; "))
    }

    pub fn expr(&mut self, ty: Ty, depth: u32) -> String {
        if depth == 0 {
            return match self.rng.below(4) {
                0 | 1 => self.lit(ty),
                2 => self.var_of(ty).unwrap_or_else(|| self.lit(ty)),
                _ => if ty == Ty::Any { self.any_path() } else { self.lit(ty) },
            };
        }
        let d = depth - 1;
        let c = self.rng.below(16);
        match c {
            0 | 1 => self.lit(ty),
            2 => self.var_of(ty).unwrap_or_else(|| self.lit(ty)),
            3 => {
                // error coalescing
                self.stats.push("coalesce");
                if ty == Ty::Any && self.rng.chance(1, 3) {
                    // a left operand that SUCCEEDS with null (or false): `??` must not look at the value
                    self.stats.push("coalesce_null_lhs");
                    let v = *self.rng.pick(&["null", "false", "null"]);
                    format!("({{ {}; {v} }} ?? {})", self.fallible(ty, d), self.expr(ty, d))
                } else {
                    format!("({} ?? {})", self.fallible(ty, d), self.expr(ty, d))
                }
            }
            4 => {
                self.stats.push("coalesce_chain");
                format!("({} ?? {} ?? {})", self.fallible(ty, d), self.fallible(ty, d), self.expr(ty, d))
            }
            5 => {
                self.stats.push("if_else");
                format!("if {} {} else {}", self.expr(Ty::Bool, d), self.block(ty, d), self.block(ty, d))
            }
            6 => self.block(ty, d),
            7 => {
                // `||` default
                self.stats.push("or");
                format!("({} || {})", self.any_path(), self.expr(ty, d))
            }
            8 if ty == Ty::Any => {
                self.stats.push("if_noelse");
                format!("if {} {}", self.expr(Ty::Bool, d), self.block(Ty::Any, d))
            }
            _ => match ty {
                Ty::Int => match self.rng.below(6) {
                    0 => format!("({} + {})", self.expr(Ty::Int, d), self.expr(Ty::Int, d)),
                    1 => format!("({} - {})", self.expr(Ty::Int, d), self.expr(Ty::Int, d)),
                    2 => format!("({} * {})", self.expr(Ty::Int, d), self.expr(Ty::Int, d)),
                    3 => {
                        let t = if self.rng.chance(1, 2) { Ty::Arr } else { Ty::Str };
                        format!("length({})", self.expr(t, d))
                    }
                    4 => format!("to_int({})", self.expr(Ty::Bool, d)),
                    _ => self.lit(ty),
                },
                Ty::Float => match self.rng.below(5) {
                    0 => format!("({} + {})", self.expr(Ty::Float, d), self.expr(Ty::Int, d)),
                    1 => format!("({} * {})", self.expr(Ty::Float, d), self.expr(Ty::Float, d)),
                    2 => format!("({} - {})", self.expr(Ty::Int, d), self.expr(Ty::Float, d)),
                    3 => format!("({} / 4)", self.expr(Ty::Int, d)),
                    _ => self.lit(ty),
                },
                Ty::Str => match self.rng.below(3) {
                    0 => format!("({} + {})", self.expr(Ty::Str, d), self.expr(Ty::Str, d)),
                    1 => format!("({} * {})", self.expr(Ty::Str, d), self.rng.range(-1, 3)),
                    _ => self.lit(ty),
                },
                Ty::Bool => match self.rng.below(11) {
                    0 => format!("({} == {})", self.expr(Ty::Any, d), self.expr(Ty::Any, d)),
                    1 => format!("({} != {})", self.expr(Ty::Any, d), self.expr(Ty::Any, d)),
                    2 => format!("({} < {})", self.expr(Ty::Int, d), self.expr(Ty::Int, d)),
                    3 => format!("({} >= {})", self.expr(Ty::Str, d), self.expr(Ty::Str, d)),
                    9 => format!("({} <= {})", self.expr(Ty::Float, d), self.expr(Ty::Int, d)),
                    4 => format!("({} && {})", self.expr(Ty::Bool, d), self.expr(Ty::Bool, d)),
                    5 => format!("({} || {})", self.expr(Ty::Bool, d), self.expr(Ty::Bool, d)),
                    6 => format!("!{}", self.expr(Ty::Bool, d)),
                    7 => format!("exists({})", self.any_path()),
                    8 => format!("{}({})", self.rng.pick(&["is_string", "is_integer", "is_null", "is_array", "is_object", "is_boolean"]), self.expr(Ty::Any, d)),
                    _ => self.lit(ty),
                },
                Ty::Arr => match self.rng.below(4) {
                    0 => format!("push({}, {})", self.expr(Ty::Arr, d), self.expr(Ty::Any, d)),
                    1 => format!("[{}, {}]", self.expr(Ty::Any, d), self.expr(Ty::Any, d)),
                    2 => self.closure_call(Ty::Arr, d),
                    _ => self.lit(ty),
                },
                Ty::Obj => match self.rng.below(4) {
                    0 => format!("({} | {})", self.expr(Ty::Obj, d), self.expr(Ty::Obj, d)),
                    1 => format!("{{\"a\": {}, \"b\": {}}}", self.expr(Ty::Any, d), self.expr(Ty::Any, d)),
                    2 => self.closure_call(Ty::Obj, d),
                    _ => self.lit(ty),
                },
                Ty::Any => match self.rng.below(5) {
                    0 => self.any_path(),
                    1 => format!("del({})", self.any_path()),
                    2 => self.assignment(d),
                    _ => {
                        let t = *self.rng.pick(&[Ty::Int, Ty::Str, Ty::Bool, Ty::Arr, Ty::Obj, Ty::Float]);
                        self.expr(t, d)
                    }
                },
            },
        }
    }

    fn closure_body(&mut self, ty: Ty, depth: u32, params: &[&str]) -> String {
        let saved = self.vars.len();
        let was = self.in_closure;
        self.in_closure = true;
        for p in params {
            if !p.starts_with('_') {
                self.vars.push(((*p).to_string(), Ty::Any));
            }
        }
        let mut parts = Vec::new();
        if self.rng.chance(1, 2) {
            parts.push(self.stmt(depth));
        }
        if self.rng.chance(1, 4) {
            // a failing / escaping iteration
            let cond = format!("({} == {})", self.rng.pick(params), self.lit(Ty::Any));
            let esc = if self.rng.chance(1, 2) { self.escape(depth) } else { format!("to_int!({})", self.any_path()) };
            parts.push(format!("if {cond} {{ {esc} }}"));
        }
        parts.push(self.expr(ty, depth));
        self.vars.truncate(saved);
        self.in_closure = was;
        parts.join("; ")
    }

    /// a closure-taking call producing `ty` (Arr or Obj)
    fn closure_call(&mut self, ty: Ty, depth: u32) -> String {
        self.stats.push("closure");
        let coll = self.expr(ty, depth);
        let p0 = *self.rng.pick(&["k", "_k", "x", "kk"]);
        let p1 = *self.rng.pick(&["v", "_v", "y", "vv", "x"]);
        match self.rng.below(3) {
            0 => format!("filter({coll}) -> |{p0}, {p1}| {{ {} }}", self.closure_body(Ty::Bool, depth, &[p0, p1])),
            1 => format!("map_values({coll}) -> |{p1}| {{ {} }}", self.closure_body(Ty::Any, depth, &[p1])),
            _ if ty == Ty::Obj => format!("map_keys({coll}) -> |{p0}| {{ {} }}", self.closure_body(Ty::Str, depth, &[p0])),
            _ => format!("map_values({coll}) -> |{p1}| {{ {} }}", self.closure_body(Ty::Any, depth, &[p1])),
        }
    }

    fn target(&mut self) -> (String, bool) {
        // (target text, is variable)
        match self.rng.below(8) {
            0..=2 => ((*self.rng.pick(VARS)).to_string(), true),
            3 => {
                let v = *self.rng.pick(VARS);
                (format!("{v}.{}", self.rng.pick(&["a", "b", "c[1]"])), true)
            }
            _ => ((*self.rng.pick(&[".a", ".b", ".out", ".obj.y", ".arr[1]", ".arr[-1]", ".a.b", ".n", "%m", "%m.k", ".new[2]", "%a", ".m.k", "%out"])).to_string(), false),
        }
    }

    fn assignment(&mut self, depth: u32) -> String {
        let ty = *self.rng.pick(&[Ty::Int, Ty::Str, Ty::Bool, Ty::Arr, Ty::Obj, Ty::Any, Ty::Float]);
        let (t, is_var) = self.target();
        if self.rng.chance(1, 4) {
            // infallible assignment
            self.stats.push("iasg");
            let rhs = self.fallible(ty, depth);
            // the error target is a variable, `_`, or (seeded C15-1 / C16-2) an event or metadata path
            let errv = *self.rng.pick(&["err", "e2", "_", "err", ".err", ".a", "%m.e", ".obj.x"]);
            if is_var && !t.contains('.') {
                self.vars.retain(|(n, _)| n != &t);
                self.vars.push((t.clone(), Ty::Any));
            }
            if errv != "_" && !errv.starts_with(['.', '%']) {
                self.vars.retain(|(n, _)| n != errv);
                self.vars.push((errv.to_string(), Ty::Any));
            }
            format!("{t}, {errv} = {rhs}")
        } else {
            let rhs = self.expr(ty, depth);
            if is_var && !t.contains('.') {
                self.vars.retain(|(n, _)| n != &t);
                self.vars.push((t.clone(), ty));
            } else if is_var {
                let base = t.split('.').next().unwrap().to_string();
                self.vars.retain(|(n, _)| n != &base);
                self.vars.push((base, Ty::Any));
            }
            if self.rng.chance(1, 10) && (ty == Ty::Obj) {
                format!("{t} |= {rhs}")
            } else {
                format!("{t} = {rhs}")
            }
        }
    }

    pub fn stmt(&mut self, depth: u32) -> String {
        match self.rng.below(10) {
            0..=4 => self.assignment(depth),
            5 => {
                self.stats.push("for_each");
                let ty = if self.rng.chance(1, 2) { Ty::Arr } else { Ty::Obj };
                let coll = self.expr(ty, depth);
                let p0 = *self.rng.pick(&["k", "_k", "x"]);
                let p1 = *self.rng.pick(&["v", "_v", "y", "x"]);
                format!("for_each({coll}) -> |{p0}, {p1}| {{ {} }}", self.closure_body(Ty::Any, depth, &[p0, p1]))
            }
            6 => format!("del({})", self.any_path()),
            7 => {
                let c = self.expr(Ty::Bool, depth);
                let b = self.block(Ty::Any, depth);
                format!("if {c} {b}")
            }
            _ => self.expr(Ty::Any, depth),
        }
    }

    pub fn program(&mut self) -> String {
        let n = 1 + self.rng.below(5);
        let mut parts = Vec::new();
        for _ in 0..n {
            parts.push(self.stmt(2));
        }
        if self.rng.chance(1, 6) {
            let cond = self.expr(Ty::Bool, 1);
            let esc = self.escape(1);
            parts.push(format!("if {cond} {{ {esc} }}"));
        }
        // final probe: observable variables and result
        let names: Vec<String> = self.vars.iter().map(|(n, _)| n.clone()).collect();
        if !names.is_empty() && self.rng.chance(2, 3) {
            parts.push(format!("[{}]", names.join(", ")));
        } else {
            parts.push(self.expr(Ty::Any, 2));
        }
        parts.join("\n")
    }
}

pub fn gen_event(rng: &mut Rng) -> Value {
    let mut m = ObjectMap::new();
    let scal = |rng: &mut Rng| match rng.below(8) {
        0 => Value::Null,
        1 => Value::Boolean(rng.chance(1, 2)),
        2 => Value::Integer(rng.range(-3, 3)),
        3 => Value::Integer(*rng.pick(edge_ints())),
        4 => Value::Bytes((*rng.pick(&["", "a", "12", "-7", "x y", "abc"])).into()),
        5 => gen_value(rng, 2, SIMPLE_KEYS),
        6 => Value::Bytes("9999999999999999999".into()),
        _ => Value::Bytes("5".into()),
    };
    let to_int_ok = |v: Value| v;
    for k in ["a", "b", "q"] {
        if rng.chance(3, 4) {
            m.insert(k.into(), strip_floats(to_int_ok(scal(rng))));
        }
    }
    m.insert("s".into(), Value::Bytes((*rng.pick(&["12", "x", "-3", ""])).into()));
    m.insert("n".into(), Value::Integer(rng.range(-5, 5)));
    m.insert("t".into(), Value::Boolean(rng.chance(1, 2)));
    if rng.chance(4, 5) {
        let n = rng.below(4);
        m.insert("arr".into(), Value::Array((0..n).map(|_| strip_floats(scal(rng))).collect()));
    }
    if rng.chance(4, 5) {
        let mut o = ObjectMap::new();
        for k in ["x", "y", "a"] {
            if rng.chance(1, 2) {
                o.insert(k.into(), strip_floats(scal(rng)));
            }
        }
        m.insert("obj".into(), Value::Object(o));
    }
    Value::Object(m)
}

/// floats and timestamps are outside the current language model: replace them in events.
pub fn strip_floats(v: Value) -> Value {
    match v {
        Value::Array(a) => Value::Array(a.into_iter().map(strip_floats).collect()),
        Value::Object(o) => Value::Object(o.into_iter().map(|(k, v)| (k, strip_floats(v))).collect()),
        other => other,
    }
}

pub fn gen_metadata(rng: &mut Rng) -> Value {
    let mut m = ObjectMap::new();
    if rng.chance(1, 2) {
        m.insert("m".into(), if rng.chance(1, 2) { Value::Integer(7) } else { strip_floats(gen_value(rng, 1, SIMPLE_KEYS)) });
    }
    Value::Object(m)
}

/// a `*` in the program together with a large integer in the event: `"s" * .n` would repeat the string
/// billions of times (the implementation allocates gigabytes, the Lean model overflows its stack)
pub fn risky_case(src: &str, event: &Value) -> bool {
    fn big(v: &Value) -> bool {
        match v {
            Value::Integer(i) => i.unsigned_abs() > 100_000,
            Value::Array(a) => a.iter().any(big),
            Value::Object(m) => m.values().any(big),
            _ => false,
        }
    }
    src.contains('*') && big(event)
}

pub fn generate(sink: &mut Sink, rng: &mut Rng, n: u64, with_faults: bool, oracle: Option<&str>) {
    let mut accepted = 0u64;
    let mut tried = 0u64;
    while accepted < n && tried < n * 20 {
        tried += 1;
        let src = {
            let mut g = Gen::new(rng);
            let s = g.program();
            for st in g.stats.clone() {
                sink.count(&format!("lang:form:{st}"));
            }
            s
        };
        if crate::typed::risky_alloc(&src) {
            // `"s" * <huge>` aborts the process on the allocation (C04/C11 known finding), not a panic
            sink.count("lang:skipped_huge_repeat");
            continue;
        }
        if vrlrun::compile(&src).is_err() {
            sink.count("lang:rejected_by_compiler");
            continue;
        }
        accepted += 1;
        sink.count("lang:accepted");
        for _ in 0..3 {
            let event = gen_event(rng);
            let meta = gen_metadata(rng);
            if risky_case(&src, &event) || risky_case(&src, &meta) {
                sink.count("lang:skipped_huge_repeat_event");
                continue;
            }
            let faults = if with_faults && rng.chance(1, 2) {
                let k = 1 + rng.below(2);
                (0..k).map(|_| rng.below(10).to_string()).collect::<Vec<_>>().join(" ")
            } else {
                "-".to_string()
            };
            let faults_s = faults.clone();
            if let Some(r) = sink.emit("lang.run", &[hex(src.as_bytes()), show_value(&event), show_value(&meta), faults]) {
                let class = r.reply.split(['\t', ' ']).next().unwrap_or("").to_string();
                sink.count(&format!("lang:outcome:{class}"));
                if let Some(o) = oracle {
                    let inputs = [hex(src.as_bytes()), show_value(&event), show_value(&meta), faults_s.clone()];
                    sink.emit(o, &inputs);
                }
            }
        }
    }
}
