//! C03 – every stdlib function honours its declared signature.
//!
//! `o.c03.fn <fname> <hex source> <event>`: the source is ONE call of `fname` whose arguments are
//! literals or event fields `.p<i>` (runtime-typed: the compiler only knows `any`). The REAL compiler
//! gives the call's TypeDef for these argument types (`final_type_info().result`), the function's
//! documented `return_kind()` bitmask and — because `f(…)` as a root expression is only accepted for
//! infallible calls (the generator tries it first, then `f!(…)`) — the fallibility it assigned. The call is then run (in the
//! killable worker). Observations: kind, return_kind mask, bang flag, wrong-typed runtime argument
//! flag, outcome class, value. The Lean driver evaluates the Spec (`Spec.memR` on the Kind model).
use crate::kindwire::show_kind;
use crate::rng::Rng;
use crate::sink::{guarded, Reply, Sink};
use crate::sweep;
use crate::wire::*;
use vrl::value::Value;

fn kind_bit(v: &Value) -> u16 {
    match v {
        Value::Bytes(_) => 1 << 1,
        Value::Integer(_) => 1 << 2,
        Value::Float(_) => 1 << 3,
        Value::Boolean(_) => 1 << 4,
        Value::Object(_) => 1 << 5,
        Value::Array(_) => 1 << 6,
        Value::Timestamp(_) => 1 << 7,
        Value::Regex(_) => 1 << 8,
        Value::Null => 1 << 9,
    }
}

pub fn exec(op: &str, a: &[String]) -> Option<Reply> {
    match (op, a) {
        ("o.c03.fn", [fname, src, event]) => {
            let srct = String::from_utf8(unhex(src)?).ok()?;
            let ev = parse_value(event)?;
            let fns = vrl::stdlib::all();
            let f = fns.iter().find(|f| f.identifier() == fname.as_str())?;
            let c = srct.clone();
            let res = guarded(move || vrl::compiler::compile(&c, &vrl::stdlib::all()).ok()).ok()??;
            let td = res.program.final_type_info().result;
            // a runtime-typed argument `.p<i>` whose value is outside parameter i's declared kinds
            let mut wrong = false;
            if let Value::Object(m) = &ev {
                for (i, p) in f.parameters().iter().enumerate() {
                    if let Some(v) = m.get(format!("p{i}").as_str()) {
                        if srct.contains(&format!(".p{i}")) && kind_bit(v) & p.kind == 0 {
                            wrong = true;
                        }
                    }
                }
            }
            let (class, detail, _) = sweep::run_guarded(&srct, &ev);
            let value = if class == "ok" { detail.split('\t').nth(1).unwrap_or("-").to_string() } else { "-".to_string() };
            Some(Reply::oracle(vec![
                show_kind(td.kind()),
                f.return_kind().to_string(),
                // "can fail": the call itself was only accepted with `!`, or an argument contains an
                // abort-on-error call (then an error cannot be attributed to the outer function)
                u8::from(srct.contains("!(")).to_string(),
                u8::from(wrong).to_string(),
                class,
                value,
            ]))
        }
        _ => None,
    }
}

pub fn generate(sink: &mut Sink, rng: &mut Rng, n: u64) {
    // correspondence of the Lean signature model for the modelled functions (c03.sig / c03.decl / c03.run)
    crate::c03decl::generate(sink, rng, n);
    let fns = vrl::stdlib::all();
    let per_fn = (n / fns.len() as u64).max(2);
    for f in &fns {
        let name = f.identifier();
        // membership of the result in the declared type does not depend on WHICH value a nondeterministic
        // function returns
        if sweep::NETWORK.contains(&name) {
            sink.count("c03:excluded_functions");
            continue;
        }
        let mut emitted = 0;
        let mut tries = 0;
        while emitted < per_fn && tries < per_fn * 6 {
            tries += 1;
            let call = sweep::gen_call(f.as_ref(), rng);
            // `f(…)` is accepted exactly when the compiler types the call infallible (E100 otherwise);
            // `f!(…)` is accepted for fallible AND infallible calls, so the plain form is tried first
            let plain = call.src.replacen("!(", "(", 1);
            let mut chosen = None;
            for s in [plain, call.src.clone()] {
                let c = s.clone();
                if guarded(move || vrl::compiler::compile(&c, &vrl::stdlib::all()).is_ok()).unwrap_or(false) {
                    chosen = Some(s);
                    break;
                }
            }
            let Some(src) = chosen else {
                sink.count("c03:rejected_by_compiler");
                continue;
            };
            emitted += 1;
            if let Some(r) = sink.emit("o.c03.fn", &[call.fname.clone(), hex(src.as_bytes()), show_value(&call.event)]) {
                sink.count(&format!("c03:outcome:{}", r.obs.get(4).cloned().unwrap_or_default()));
                sink.count(if r.obs.get(2).map(String::as_str) == Some("1") { "c03:typed_fallible" } else { "c03:typed_infallible" });
                if r.obs.get(3).map(String::as_str) == Some("1") {
                    sink.count("c03:wrong_typed_runtime_argument");
                }
            }
        }
        sink.count(if emitted > 0 { "c03:functions_exercised" } else { "c03:functions_without_accepted_call" });
    }
}
