//! C27 – digests and checksums: correspondence ops `c27.*`.
//!
//! Every op compiles a tiny VRL program that calls the REAL stdlib function (`md5`, `sha1`, `sha2`,
//! `sha3`, `hmac`, `crc`, `xxhash`, `seahash`) and runs it on an event holding the input bytes.
//! Reply: `ok <tab> <value in wire form>` or `err` (compile-time or run-time error) or `panic`.
//! The Lean side (lean/VrlModel/Hash/*.lean) computes the same from the published algorithms.
//!
//! A variant/algorithm argument `-` means "argument absent". For the functions that take the name
//! at run time (`hmac`, `crc`, `xxhash`) the op runs two programs – name as a literal in the source
//! and name read from the event – and answers `forms-differ` if they disagree.
use crate::rng::Rng;
use crate::sink::{Reply, Sink};
use crate::vrlrun_c27::{compile_vrl, run_program};
use crate::wire::{hex, show_value, unhex};
use std::cell::RefCell;
use std::collections::{BTreeMap, HashMap};
use vrl::compiler::Program;
use vrl::value::Value;

thread_local! {
    static PROGRAMS: RefCell<HashMap<String, Result<Program, String>>> = RefCell::new(HashMap::new());
}

fn run_cached(src: &str, event: Value) -> Result<Value, String> {
    PROGRAMS.with(|cache| {
        let mut cache = cache.borrow_mut();
        let prog = cache.entry(src.to_string()).or_insert_with(|| compile_vrl(src));
        match prog {
            Ok(p) => run_program(p, event),
            Err(e) => Err(e.clone()),
        }
    })
}

fn event(fields: &[(&str, &[u8])]) -> Value {
    let mut m = BTreeMap::new();
    for (k, v) in fields {
        m.insert((*k).into(), Value::Bytes(bytes::Bytes::copy_from_slice(v)));
    }
    Value::Object(m)
}

fn show(r: &Result<Value, String>) -> String {
    match r {
        Ok(v) => format!("ok\t{}", show_value(v)),
        Err(e) if e.starts_with("panic") => "panic".to_string(),
        Err(_) => "err".to_string(),
    }
}

/// names that can be embedded in a VRL string literal without escaping
fn literal_safe(name: &str) -> bool {
    name.chars().all(|c| c.is_ascii_alphanumeric() || "_-/ .".contains(c))
}

/// `func!(<args>[, <kw>: "<name>"])` with the name as a source literal (compile-time constant).
fn call_literal(func: &str, args: &str, kw: &str, name: &str, ev: Value) -> Result<Value, String> {
    let src = if name == "-" {
        format!("{func}!({args})")
    } else {
        format!("{func}!({args}, {kw}: \"{name}\")")
    };
    run_cached(&src, ev)
}

/// the same with the name read from the event at run time (`.a`).
fn call_runtime(func: &str, args: &str, kw: &str, ev: Value) -> Result<Value, String> {
    run_cached(&format!("{func}!({args}, {kw}: .a)"), ev)
}

fn both_forms(func: &str, args: &str, kw: &str, name: &str, fields: &[(&str, &[u8])]) -> String {
    let lit = if literal_safe(name) { Some(show(&call_literal(func, args, kw, name, event(fields)))) } else { None };
    if name == "-" {
        return lit.unwrap();
    }
    let mut f2: Vec<(&str, &[u8])> = fields.to_vec();
    f2.push(("a", name.as_bytes()));
    let rt = show(&call_runtime(func, args, kw, event(&f2)));
    match lit {
        Some(l) if l != rt => format!("forms-differ\t{l}\t{rt}"),
        _ => rt,
    }
}

pub fn exec(op: &str, a: &[String]) -> Option<Reply> {
    let r = match (op, a) {
        ("c27.md5", [b]) => show(&run_cached("md5!(.b)", event(&[("b", &unhex(b)?)]))),
        ("c27.sha1", [b]) => show(&run_cached("sha1!(.b)", event(&[("b", &unhex(b)?)]))),
        ("c27.seahash", [b]) => show(&run_cached("seahash!(.b)", event(&[("b", &unhex(b)?)]))),
        ("c27.sha2", [b, v]) if literal_safe(v) => {
            show(&call_literal("sha2", ".b", "variant", v, event(&[("b", &unhex(b)?)])))
        }
        ("c27.sha3", [b, v]) if literal_safe(v) => {
            show(&call_literal("sha3", ".b", "variant", v, event(&[("b", &unhex(b)?)])))
        }
        ("c27.crc", [b, v]) => both_forms("crc", ".b", "algorithm", v, &[("b", &unhex(b)?)]),
        ("c27.xxhash", [b, v]) => both_forms("xxhash", ".b", "variant", v, &[("b", &unhex(b)?)]),
        ("c27.hmac", [b, k, v]) => {
            both_forms("hmac", ".b, .k", "algorithm", v, &[("b", &unhex(b)?), ("k", &unhex(k)?)])
        }
        _ => return None,
    };
    Some(Reply::plain(r))
}

// ------------------------------------------------------------------------------------------------

pub const SHA2: &[&str] = &["SHA-224", "SHA-256", "SHA-384", "SHA-512", "SHA-512/224", "SHA-512/256"];
pub const SHA3: &[&str] = &["SHA3-224", "SHA3-256", "SHA3-384", "SHA3-512"];
pub const HMAC: &[&str] = &["SHA1", "SHA-224", "SHA-256", "SHA-384", "SHA-512"];
pub const XXH: &[&str] = &["XXH32", "XXH64", "XXH3-64", "XXH3-128"];
/// names that no function accepts (or accepts only in another function)
const BAD: &[&str] = &["", "SHA-1", "SHA256", "SHA-512/128", "SHA3", "MD5", "CRC_32", "CRC32", "XXH3", "XXH128", "XXH3_64", " SHA-256", "none"];

/// the names in `VALID_ALGORITHMS` of src/stdlib/crc.rs, read from the source at generation time
/// (so a new name in the code that the model does not know shows up as a disagreement).
fn crc_names() -> Vec<String> {
    let src = std::fs::read_to_string("/repo/src/stdlib/crc.rs").unwrap_or_default();
    let mut out = Vec::new();
    let mut inside = false;
    for line in src.lines() {
        if line.starts_with("const VALID_ALGORITHMS") {
            inside = true;
        } else if inside {
            let t = line.trim();
            if t.starts_with("];") {
                break;
            }
            if let Some(n) = t.strip_prefix('"').and_then(|s| s.strip_suffix("\",")) {
                out.push(n.to_string());
            }
        }
    }
    out
}

/// lengths at the padding/block/stripe boundaries of all modelled algorithms
const EDGES: &[usize] = &[
    0, 1, 2, 3, 4, 5, 7, 8, 9, 11, 12, 15, 16, 17, 19, 20, 23, 24, 31, 32, 33, 47, 48, 49, 55, 56, 57, 63, 64, 65,
    71, 72, 73, 95, 96, 97, 103, 104, 105, 111, 112, 113, 119, 120, 121, 127, 128, 129, 130, 135, 136, 137, 143,
    144, 145, 159, 160, 161, 191, 192, 193, 199, 200, 201, 207, 208, 239, 240, 241, 255, 256, 257, 271, 272, 273,
    287, 288, 289,
];
const BIG_EDGES: &[usize] = &[511, 512, 513, 1023, 1024, 1025, 1087, 1088, 1089, 2047, 2048, 2049, 4095, 4096, 4097];

fn gen_len(rng: &mut Rng) -> usize {
    match rng.below(100) {
        0..=59 => *rng.pick(EDGES),
        60..=84 => rng.below(300) as usize,
        85..=93 => rng.below(1200) as usize,
        _ => *rng.pick(BIG_EDGES),
    }
}

fn gen_bytes(rng: &mut Rng, len: usize) -> Vec<u8> {
    match rng.below(20) {
        0 => vec![0u8; len],
        1 => vec![0xffu8; len],
        2 => (0..len).map(|_| b'a' + (rng.below(26) as u8)).collect(),
        3 => (0..len).map(|i| i as u8).collect(),
        _ => {
            let mut v = Vec::with_capacity(len);
            while v.len() < len {
                let w = rng.next().to_le_bytes();
                let k = (len - v.len()).min(8);
                v.extend_from_slice(&w[..k]);
            }
            v
        }
    }
}

fn mixed_case(rng: &mut Rng, s: &str) -> String {
    s.chars().map(|c| if rng.chance(1, 2) { c.to_ascii_lowercase() } else { c }).collect()
}

/// pick a variant argument: mostly a valid name, sometimes absent, a case variation, or a bad name
fn gen_name(rng: &mut Rng, valid: &[String], case_insensitive: bool, sink: &mut Sink, fam: &str) -> String {
    match rng.below(40) {
        0 | 1 => {
            sink.count(&format!("c27:{fam}:default"));
            "-".to_string()
        }
        2 => {
            sink.count(&format!("c27:{fam}:bad-name"));
            (*rng.pick(BAD)).to_string()
        }
        3 | 4 => {
            sink.count(&format!("c27:{fam}:{}", if case_insensitive { "case-variation" } else { "case-variation(bad)" }));
            let n = rng.pick(valid).clone();
            if rng.chance(1, 2) { n.to_ascii_lowercase() } else { mixed_case(rng, &n) }
        }
        _ => {
            let n = rng.pick(valid).clone();
            sink.count(&format!("c27:{fam}:variant:{n}"));
            n
        }
    }
}

fn len_bucket(n: usize) -> &'static str {
    match n {
        0 => "len:0",
        1..=16 => "len:1-16",
        17..=64 => "len:17-64",
        65..=128 => "len:65-128",
        129..=240 => "len:129-240",
        241..=1024 => "len:241-1024",
        _ => "len:>1024",
    }
}

fn owned(xs: &[&str]) -> Vec<String> {
    xs.iter().map(|s| (*s).to_string()).collect()
}

pub fn generate(sink: &mut Sink, rng: &mut Rng, n: u64) {
    let crcs = crc_names();
    assert!(crcs.len() >= 100, "could not read the CRC names from /repo/src/stdlib/crc.rs");
    let (sha2, sha3, hmacs, xxhs) = (owned(SHA2), owned(SHA3), owned(HMAC), owned(XXH));

    // 1. fixed vectors: every variant (and the default, and lower case) on "", "abc", "123456789",
    //    "foo", and one message at each of a few edge lengths.
    let mut fixed: Vec<Vec<u8>> = vec![b"".to_vec(), b"abc".to_vec(), b"123456789".to_vec(), b"foo".to_vec()];
    for l in [55usize, 56, 64, 111, 112, 128, 135, 136, 137, 240, 241] {
        fixed.push((0..l).map(|i| (i * 7 + 1) as u8).collect());
    }
    for m in &fixed {
        let h = hex(m);
        sink.emit("c27.md5", &[h.clone()]);
        sink.emit("c27.sha1", &[h.clone()]);
        sink.emit("c27.seahash", &[h.clone()]);
        for v in sha2.iter().chain(std::iter::once(&"-".to_string())) {
            sink.emit("c27.sha2", &[h.clone(), v.clone()]);
        }
        for v in sha3.iter().chain(std::iter::once(&"-".to_string())) {
            sink.emit("c27.sha3", &[h.clone(), v.clone()]);
        }
        for v in xxhs.iter().chain(std::iter::once(&"-".to_string())) {
            sink.emit("c27.xxhash", &[h.clone(), v.clone()]);
        }
        for v in hmacs.iter().chain(std::iter::once(&"-".to_string())) {
            for k in [&b""[..], b"key", &[0x0bu8; 20], &[0xaau8; 131]] {
                sink.emit("c27.hmac", &[h.clone(), hex(k), v.clone()]);
            }
        }
    }
    for m in &fixed[..4] {
        for v in crcs.iter().chain(std::iter::once(&"-".to_string())) {
            sink.emit("c27.crc", &[hex(m), v.clone()]);
            sink.emit("c27.crc", &[hex(m), v.to_ascii_lowercase()]);
        }
    }
    for bad in BAD {
        let h = hex(b"abc");
        sink.emit("c27.sha2", &[h.clone(), (*bad).to_string()]);
        sink.emit("c27.sha3", &[h.clone(), (*bad).to_string()]);
        sink.emit("c27.crc", &[h.clone(), (*bad).to_string()]);
        sink.emit("c27.xxhash", &[h.clone(), (*bad).to_string()]);
        sink.emit("c27.hmac", &[h.clone(), hex(b"k"), (*bad).to_string()]);
    }
    sink.count("c27:fixed-done");

    // 2. every CRC variant once on every edge length up to 32 (bit-serial corner cases of the
    //    narrow and the wide registers), then the random stream.
    for v in &crcs {
        for l in [1usize, 2, 3, 4, 8, 9, 16, 17] {
            let m = gen_bytes(rng, l);
            sink.emit("c27.crc", &[hex(&m), v.clone()]);
        }
    }

    for i in 0..n {
        let len = gen_len(rng);
        let m = gen_bytes(rng, len);
        let h = hex(&m);
        let fam = match i % 50 {
            0..=2 => "md5",
            3..=5 => "sha1",
            6..=14 => "sha2",
            15..=21 => "sha3",
            22..=30 => "hmac",
            31..=40 => "crc",
            41..=47 => "xxhash",
            _ => "seahash",
        };
        sink.count(&format!("c27:{fam}:{}", len_bucket(len)));
        match fam {
            "md5" => sink.emit("c27.md5", &[h]),
            "sha1" => sink.emit("c27.sha1", &[h]),
            "seahash" => sink.emit("c27.seahash", &[h]),
            "sha2" => {
                let v = gen_name(rng, &sha2, false, sink, fam);
                sink.emit("c27.sha2", &[h, v])
            }
            "sha3" => {
                let v = gen_name(rng, &sha3, false, sink, fam);
                sink.emit("c27.sha3", &[h, v])
            }
            "crc" => {
                let v = gen_name(rng, &crcs, true, sink, fam);
                sink.emit("c27.crc", &[h, v])
            }
            "xxhash" => {
                let v = gen_name(rng, &xxhs, true, sink, fam);
                sink.emit("c27.xxhash", &[h, v])
            }
            _ => {
                let v = gen_name(rng, &hmacs, true, sink, fam);
                // keys of length 0..200, with the block sizes 64/128 and their neighbours favoured
                let klen = match rng.below(10) {
                    0..=3 => *rng.pick(&[0usize, 1, 20, 32, 63, 64, 65, 127, 128, 129, 131, 200]),
                    _ => rng.below(201) as usize,
                };
                sink.count(if klen > 128 { "c27:hmac:key>128" } else if klen > 64 { "c27:hmac:key65-128" } else { "c27:hmac:key<=64" });
                let k = gen_bytes(rng, klen);
                sink.emit("c27.hmac", &[h, hex(&k), v])
            }
        };
    }
}
