//! C08 clause (c) – the default value of an infallible assignment.
//!
//! `c08.default <kind>`: `Kind::default_value()` of the real crate on a kind built from the wire text.
//! `o.c08.default <hex source> <event>`: the source is `.ok, .err = <e>` (+ nothing else); observations:
//! the kind the REAL compiler reports for `.ok` after the assignment, whether `e` failed on this
//! event (`.err` is not null), and the value `.ok` holds afterwards.
use crate::kindwire::{parse_kind, show_kind};
use crate::rng::Rng;
use crate::sink::{guarded, Reply, Sink};
use crate::vrlrun;
use crate::wire::*;
use vrl::compiler::value::kind::DefaultValue;
use vrl::compiler::TimeZone;
use vrl::owned_value_path;
use vrl::value::Value;

pub fn exec(op: &str, a: &[String]) -> Option<Reply> {
    match (op, a) {
        ("c08.default", [k]) => {
            let kind = parse_kind(k)?;
            let v = guarded(|| kind.default_value()).ok()?;
            Some(Reply::plain(show_value(&v)))
        }
        ("o.c08.default", [src, event]) => {
            let srct = String::from_utf8(unhex(src)?).ok()?;
            let ev = parse_value(event)?;
            let program = vrlrun::compile(&srct).ok()?;
            let fin = program.final_type_info();
            let kind = fin.state.external.target_kind().at_path(&owned_value_path!("ok"));
            let tz = TimeZone::Named(chrono_tz::UTC);
            let r = vrlrun::run_program(&program, ev, Value::Object(Default::default()), vec![], &tz);
            let get = |k: &str| match &r.event {
                Value::Object(m) => m.get(k).cloned().unwrap_or(Value::Null),
                _ => Value::Null,
            };
            let failed = !matches!(get("err"), Value::Null);
            Some(Reply::oracle(vec![show_kind(&kind), u8::from(failed).to_string(), show_value(&get("ok"))]))
        }
        _ => None,
    }
}

/// fallible right-hand sides of every result-kind shape (exact scalars, containers, unions, any)
const RHS: &[&str] = &[
    "to_int(.s)", "to_float(.s)", "to_bool(.s)", "to_string(.a)", "string(.a)", "int(.a)", "float(.a)", "bool(.a)",
    "array(.a)", "object(.a)", "timestamp(.a)", "parse_json(.s)", "parse_timestamp(.s, \"%s\")", "parse_regex(.s, r'(?P<x>a)')",
    "parse_regex_all(.s, r'(?P<x>a)')", "slice(.s, 1)", "slice(.a, 1)", ".a + 1", ".a * 2", ".a / 2", ".a - 1", "1 / .a",
    "upcase(.a)", "length(.a)", "split(.a, \",\")", "parse_int(.s)", "parse_float(.s)", "to_int(.a) + 0.5", "match(.a, r'a')",
    "decode_base64(.s)", "parse_url(.s)", "parse_key_value(.s)", "keys(.a)", "values(.a)", "merge(.a, {})", "push(.a, 1)",
    "parse_duration(.s, \"s\")", "format_timestamp(.a, \"%s\")", "to_unix_timestamp(.a)", "ip_aton(.s)", "get(.a, [\"x\"])",
    "abs(.a)", "round(.a)", "mod(.a, 2)", "string(.a) ?? int(.a)", "{ \"k\": string(.a) }", "[int(.a)]", "to_regex(.s)",
];

pub fn generate(sink: &mut Sink, rng: &mut Rng, n: u64) {
    // correspondence on kinds: fixed exact kinds first, then generated ones
    for k in ["K b _ _", "K i _ _", "K f _ _", "K o _ _", "K t _ _", "K r _ _", "K n _ _", "K u _ _", "K - _ _", "K bn _ _",
              "K - C { } I bifotrnAO _", "K - _ C { } I bifotrnAO", "K - C { } I bifotrnAO C { } I bifotrnAO", "K bifotrn C { } I bifotrnAO C { } I bifotrnAO"] {
        sink.emit("c08.default", &[k.to_string()]);
    }
    for _ in 0..n {
        let k = crate::c19::gen_kind(rng, 2);
        sink.emit("c08.default", &[show_kind(&k)]);
    }
    let pool_s: &[&str] = &["b:31", "b:78", "b:", "b:7b7d", "b:5b315d", "n", "i:3", "b:61"];
    let pool_a: &[&str] = &["i:1", "b:61", "d:3ff8000000000000", "t", "n", "[ i:1 ]", "{ k:78 i:1 }", "ts:0", "i:0", "b:78"];
    for rhs in RHS {
        let src = format!(".ok, .err = {rhs}");
        if vrlrun::compile(&src).is_err() {
            sink.count("c08d:rejected_by_compiler");
            continue;
        }
        for _ in 0..(2 + n / 400) {
            let event = format!("{{ k:61 {} k:73 {} }}", rng.pick(pool_a), rng.pick(pool_s));
            if let Some(r) = sink.emit("o.c08.default", &[hex(src.as_bytes()), event]) {
                sink.count(if r.obs.get(1).map(String::as_str) == Some("1") { "c08d:rhs_failed" } else { "c08d:rhs_succeeded" });
            }
        }
    }
}
