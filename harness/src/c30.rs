//! C30 – Datadog search queries round-trip through their text form.
//!   c30.parse  <hex query text>  → `ok <tab> tree` | err | panic     (real `str::parse::<QueryNode>()`)
//!   c30.lucene <tree>            → hex of `QueryNode::to_lucene()`
//!   o.c30      <hex query text>  | observations: parse q, to_lucene, parse (to_lucene (parse q))
//!
//! Wire format of query trees (mirrored by lean/VrlModel/Search/Wire.lean); tokens separated by
//! single spaces, strings as hex of their UTF-8 bytes:
//!   tree := all | none | ex:<attr> | mi:<attr> | tm:<attr>:<value> | qt:<attr>:<phrase>
//!         | pf:<attr>:<prefix> | wc:<attr>:<wildcard> | cmp:<attr>:<gt|lt|gte|lte>:<cv>
//!         | rg:<attr>:<cv>:<0|1>:<cv>:<0|1> | ( not tree ) | ( and tree* ) | ( or tree* )
//!   cv   := u | s<hex> | i<dec> | f<16 hex digits of the bit pattern; every NaN as 7ff8000000000000>
use crate::rng::Rng;
use crate::sink::{guarded, Reply, Sink};
use crate::wire::{hex, unhex};
use vrl::datadog_search_syntax::{BooleanType, Comparison, ComparisonValue, QueryNode};

pub fn hs(s: &str) -> String {
    hex(s.as_bytes())
}
pub fn uhs(s: &str) -> Option<String> {
    String::from_utf8(unhex(s)?).ok()
}

fn show_cv(v: &ComparisonValue) -> String {
    match v {
        ComparisonValue::Unbounded => "u".into(),
        ComparisonValue::String(s) => format!("s{}", hs(s)),
        ComparisonValue::Integer(i) => format!("i{i}"),
        ComparisonValue::Float(f) => {
            let bits = if f.is_nan() { 0x7ff8_0000_0000_0000u64 } else { f.to_bits() };
            format!("f{bits:016x}")
        }
    }
}

fn parse_cv(s: &str) -> Option<ComparisonValue> {
    if s == "u" {
        Some(ComparisonValue::Unbounded)
    } else if let Some(h) = s.strip_prefix('s') {
        Some(ComparisonValue::String(uhs(h)?))
    } else if let Some(d) = s.strip_prefix('i') {
        Some(ComparisonValue::Integer(d.parse().ok()?))
    } else if let Some(h) = s.strip_prefix('f') {
        Some(ComparisonValue::Float(f64::from_bits(u64::from_str_radix(h, 16).ok()?)))
    } else {
        None
    }
}

fn cmp_name(c: &Comparison) -> &'static str {
    match c {
        Comparison::Gt => "gt",
        Comparison::Lt => "lt",
        Comparison::Gte => "gte",
        Comparison::Lte => "lte",
    }
}

fn b01(b: bool) -> &'static str {
    if b { "1" } else { "0" }
}

pub fn show_tree(n: &QueryNode) -> String {
    let mut s = String::new();
    write_tree(n, &mut s);
    s
}

fn write_tree(n: &QueryNode, s: &mut String) {
    match n {
        QueryNode::MatchAllDocs => s.push_str("all"),
        QueryNode::MatchNoDocs => s.push_str("none"),
        QueryNode::AttributeExists { attr } => s.push_str(&format!("ex:{}", hs(attr))),
        QueryNode::AttributeMissing { attr } => s.push_str(&format!("mi:{}", hs(attr))),
        QueryNode::AttributeRange { attr, lower, lower_inclusive, upper, upper_inclusive } => s.push_str(&format!(
            "rg:{}:{}:{}:{}:{}",
            hs(attr),
            show_cv(lower),
            b01(*lower_inclusive),
            show_cv(upper),
            b01(*upper_inclusive)
        )),
        QueryNode::AttributeComparison { attr, comparator, value } => {
            s.push_str(&format!("cmp:{}:{}:{}", hs(attr), cmp_name(comparator), show_cv(value)))
        }
        QueryNode::AttributeTerm { attr, value } => s.push_str(&format!("tm:{}:{}", hs(attr), hs(value))),
        QueryNode::QuotedAttribute { attr, phrase } => s.push_str(&format!("qt:{}:{}", hs(attr), hs(phrase))),
        QueryNode::AttributePrefix { attr, prefix } => s.push_str(&format!("pf:{}:{}", hs(attr), hs(prefix))),
        QueryNode::AttributeWildcard { attr, wildcard } => s.push_str(&format!("wc:{}:{}", hs(attr), hs(wildcard))),
        QueryNode::NegatedNode { node } => {
            s.push_str("( not ");
            write_tree(node, s);
            s.push_str(" )");
        }
        QueryNode::Boolean { oper, nodes } => {
            s.push_str(match oper {
                BooleanType::And => "( and",
                BooleanType::Or => "( or",
            });
            for x in nodes {
                s.push(' ');
                write_tree(x, s);
            }
            s.push_str(" )");
        }
    }
}

pub fn parse_tree(s: &str) -> Option<QueryNode> {
    let toks: Vec<&str> = s.split(' ').filter(|t| !t.is_empty()).collect();
    let mut pos = 0;
    let t = parse_t(&toks, &mut pos)?;
    if pos == toks.len() { Some(t) } else { None }
}

fn parse_t(toks: &[&str], pos: &mut usize) -> Option<QueryNode> {
    let t = *toks.get(*pos)?;
    *pos += 1;
    if t == "(" {
        let kind = *toks.get(*pos)?;
        *pos += 1;
        let mut nodes = Vec::new();
        while *toks.get(*pos)? != ")" {
            nodes.push(parse_t(toks, pos)?);
        }
        *pos += 1;
        return match kind {
            "not" if nodes.len() == 1 => Some(QueryNode::NegatedNode { node: Box::new(nodes.pop()?) }),
            "and" => Some(QueryNode::Boolean { oper: BooleanType::And, nodes }),
            "or" => Some(QueryNode::Boolean { oper: BooleanType::Or, nodes }),
            _ => None,
        };
    }
    let f: Vec<&str> = t.split(':').collect();
    Some(match (f[0], f.len()) {
        ("all", 1) => QueryNode::MatchAllDocs,
        ("none", 1) => QueryNode::MatchNoDocs,
        ("ex", 2) => QueryNode::AttributeExists { attr: uhs(f[1])? },
        ("mi", 2) => QueryNode::AttributeMissing { attr: uhs(f[1])? },
        ("tm", 3) => QueryNode::AttributeTerm { attr: uhs(f[1])?, value: uhs(f[2])? },
        ("qt", 3) => QueryNode::QuotedAttribute { attr: uhs(f[1])?, phrase: uhs(f[2])? },
        ("pf", 3) => QueryNode::AttributePrefix { attr: uhs(f[1])?, prefix: uhs(f[2])? },
        ("wc", 3) => QueryNode::AttributeWildcard { attr: uhs(f[1])?, wildcard: uhs(f[2])? },
        ("cmp", 4) => QueryNode::AttributeComparison {
            attr: uhs(f[1])?,
            comparator: match f[2] {
                "gt" => Comparison::Gt,
                "lt" => Comparison::Lt,
                "gte" => Comparison::Gte,
                "lte" => Comparison::Lte,
                _ => return None,
            },
            value: parse_cv(f[3])?,
        },
        ("rg", 6) => QueryNode::AttributeRange {
            attr: uhs(f[1])?,
            lower: parse_cv(f[2])?,
            lower_inclusive: f[3] == "1",
            upper: parse_cv(f[4])?,
            upper_inclusive: f[5] == "1",
        },
        _ => return None,
    })
}

/// the real parser; `Err("err")` = rejected, `Err("panic")` = the parser/visitor panicked.
pub fn real_parse(q: &str) -> Result<QueryNode, &'static str> {
    let q = q.to_string();
    match guarded(move || q.parse::<QueryNode>()) {
        Ok(Ok(n)) => Ok(n),
        Ok(Err(_)) => Err("err"),
        Err(_) => Err("panic"),
    }
}

pub fn show_parse(r: &Result<QueryNode, &'static str>) -> String {
    match r {
        Ok(n) => format!("ok\t{}", show_tree(n)),
        Err(e) => (*e).to_string(),
    }
}

pub fn exec(op: &str, a: &[String]) -> Option<Reply> {
    match (op, a) {
        ("c30.parse", [q]) => {
            let q = uhs(q)?;
            Some(Reply::plain(show_parse(&real_parse(&q))))
        }
        ("c30.lucene", [t]) => {
            let t = parse_tree(t)?;
            Some(Reply::plain(hs(&t.to_lucene())))
        }
        ("o.c30", [q]) => {
            let q = uhs(q)?;
            let p1 = real_parse(&q);
            let (l, p2) = match &p1 {
                Ok(n) => {
                    let l = n.to_lucene();
                    let p2 = real_parse(&l);
                    (hs(&l), show_parse(&p2).replace('\t', " "))
                }
                Err(_) => ("-".to_string(), "-".to_string()),
            };
            Some(Reply::oracle(vec![show_parse(&p1).replace('\t', " "), l, p2]))
        }
        _ => None,
    }
}

pub fn generate(sink: &mut Sink, rng: &mut Rng, n: u64) {
    let _ = (sink, rng, n);
}
