//! C30 – Datadog search queries round-trip through their text form.
//!   c30.parse  <hex query text>  → `ok <tab> tree` | err | panic     (real `str::parse::<QueryNode>()`)
//!   c30.lucene <tree>            → hex of `QueryNode::to_lucene()`
//!   o.c30      <hex query text>  | observations: parse q, to_lucene, parse (to_lucene (parse q))
//!
//! Wire format of query trees (mirrored by lean/VrlModel/Search/Wire.lean); tokens separated by
//! single spaces, strings as hex of their UTF-8 bytes:
//!   tree := all | none | ex:<attr> | mi:<attr> | tm:<attr>:<value> | qt:<attr>:<phrase>
//!         | pf:<attr>:<prefix> | wc:<attr>:<wildcard> | cmp:<attr>:<gt|lt|gte|lte>:<cv>
//!         | rg:<attr>:<cv>:<0|1>:<cv>:<0|1> | ( not tree ) | ( and tree* ) | ( or tree* )
//!   cv   := u | s<hex> | i<dec> | f<16 hex digits of the bit pattern; every NaN as 7ff8000000000000>
use crate::rng::Rng;
use crate::sink::{guarded, Reply, Sink};
use crate::wire::{hex, unhex};
use vrl::datadog_search_syntax::{BooleanType, Comparison, ComparisonValue, QueryNode};

pub fn hs(s: &str) -> String {
    hex(s.as_bytes())
}
pub fn uhs(s: &str) -> Option<String> {
    String::from_utf8(unhex(s)?).ok()
}

fn show_cv(v: &ComparisonValue) -> String {
    match v {
        ComparisonValue::Unbounded => "u".into(),
        ComparisonValue::String(s) => format!("s{}", hs(s)),
        ComparisonValue::Integer(i) => format!("i{i}"),
        ComparisonValue::Float(f) => {
            let bits = if f.is_nan() { 0x7ff8_0000_0000_0000u64 } else { f.to_bits() };
            format!("f{bits:016x}")
        }
    }
}

fn parse_cv(s: &str) -> Option<ComparisonValue> {
    if s == "u" {
        Some(ComparisonValue::Unbounded)
    } else if let Some(h) = s.strip_prefix('s') {
        Some(ComparisonValue::String(uhs(h)?))
    } else if let Some(d) = s.strip_prefix('i') {
        Some(ComparisonValue::Integer(d.parse().ok()?))
    } else if let Some(h) = s.strip_prefix('f') {
        Some(ComparisonValue::Float(f64::from_bits(u64::from_str_radix(h, 16).ok()?)))
    } else {
        None
    }
}

fn cmp_name(c: &Comparison) -> &'static str {
    match c {
        Comparison::Gt => "gt",
        Comparison::Lt => "lt",
        Comparison::Gte => "gte",
        Comparison::Lte => "lte",
    }
}

fn b01(b: bool) -> &'static str {
    if b { "1" } else { "0" }
}

pub fn show_tree(n: &QueryNode) -> String {
    let mut s = String::new();
    write_tree(n, &mut s);
    s
}

fn write_tree(n: &QueryNode, s: &mut String) {
    match n {
        QueryNode::MatchAllDocs => s.push_str("all"),
        QueryNode::MatchNoDocs => s.push_str("none"),
        QueryNode::AttributeExists { attr } => s.push_str(&format!("ex:{}", hs(attr))),
        QueryNode::AttributeMissing { attr } => s.push_str(&format!("mi:{}", hs(attr))),
        QueryNode::AttributeRange { attr, lower, lower_inclusive, upper, upper_inclusive } => s.push_str(&format!(
            "rg:{}:{}:{}:{}:{}",
            hs(attr),
            show_cv(lower),
            b01(*lower_inclusive),
            show_cv(upper),
            b01(*upper_inclusive)
        )),
        QueryNode::AttributeComparison { attr, comparator, value } => {
            s.push_str(&format!("cmp:{}:{}:{}", hs(attr), cmp_name(comparator), show_cv(value)))
        }
        QueryNode::AttributeTerm { attr, value } => s.push_str(&format!("tm:{}:{}", hs(attr), hs(value))),
        QueryNode::QuotedAttribute { attr, phrase } => s.push_str(&format!("qt:{}:{}", hs(attr), hs(phrase))),
        QueryNode::AttributePrefix { attr, prefix } => s.push_str(&format!("pf:{}:{}", hs(attr), hs(prefix))),
        QueryNode::AttributeWildcard { attr, wildcard } => s.push_str(&format!("wc:{}:{}", hs(attr), hs(wildcard))),
        QueryNode::NegatedNode { node } => {
            s.push_str("( not ");
            write_tree(node, s);
            s.push_str(" )");
        }
        QueryNode::Boolean { oper, nodes } => {
            s.push_str(match oper {
                BooleanType::And => "( and",
                BooleanType::Or => "( or",
            });
            for x in nodes {
                s.push(' ');
                write_tree(x, s);
            }
            s.push_str(" )");
        }
    }
}

pub fn parse_tree(s: &str) -> Option<QueryNode> {
    let toks: Vec<&str> = s.split(' ').filter(|t| !t.is_empty()).collect();
    let mut pos = 0;
    let t = parse_t(&toks, &mut pos)?;
    if pos == toks.len() { Some(t) } else { None }
}

fn parse_t(toks: &[&str], pos: &mut usize) -> Option<QueryNode> {
    let t = *toks.get(*pos)?;
    *pos += 1;
    if t == "(" {
        let kind = *toks.get(*pos)?;
        *pos += 1;
        let mut nodes = Vec::new();
        while *toks.get(*pos)? != ")" {
            nodes.push(parse_t(toks, pos)?);
        }
        *pos += 1;
        return match kind {
            "not" if nodes.len() == 1 => Some(QueryNode::NegatedNode { node: Box::new(nodes.pop()?) }),
            "and" => Some(QueryNode::Boolean { oper: BooleanType::And, nodes }),
            "or" => Some(QueryNode::Boolean { oper: BooleanType::Or, nodes }),
            _ => None,
        };
    }
    let f: Vec<&str> = t.split(':').collect();
    Some(match (f[0], f.len()) {
        ("all", 1) => QueryNode::MatchAllDocs,
        ("none", 1) => QueryNode::MatchNoDocs,
        ("ex", 2) => QueryNode::AttributeExists { attr: uhs(f[1])? },
        ("mi", 2) => QueryNode::AttributeMissing { attr: uhs(f[1])? },
        ("tm", 3) => QueryNode::AttributeTerm { attr: uhs(f[1])?, value: uhs(f[2])? },
        ("qt", 3) => QueryNode::QuotedAttribute { attr: uhs(f[1])?, phrase: uhs(f[2])? },
        ("pf", 3) => QueryNode::AttributePrefix { attr: uhs(f[1])?, prefix: uhs(f[2])? },
        ("wc", 3) => QueryNode::AttributeWildcard { attr: uhs(f[1])?, wildcard: uhs(f[2])? },
        ("cmp", 4) => QueryNode::AttributeComparison {
            attr: uhs(f[1])?,
            comparator: match f[2] {
                "gt" => Comparison::Gt,
                "lt" => Comparison::Lt,
                "gte" => Comparison::Gte,
                "lte" => Comparison::Lte,
                _ => return None,
            },
            value: parse_cv(f[3])?,
        },
        ("rg", 6) => QueryNode::AttributeRange {
            attr: uhs(f[1])?,
            lower: parse_cv(f[2])?,
            lower_inclusive: f[3] == "1",
            upper: parse_cv(f[4])?,
            upper_inclusive: f[5] == "1",
        },
        _ => return None,
    })
}

/// the real parser; `Err("err")` = rejected, `Err("panic")` = the parser/visitor panicked.
pub fn real_parse(q: &str) -> Result<QueryNode, &'static str> {
    let q = q.to_string();
    match guarded(move || q.parse::<QueryNode>()) {
        Ok(Ok(n)) => Ok(n),
        Ok(Err(_)) => Err("err"),
        Err(_) => Err("panic"),
    }
}

pub fn show_parse(r: &Result<QueryNode, &'static str>) -> String {
    match r {
        Ok(n) => format!("ok\t{}", show_tree(n)),
        Err(e) => (*e).to_string(),
    }
}

pub fn exec(op: &str, a: &[String]) -> Option<Reply> {
    match (op, a) {
        ("c30.parse", [q]) => {
            let q = uhs(q)?;
            Some(Reply::plain(show_parse(&real_parse(&q))))
        }
        ("c30.lucene", [t]) => {
            let t = parse_tree(t)?;
            Some(Reply::plain(hs(&t.to_lucene())))
        }
        ("c30.f64", [t]) => {
            let t = uhs(t)?;
            Some(Reply::plain(match t.parse::<f64>() {
                Err(_) => "err".to_string(),
                Ok(f) => {
                    let bits = if f.is_nan() { 0x7ff8_0000_0000_0000u64 } else { f.to_bits() };
                    let f = f64::from_bits(bits);
                    format!("{bits:016x}\t{}", hs(&format!("{f}")))
                }
            }))
        }
        ("o.c30.tree", [t]) => {
            let t = parse_tree(t)?;
            let l = t.to_lucene();
            let p2 = real_parse(&l);
            Some(Reply::oracle(vec![hs(&l), show_parse(&p2).replace('\t', " ")]))
        }
        ("o.c30", [q]) => {
            let q = uhs(q)?;
            let p1 = real_parse(&q);
            let (l, p2) = match &p1 {
                Ok(n) => {
                    let l = n.to_lucene();
                    let p2 = real_parse(&l);
                    (hs(&l), show_parse(&p2).replace('\t', " "))
                }
                Err(_) => ("-".to_string(), "-".to_string()),
            };
            Some(Reply::oracle(vec![show_parse(&p1).replace('\t', " "), l, p2]))
        }
        _ => None,
    }
}


// ---------------------------------------------------------------------------------------------
// generators

const WORDS: &[&str] = &[
    "a", "b", "foo", "bar", "x1", "42", "é", "漢字", "a.b", "a_b", "a,b", "a/b", "a-b", "a+b", "a=b", "err", "ANDROID",
    "ORx", "NOTE", "&&x", "||y", "TO", "E5", "1e", "inf", "nan", "UNICODE3000", "xUNICODE3000", "\u{3000}a", "a\u{a0}b",
    "😀", "a|b", "a&b", "q;r", "%", "$v", "#t", "a'b", "_default_", "0x10",
];
const ESCAPED: &[&str] = &[
    "\\ ", "\\:", "\\-", "\\+", "\\=", "\\(", "\\)", "\\[", "\\]", "\\{", "\\}", "\\\"", "\\*", "\\?", "\\\\", "\\/",
    "\\a", "\\é", "\\!", "\\~", "\\^", "\\<", "\\>", "\\A", "\\U", "\\&", "\\\t", "\\\u{3000}", "\\\u{a0}",
];
const FIELDS: &[&str] = &[
    "f", "g", "host", "service", "@a", "@a.b", "@http.status_code", "tags", "_exists_", "_missing_", "_default_", "é", "k-1",
    "a\\ b", "a\\:b", "\\_exists_", "\\_missing_", "\\_default_", "f.g", "@x\\-y", "F1", "ORf", "NOTf", "a/b", "\\@a",
];
const NUMS: &[&str] = &[
    "0", "1", "-1", "5", "42", "-42", "1.5", "-2.25", "0.1", "1.0", "-0.0", "-0", "007", "1E3", "1.5E2", "1.5E-2",
    "\\-1", "\\-1.5E\\-2", "9223372036854775807", "9223372036854775808", "-9223372036854775808", "-9223372036854775809",
    "123456789012345678901234567890", "0.000001", "1e3", "1e-7", "2.5e-3", "1E400", "1.", ".5", "+5", "3.14159", "100",
    "1E2.5", "00.10", "1e21", "5e-324", "1.7976931348623157e308", "0.30000000000000004", "123456.789",
];

fn gen_word(rng: &mut Rng) -> String {
    let mut s = String::new();
    let n = 1 + rng.below(3);
    for _ in 0..n {
        match rng.below(10) {
            0..=5 => s.push_str(*rng.pick(WORDS)),
            6 | 7 => s.push_str(*rng.pick(ESCAPED)),
            8 => s.push_str(*rng.pick(NUMS)),
            _ => s.push(*rng.pick(&['a', 'b', 'z', '0', '9', '_', '.', 'é'])),
        }
    }
    s
}

fn gen_term(rng: &mut Rng) -> String {
    match rng.below(12) {
        0..=6 => gen_word(rng),
        7 => rng.pick(WORDS).to_string(),
        8 => rng.pick(NUMS).to_string(),
        9 => format!("{}{}", rng.pick(ESCAPED), gen_word(rng)),
        10 => format!("{}{}{}", gen_word(rng), rng.pick(&["-", "+", "="]), gen_word(rng)),
        _ => format!("{}{}", gen_word(rng), rng.pick(ESCAPED)),
    }
}

fn gen_glob(rng: &mut Rng) -> String {
    let mut s = String::new();
    let n = 1 + rng.below(4);
    for _ in 0..n {
        match rng.below(5) {
            0 => s.push('*'),
            1 => s.push('?'),
            _ => s.push_str(&gen_word(rng)),
        }
    }
    s
}

fn gen_phrase(rng: &mut Rng) -> String {
    let mut s = String::from("\"");
    let n = rng.below(4);
    for i in 0..n {
        if i > 0 {
            s.push(' ');
        }
        match rng.below(8) {
            0 => s.push_str("\\\""),
            1 => s.push_str("\\\\"),
            2 => s.push_str(*rng.pick(&["(", ")", ":", "*", "AND", "-", "[", "]", "\t", "\\n", "\n"])),
            _ => s.push_str(&gen_word(rng)),
        }
    }
    s.push('"');
    s
}

fn gen_range_value(rng: &mut Rng) -> String {
    match rng.below(12) {
        0 | 1 => "*".to_string(),
        2..=5 => rng.pick(NUMS).to_string(),
        6 => format!("\"{}\"", gen_word(rng)),
        7 => format!("\"{}\"", rng.pick(NUMS)),
        8 => rng.pick(&["inf", "-inf", "NaN", "nan", "infinity", "TO", "\"", "\"\"", "\"a", "a\"", "*a", "\\*"]).to_string(),
        _ => gen_term(rng),
    }
}

fn gen_range(rng: &mut Rng) -> String {
    let mixed = rng.chance(1, 6);
    let sq = rng.chance(2, 3);
    let (l, r) = if mixed { if sq { ("[", "}") } else { ("{", "]") } } else if sq { ("[", "]") } else { ("{", "}") };
    let sp = |rng: &mut Rng| if rng.chance(1, 8) { rng.pick(&["", "  ", "\t"]).to_string() } else { " ".to_string() };
    let pad = |rng: &mut Rng| if rng.chance(1, 8) { " " } else { "" };
    format!(
        "{l}{}{}{}TO{}{}{}{r}",
        pad(rng),
        gen_range_value(rng),
        sp(rng),
        sp(rng),
        gen_range_value(rng),
        pad(rng)
    )
}

fn gen_value(rng: &mut Rng) -> String {
    match rng.below(20) {
        0..=6 => gen_term(rng),
        7 | 8 => gen_phrase(rng),
        9 | 10 => format!("{}*", gen_term(rng)),
        11 | 12 => gen_glob(rng),
        13 | 14 => gen_range(rng),
        15 | 16 => {
            let op = rng.pick(&[">", ">=", "<", "<="]);
            let v = if rng.chance(1, 2) { rng.pick(NUMS).to_string() } else { gen_term(rng) };
            format!("{op}{v}")
        }
        17 => "*".to_string(),
        18 => rng.pick(NUMS).to_string(),
        _ => rng.pick(&["AND", "OR", "NOT", "&&", "||", "-", "+", "a b", "\"", "a\"b"]).to_string(),
    }
}

fn gen_clause(rng: &mut Rng, depth: u32) -> String {
    let field = if rng.chance(1, 2) { format!("{}:{}", rng.pick(FIELDS), if rng.chance(1, 20) { " " } else { "" }) } else { String::new() };
    match rng.below(12) {
        0 if depth > 0 => format!("{field}({})", gen_query(rng, depth - 1)),
        1 if depth > 0 => format!("({})", gen_query(rng, depth - 1)),
        2 => rng.pick(&["*:*", "*", "-*:*", "_exists_:a", "_missing_:\"a b\"", "_exists_:a*"]).to_string(),
        _ => format!("{field}{}", gen_value(rng)),
    }
}

pub fn gen_query(rng: &mut Rng, depth: u32) -> String {
    let n = match rng.below(8) {
        0..=2 => 1,
        3..=5 => 2,
        6 => 3,
        _ => 4,
    };
    let mut s = String::new();
    if rng.chance(1, 30) {
        s.push_str(*rng.pick(&[" ", "\t", "  "]));
    }
    for i in 0..n {
        if i > 0 {
            s.push_str(*rng.pick(&[" ", " ", " AND ", " AND ", " OR ", " OR ", " && ", " || ", "  ", " AND  ", "\tOR\t"]));
        }
        match rng.below(10) {
            0 => s.push('-'),
            1 => s.push_str("NOT "),
            2 => s.push_str(*rng.pick(&["+", "NOT", "- ", "NOT  "])),
            _ => {}
        }
        s.push_str(&gen_clause(rng, depth));
    }
    if rng.chance(1, 30) {
        s.push_str(*rng.pick(&[" ", "\n", "  "]));
    }
    s
}

const MUT_CHARS: &[char] = &[
    ' ', '\t', '"', '(', ')', '[', ']', '{', '}', '+', '-', '!', ':', '~', '^', '?', '*', '\\', '>', '=', '<', '/', 'a', 'A', 'N',
    'D', 'O', 'R', 'T', '0', '.', 'E', 'é', '&', '|', '_',
];

pub fn mutate(rng: &mut Rng, q: &str) -> String {
    let mut cs: Vec<char> = q.chars().collect();
    let k = 1 + rng.below(2);
    for _ in 0..k {
        let pos = rng.below(cs.len() as u64 + 1) as usize;
        match rng.below(3) {
            0 if pos < cs.len() => {
                cs.remove(pos);
            }
            1 if pos < cs.len() => cs[pos] = *rng.pick(MUT_CHARS),
            _ => cs.insert(pos, *rng.pick(MUT_CHARS)),
        }
    }
    cs.into_iter().collect()
}

fn gen_cv(rng: &mut Rng) -> ComparisonValue {
    match rng.below(6) {
        0 => ComparisonValue::Unbounded,
        1 => ComparisonValue::Integer(*rng.pick(&[0, 1, -1, 42, i64::MAX, i64::MIN, 1000])),
        2 => ComparisonValue::Float(*rng.pick(&[
            0.0, -0.0, 1.5, -2.25, 0.1, 1e21, 1e-7, 5e-324, f64::MAX, f64::INFINITY, f64::NEG_INFINITY, f64::NAN, 1000.0,
            0.30000000000000004, 123456.789, 9.223372036854776e18,
        ])),
        3 => ComparisonValue::Float(f64::from_bits(rng.next())),
        _ => ComparisonValue::String(gen_str(rng)),
    }
}

fn gen_str(rng: &mut Rng) -> String {
    match rng.below(8) {
        0 => String::new(),
        1 => rng.pick(&["a b", "a:b", "*", "a*", "\"q\"", "a\\b", "5", "-5", "1.5", "AND", "NOTx", "a]", "a}b", " a", "\"", "a\nb"])
            .to_string(),
        _ => unescape_word(&gen_word(rng)),
    }
}

fn unescape_word(s: &str) -> String {
    s.replace('\\', "")
}

/// trees built directly (also shapes the parser never produces)
pub fn gen_tree(rng: &mut Rng, depth: u32) -> QueryNode {
    let attr = |rng: &mut Rng| -> String {
        if rng.chance(1, 3) { "_default_".to_string() } else { unescape_word(*rng.pick(FIELDS)) }
    };
    if depth > 0 && rng.chance(2, 5) {
        return match rng.below(3) {
            0 => QueryNode::NegatedNode { node: Box::new(gen_tree(rng, depth - 1)) },
            k => {
                let n = rng.below(4);
                QueryNode::Boolean {
                    oper: if k == 1 { BooleanType::And } else { BooleanType::Or },
                    nodes: (0..n).map(|_| gen_tree(rng, depth - 1)).collect(),
                }
            }
        };
    }
    match rng.below(11) {
        0 => QueryNode::MatchAllDocs,
        1 => QueryNode::MatchNoDocs,
        2 => QueryNode::AttributeExists { attr: attr(rng) },
        3 => QueryNode::AttributeMissing { attr: attr(rng) },
        4 => QueryNode::AttributeRange {
            attr: attr(rng),
            lower: gen_cv(rng),
            lower_inclusive: rng.chance(1, 2),
            upper: gen_cv(rng),
            upper_inclusive: rng.chance(1, 2),
        },
        5 => QueryNode::AttributeComparison {
            attr: attr(rng),
            comparator: *rng.pick(&[Comparison::Gt, Comparison::Lt, Comparison::Gte, Comparison::Lte]),
            value: gen_cv(rng),
        },
        6 | 7 => QueryNode::AttributeTerm { attr: attr(rng), value: gen_str(rng) },
        8 => QueryNode::QuotedAttribute { attr: attr(rng), phrase: gen_str(rng) },
        9 => QueryNode::AttributePrefix { attr: attr(rng), prefix: gen_str(rng) },
        _ => QueryNode::AttributeWildcard { attr: attr(rng), wildcard: gen_glob(rng).replace('\\', "") },
    }
}

const SAFE_WORDS: &[&str] = &[
    "a", "b", "foo", "bar", "x1", "é", "漢字", "a.b", "a_b", "a,b", "a/b", "a-b", "a+b", "a=b", "a:b", "(x)", "q\"r", "a\\b", "x*y",
    "TO", "E5", "😀", "a|b", "q;r", "%", "$v", "#t", "a'b", "5x", "~t", "^u", "!v", "<w", ">z", "[k]", "{m}", "AN", "NO", "O", "&", "|",
    "dAND", "xNOT", "5", "-5", "1.5",
];
const SAFE_ATTRS: &[&str] = &[
    "_default_", "_default_", "f", "g", "host", "@a", "@a.b", "@http.status_code", "tags", "é", "k-1", "f.g", "F1", "a/b", "a=b", "x+y",
    "_exists_", "_missing_", "dOR",
];

/// trees biased towards the normal form (most of them satisfy `NF`)
pub fn gen_nf_tree(rng: &mut Rng, depth: u32) -> QueryNode {
    if depth > 0 && rng.chance(1, 2) {
        return match rng.below(3) {
            0 => QueryNode::NegatedNode { node: Box::new(gen_nf_tree(rng, depth - 1)) },
            k => {
                let n = 2 + rng.below(3);
                QueryNode::Boolean {
                    oper: if k == 1 { BooleanType::And } else { BooleanType::Or },
                    nodes: (0..n).map(|_| gen_nf_tree(rng, depth - 1)).collect(),
                }
            }
        };
    }
    let attr = rng.pick(SAFE_ATTRS).to_string();
    let word = |rng: &mut Rng| -> String {
        let n = 1 + rng.below(2);
        (0..n).map(|_| *rng.pick(SAFE_WORDS)).collect::<Vec<_>>().join("")
    };
    let cv = |rng: &mut Rng, range: bool| -> ComparisonValue {
        match rng.below(6) {
            0 if range => ComparisonValue::Unbounded,
            1 => ComparisonValue::Integer(*rng.pick(&[0, 1, -1, 42, i64::MAX, i64::MIN, 1000])),
            2 => ComparisonValue::Float(*rng.pick(&[1.5, -2.25, 0.1, 1e-7, 5e-324, 0.30000000000000004, 123456.789, 1e21, 9.223372036854776e18])),
            3 if range => ComparisonValue::Float(*rng.pick(&[f64::INFINITY, f64::NEG_INFINITY, f64::NAN])),
            _ => ComparisonValue::String(word(rng)),
        }
    };
    match rng.below(12) {
        0 => QueryNode::MatchAllDocs,
        1 => QueryNode::AttributeExists { attr },
        2 => QueryNode::AttributeMissing { attr },
        3 => {
            let incl = rng.chance(1, 2);
            QueryNode::AttributeRange { attr, lower: cv(rng, true), lower_inclusive: incl, upper: cv(rng, true), upper_inclusive: incl }
        }
        4 => QueryNode::AttributeComparison {
            attr,
            comparator: *rng.pick(&[Comparison::Gt, Comparison::Lt, Comparison::Gte, Comparison::Lte]),
            value: cv(rng, false),
        },
        5 | 6 | 7 => QueryNode::AttributeTerm { attr, value: word(rng) },
        8 => QueryNode::QuotedAttribute { attr, phrase: gen_str(rng) },
        9 => QueryNode::AttributePrefix { attr, prefix: word(rng) },
        _ => QueryNode::AttributeWildcard {
            attr,
            wildcard: rng.pick(&["a*b", "*a", "?a", "a?", "*", "a*b*", "**", "a*?", "é*x", "a-b*c", "?", "*=*", "a?b", "x*y?z"]).to_string(),
        },
    }
}

fn gen_decimal(rng: &mut Rng) -> String {
    match rng.below(10) {
        0 => rng.pick(NUMS).replace('\\', ""),
        1 => rng.pick(&["inf", "-inf", "NaN", "nan", "+inf", "infinity", "-Infinity", "INF", "", "-", "+", ".", "e5", "1e", "1e+", "1_0", "0x1", "١"])
            .to_string(),
        2 => format!("{}", f64::from_bits(rng.next())),
        3 => format!("{:e}", f64::from_bits(rng.next())),
        4 => format!("{}", rng.next() as i64),
        5 => format!("{}.{}", rng.below(1000), rng.below(100000)),
        6 => format!("{}{}e{}", if rng.chance(1, 2) { "-" } else { "" }, rng.below(100000), rng.range(-330, 310)),
        7 => format!("{}.{}E{}", rng.below(10), rng.next() % 100000000000000000, rng.range(-30, 30)),
        8 => format!("0.{}{}", "0".repeat(rng.below(20) as usize), rng.below(1000)),
        _ => format!("{}", (rng.range(-100000, 100000) as f64) / (*rng.pick(&[2.0, 8.0, 10.0, 100.0, 3.0]))),
    }
}

pub fn generate(sink: &mut Sink, rng: &mut Rng, n: u64) {
    // fixed edge cases first
    for q in [
        "", " ", "\u{a0}", "\u{3000}", "a", "a b", "a b c:d", "f:a\\ b", "_missing_:\"a b\"", "a\\ b*", "f:[1 TO 2}", "f:{a TO *]",
        "f:>1.0", "NOT NOT a", "-(-a) b", "a (-*:*)", "-(-*:*)", "_default_:a?b", "\\ANDROID", "a\\UNICODE3000", "\\_exists_:a",
        "f:[nan TO inf]", "f:>\\5x", "f:[\"5\" TO a\\]]", "((((((((a))))))))", "((((((", "a:(b:(c:(d e)))", "f:(a b)", "NOT (a b)",
    ] {
        emit_query(sink, q);
    }
    for i in 0..n {
        let q = gen_query(rng, 2);
        emit_query(sink, &q);
        if i % 3 == 0 {
            let m = mutate(rng, &q);
            sink.count("c30:mutated");
            emit_query(sink, &m);
        }
        if i % 4 == 0 {
            let t = gen_tree(rng, 2);
            sink.emit("c30.lucene", &[show_tree(&t)]);
            sink.count("c30:direct_tree");
        }
        if i % 4 == 1 {
            sink.emit("c30.f64", &[hs(&gen_decimal(rng))]);
        }
        if i % 2 == 0 {
            let t = if rng.chance(3, 4) { gen_nf_tree(rng, 3) } else { gen_tree(rng, 2) };
            let ts = show_tree(&t);
            sink.emit("c30.lucene", &[ts.clone()]);
            if let Some(r) = sink.emit("o.c30.tree", &[ts]) {
                sink.count(if r.obs[1] == format!("ok {}", show_tree(&t)) { "c30:tree_roundtrip_same" } else { "c30:tree_roundtrip_differs" });
            }
        }
    }
}

fn emit_query(sink: &mut Sink, q: &str) {
    let h = hs(q);
    let r = sink.emit("c30.parse", &[h.clone()]);
    match r.as_ref().map(|r| r.reply.as_str()) {
        Some("err") => sink.count("c30:rejected"),
        Some("panic") => sink.count("c30:panic"),
        Some(_) => {
            sink.count("c30:accepted");
            if let Ok(t) = real_parse(q) {
                sink.emit("c30.lucene", &[show_tree(&t)]);
                count_shapes(sink, &t);
            }
        }
        None => {}
    }
    if let Some(r) = sink.emit("o.c30", &[h]) {
        if r.obs[0].starts_with("ok") {
            if r.obs[2] == r.obs[0] {
                sink.count("c30:roundtrip_same");
            } else if r.obs[2].starts_with("ok") {
                sink.count("c30:roundtrip_different_tree");
            } else {
                sink.count("c30:roundtrip_rejected");
            }
        }
    }
}

fn count_shapes(sink: &mut Sink, t: &QueryNode) {
    let k = match t {
        QueryNode::MatchAllDocs => "all",
        QueryNode::MatchNoDocs => "none",
        QueryNode::AttributeExists { .. } => "exists",
        QueryNode::AttributeMissing { .. } => "missing",
        QueryNode::AttributeRange { .. } => "range",
        QueryNode::AttributeComparison { .. } => "comparison",
        QueryNode::AttributeTerm { .. } => "term",
        QueryNode::QuotedAttribute { .. } => "quoted",
        QueryNode::AttributePrefix { .. } => "prefix",
        QueryNode::AttributeWildcard { .. } => "wildcard",
        QueryNode::NegatedNode { node } => {
            count_shapes(sink, node);
            "negated"
        }
        QueryNode::Boolean { nodes, oper } => {
            for n in nodes {
                count_shapes(sink, n);
            }
            match oper {
                BooleanType::And => "and",
                BooleanType::Or => "or",
            }
        }
    };
    sink.count(&format!("c30:node:{k}"));
}
