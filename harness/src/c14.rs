//! C14 – determinism and thread safety on the implementation (`o.c14`), complementing `lang.run`
//! (which compares the single sequential result with the model):
//!  * compile the source twice: compiled tree, ProgramInfo, warnings and (for rejected sources) the
//!    full diagnostics must be identical;
//!  * run on a fresh runtime, and on one runtime reused after `clear()` following k earlier events
//!    (other programs' leftovers included: failing runs leave variables behind);
//!  * run from 8 threads sharing one `Program` (each thread its own Runtime and target), repeated.
use crate::lang;
use crate::rng::Rng;
use crate::sink::{Reply, Sink};
use crate::vrlrun;
use crate::wire::*;
use std::sync::Arc;
use vrl::compiler::runtime::Runtime;
use vrl::compiler::{TargetValue, TimeZone};
use vrl::value::{Secrets, Value};

fn compile_signature(src: &str) -> String {
    let fns = vrl::stdlib::all();
    match vrl::compiler::compile(src, &fns) {
        Ok(res) => {
            let w: Vec<String> = res.warnings.iter().map(|d| format!("{}:{}:{:?}", d.code, d.message, d.labels)).collect();
            format!("ok|{}|{:?}|{}", vrl::compiler::verif::dump_program(&res.program), res.program.info(), w.join(";"))
        }
        Err(diags) => {
            let d: Vec<String> = diags.iter().map(|d| format!("{}:{}:{:?}:{:?}", d.code, d.message, d.labels, d.notes)).collect();
            format!("err|{}", d.join(";"))
        }
    }
}

/// the same signature with the free-text parts removed (codes and spans only)
fn compile_signature_coarse(src: &str) -> String {
    let fns = vrl::stdlib::all();
    match vrl::compiler::compile(src, &fns) {
        Ok(res) => format!("ok|{}|{:?}", vrl::compiler::verif::dump_program(&res.program), res.program.info()),
        Err(diags) => {
            let d: Vec<String> =
                diags.iter().map(|d| format!("{}:{:?}", d.code, d.labels.iter().map(|l| (l.span.start(), l.span.end(), l.primary)).collect::<Vec<_>>())).collect();
            format!("err|{}", d.join(";"))
        }
    }
}

fn run_sig(rt: &mut Runtime, program: &vrl::compiler::Program, event: &Value, metadata: &Value) -> String {
    let mut target = TargetValue { value: event.clone(), metadata: metadata.clone(), secrets: Secrets::default() };
    let r = rt.resolve(&mut target, program, &TimeZone::Named(chrono_tz::UTC));
    let out = match r {
        Ok(v) => format!("ok {}", show_value(&v)),
        Err(e) => format!("err {e}"),
    };
    format!("{out}|{}|{}", show_value(&target.value), show_value(&target.metadata))
}

pub fn exec(op: &str, a: &[String]) -> Option<Reply> {
    match (op, a) {
        ("o.c14", [src, event, metadata, seed]) => {
            let srct = String::from_utf8(unhex(src)?).ok()?;
            let event = parse_value(event)?;
            let metadata = parse_value(metadata)?;
            let mut rng = Rng::new(seed.parse().ok()?);
            // (1) compile twice (plus a third time for the text of diagnostics)
            let c1 = compile_signature_coarse(&srct);
            let c2 = compile_signature_coarse(&srct);
            let same_compile = c1 == c2;
            let texts: Vec<String> = (0..6).map(|_| compile_signature(&srct)).collect();
            let same_text = texts.iter().all(|t| *t == texts[0]);
            let Ok(program) = vrlrun::compile(&srct) else {
                return Some(Reply::oracle(vec![b(same_compile), b(same_text), "-".into(), "-".into(), "rejected".into()]));
            };
            // (2) fresh vs cleared runtime. `fresh` uses its own compilation of the source, so that state
            // kept inside a compiled `Program` (caches filled by earlier events) shows up as a difference
            let fresh = match vrlrun::compile(&srct) {
                Ok(p0) => run_sig(&mut Runtime::default(), &p0, &event, &metadata),
                Err(_) => return None,
            };
            let mut reused = Runtime::default();
            let k = 1 + rng.below(4);
            for _ in 0..k {
                // earlier events processed by the same runtime: this program on other events and
                // another program that leaves variables behind (possibly failing)
                let other = {
                    let mut g = lang::Gen::new(&mut rng);
                    g.program()
                };
                if crate::typed::risky_alloc(&other) {
                    continue;
                }
                if let Ok(p2) = vrlrun::compile(&other) {
                    let _ = run_sig(&mut reused, &p2, &lang::gen_event(&mut rng), &lang::gen_metadata(&mut rng));
                }
                let _ = run_sig(&mut reused, &program, &lang::gen_event(&mut rng), &metadata);
                reused.clear();
            }
            let cleared = run_sig(&mut reused, &program, &event, &metadata);
            // (3) threads sharing the program
            let shared = Arc::new(program);
            let handles: Vec<_> = (0..8)
                .map(|_| {
                    let p = Arc::clone(&shared);
                    let (e, m) = (event.clone(), metadata.clone());
                    std::thread::spawn(move || {
                        let mut rt = Runtime::default();
                        let mut outs = Vec::new();
                        for _ in 0..6 {
                            outs.push(run_sig(&mut rt, &p, &e, &m));
                            rt.clear();
                        }
                        outs
                    })
                })
                .collect();
            let mut threads_ok = true;
            for h in handles {
                match h.join() {
                    Ok(outs) => threads_ok &= outs.iter().all(|o| *o == fresh),
                    Err(_) => threads_ok = false,
                }
            }
            Some(Reply::oracle(vec![b(same_compile), b(same_text), b(cleared == fresh), b(threads_ok), "accepted".into()]))
        }
        // one stdlib call whose arguments all depend on the event: the SAME compiled program processes
        // event A and then event B; B's outcome must be what a freshly compiled program gives on B
        ("o.c14.fn", [_fname, src, event_a, event_b]) => {
            let srct = String::from_utf8(unhex(src)?).ok()?;
            let ea = parse_value(event_a)?;
            let eb = parse_value(event_b)?;
            let md = Value::Object(Default::default());
            let r = crate::sink::guarded(|| {
                let p1 = vrlrun::compile(&srct).ok()?;
                let p2 = vrlrun::compile(&srct).ok()?;
                let mut rt = Runtime::default();
                let _ = run_sig(&mut rt, &p1, &ea, &md);
                rt.clear();
                let reused = run_sig(&mut rt, &p1, &eb, &md);
                let fresh = run_sig(&mut Runtime::default(), &p2, &eb, &md);
                // and from two threads sharing p1 (each its own runtime)
                let shared = Arc::new(p1);
                let hs: Vec<_> = [ea.clone(), eb.clone()]
                    .into_iter()
                    .map(|e| {
                        let p = Arc::clone(&shared);
                        let ebc = eb.clone();
                        std::thread::spawn(move || {
                            let mut rt = Runtime::default();
                            let md = Value::Object(Default::default());
                            let _ = run_sig(&mut rt, &p, &e, &md);
                            rt.clear();
                            run_sig(&mut rt, &p, &ebc, &md)
                        })
                    })
                    .collect();
                let threads_ok = hs.into_iter().all(|h| h.join().map(|o| o == fresh).unwrap_or(false));
                Some((reused == fresh, threads_ok))
            });
            match r {
                Ok(Some((same, threads))) => Some(Reply::oracle(vec![b(same), b(threads)])),
                Ok(None) => None,
                Err(_) => Some(Reply::oracle(vec!["panic".into(), "-".into()])),
            }
        }
        _ => None,
    }
}

/// a call of `f` in which every argument depends on the event: runtime-typed ones are event fields,
/// literal-only ones (and a share of the others) are variables `v<i> = L1; if .c<i> == true { v<i> = L2 }`
/// this check runs in-process: keep integers small so that no call allocates by argument
/// (`set!(v, [2147483647], x)` pads an array with two billion nulls and aborts the process)
fn small_ints(v: Value) -> Value {
    match v {
        Value::Integer(i) => Value::Integer(i.clamp(-1000, 1000)),
        Value::Array(a) => Value::Array(a.into_iter().map(small_ints).collect()),
        Value::Object(m) => Value::Object(m.into_iter().map(|(k, v)| (k, small_ints(v))).collect()),
        v => v,
    }
}

fn gen_dynamic_call(f: &dyn vrl::compiler::Function, rng: &mut Rng) -> Option<(String, Value, Value)> {
    use crate::sweep::*;
    let mut args: Vec<String> = Vec::new();
    let mut prelude = String::new();
    let mut ea = vrl::value::ObjectMap::new();
    let mut eb = vrl::value::ObjectMap::new();
    for (i, p) in f.parameters().iter().enumerate() {
        if !p.required && rng.chance(1, 2) {
            continue;
        }
        let allowed = kinds_of(p.kind);
        if allowed.is_empty() {
            return None;
        }
        let kind = *rng.pick(&allowed);
        let text = if kind == K_REGEX || rng.chance(1, 2) {
            let pool = literal_pool(kind);
            // (integer literals with more than four digits are avoided for the same reason)
            let small: Vec<&str> = pool.iter().copied().filter(|l| kind != K_INTEGER || l.len() <= 5).collect();
            let (l1, l2) = (*rng.pick(&small), *rng.pick(&small));
            ea.insert(format!("c{i}").into(), Value::Boolean(rng.chance(1, 2)));
            eb.insert(format!("c{i}").into(), Value::Boolean(rng.chance(1, 2)));
            // through a variable reassigned under a condition: accepted where a literal is required
            prelude.push_str(&format!("v{i} = {l1}\nif .c{i} == true {{ v{i} = {l2} }}\n"));
            format!("v{i}")
        } else {
            ea.insert(format!("p{i}").into(), small_ints(runtime_pool(kind, rng)));
            eb.insert(format!("p{i}").into(), small_ints(runtime_pool(kind, rng)));
            format!(".p{i}")
        };
        if i > 0 && rng.chance(1, 3) || !p.required {
            args.push(format!("{}: {}", p.keyword, text));
        } else {
            args.push(text);
        }
    }
    let name = f.identifier();
    let src = format!("{prelude}{name}!({}){}", args.join(", "), closure_suffix(name));
    Some((src, Value::Object(ea), Value::Object(eb)))
}

fn b(x: bool) -> String {
    if x { "1".into() } else { "0".into() }
}

pub fn generate(sink: &mut Sink, rng: &mut Rng, n: u64) {
    // rejected sources whose diagnostics carry computed hints
    for src in ["fooa = 1; foob = 2; fooc = 3; food = 4; foo", "abc = 1\nabd = 2\nab", "x = 1\ny = x +\n", "upcase(1)", ".a = to_int(.b)"] {
        sink.emit("o.c14", &[hex(src.as_bytes()), "{ }".into(), "{ }".into(), rng.next().to_string()]);
    }
    let mut done = 0;
    let mut tries = 0;
    while done < n && tries < n * 10 {
        tries += 1;
        let src = {
            let mut g = lang::Gen::new(rng);
            let mut s = g.program();
            if rng.chance(1, 6) {
                // a misspelt variable: rejected, with a "did you mean" hint
                s.push_str("\nxx1 = 1; xx2 = 2; xx3 = 3\nxx");
            }
            s
        };
        if crate::typed::risky_alloc(&src) {
            continue;
        }
        done += 1;
        let event = lang::gen_event(rng);
        let meta = lang::gen_metadata(rng);
        if lang::risky_case(&src, &event) || lang::risky_case(&src, &meta) {
            continue;
        }
        if let Some(r) = sink.emit("o.c14", &[hex(src.as_bytes()), show_value(&event), show_value(&meta), rng.next().to_string()]) {
            sink.count(&format!("c14:{}", r.obs.last().cloned().unwrap_or_default()));
        }
        // the sequential result itself is compared with the model
        sink.emit("lang.run", &[hex(src.as_bytes()), show_value(&event), show_value(&meta), "-".to_string()]);
    }
    // stdlib: no state survives in a compiled program from one event to the next
    let fns = vrl::stdlib::all();
    let per_fn = (n / 60).max(2);
    for f in &fns {
        let name = f.identifier();
        if crate::sweep::EXCLUDED.contains(&name) {
            continue;
        }
        // functions taking a pattern (a literal-only kind that is usually compiled once) get more cases
        let per_fn = if f.parameters().iter().any(|p| p.kind & crate::sweep::K_REGEX != 0) { per_fn * 6 } else { per_fn };
        let mut emitted = 0;
        let mut tries = 0;
        while emitted < per_fn && tries < per_fn * 8 {
            tries += 1;
            let Some((src, ea, eb)) = gen_dynamic_call(f.as_ref(), rng) else { break };
            let call = crate::sweep::Call { fname: name.to_string(), src, event: ea.clone(), shape: String::new() };
            let Some(src) = crate::sweep::compilable(&call) else {
                sink.count("c14:fn:rejected_by_compiler");
                continue;
            };
            emitted += 1;
            if let Some(r) = sink.emit("o.c14.fn", &[name.to_string(), hex(src.as_bytes()), show_value(&ea), show_value(&eb)]) {
                sink.count(&format!("c14:fn:same={}", r.obs.first().cloned().unwrap_or_default()));
            }
        }
    }
}
