//! C14 – determinism and thread safety on the implementation (`o.c14`), complementing `lang.run`
//! (which compares the single sequential result with the model):
//!  * compile the source twice: compiled tree, ProgramInfo, warnings and (for rejected sources) the
//!    full diagnostics must be identical;
//!  * run on a fresh runtime, and on one runtime reused after `clear()` following k earlier events
//!    (other programs' leftovers included: failing runs leave variables behind);
//!  * run from 8 threads sharing one `Program` (each thread its own Runtime and target), repeated.
use crate::lang;
use crate::rng::Rng;
use crate::sink::{Reply, Sink};
use crate::vrlrun;
use crate::wire::*;
use std::sync::Arc;
use vrl::compiler::runtime::Runtime;
use vrl::compiler::{TargetValue, TimeZone};
use vrl::value::{Secrets, Value};

fn compile_signature(src: &str) -> String {
    let fns = vrl::stdlib::all();
    match vrl::compiler::compile(src, &fns) {
        Ok(res) => {
            let w: Vec<String> = res.warnings.iter().map(|d| format!("{}:{}:{:?}", d.code, d.message, d.labels)).collect();
            format!("ok|{}|{:?}|{}", vrl::compiler::verif::dump_program(&res.program), res.program.info(), w.join(";"))
        }
        Err(diags) => {
            let d: Vec<String> = diags.iter().map(|d| format!("{}:{}:{:?}:{:?}", d.code, d.message, d.labels, d.notes)).collect();
            format!("err|{}", d.join(";"))
        }
    }
}

/// the same signature with the free-text parts removed (codes and spans only)
fn compile_signature_coarse(src: &str) -> String {
    let fns = vrl::stdlib::all();
    match vrl::compiler::compile(src, &fns) {
        Ok(res) => format!("ok|{}|{:?}", vrl::compiler::verif::dump_program(&res.program), res.program.info()),
        Err(diags) => {
            let d: Vec<String> =
                diags.iter().map(|d| format!("{}:{:?}", d.code, d.labels.iter().map(|l| (l.span.start(), l.span.end(), l.primary)).collect::<Vec<_>>())).collect();
            format!("err|{}", d.join(";"))
        }
    }
}

fn run_sig(rt: &mut Runtime, program: &vrl::compiler::Program, event: &Value, metadata: &Value) -> String {
    let mut target = TargetValue { value: event.clone(), metadata: metadata.clone(), secrets: Secrets::default() };
    let r = rt.resolve(&mut target, program, &TimeZone::Named(chrono_tz::UTC));
    let out = match r {
        Ok(v) => format!("ok {}", show_value(&v)),
        Err(e) => format!("err {e}"),
    };
    format!("{out}|{}|{}", show_value(&target.value), show_value(&target.metadata))
}

pub fn exec(op: &str, a: &[String]) -> Option<Reply> {
    match (op, a) {
        ("o.c14", [src, event, metadata, seed]) => {
            let srct = String::from_utf8(unhex(src)?).ok()?;
            let event = parse_value(event)?;
            let metadata = parse_value(metadata)?;
            let mut rng = Rng::new(seed.parse().ok()?);
            // (1) compile twice (plus a third time for the text of diagnostics)
            let c1 = compile_signature_coarse(&srct);
            let c2 = compile_signature_coarse(&srct);
            let same_compile = c1 == c2;
            let texts: Vec<String> = (0..6).map(|_| compile_signature(&srct)).collect();
            let same_text = texts.iter().all(|t| *t == texts[0]);
            let Ok(program) = vrlrun::compile(&srct) else {
                return Some(Reply::oracle(vec![b(same_compile), b(same_text), "-".into(), "-".into(), "rejected".into()]));
            };
            // (2) fresh vs cleared runtime
            let fresh = run_sig(&mut Runtime::default(), &program, &event, &metadata);
            let mut reused = Runtime::default();
            let k = 1 + rng.below(4);
            for _ in 0..k {
                // earlier events processed by the same runtime: this program on other events and
                // another program that leaves variables behind (possibly failing)
                let other = {
                    let mut g = lang::Gen::new(&mut rng);
                    g.program()
                };
                if let Ok(p2) = vrlrun::compile(&other) {
                    let _ = run_sig(&mut reused, &p2, &lang::gen_event(&mut rng), &lang::gen_metadata(&mut rng));
                }
                let _ = run_sig(&mut reused, &program, &lang::gen_event(&mut rng), &metadata);
                reused.clear();
            }
            let cleared = run_sig(&mut reused, &program, &event, &metadata);
            // (3) threads sharing the program
            let shared = Arc::new(program);
            let handles: Vec<_> = (0..8)
                .map(|_| {
                    let p = Arc::clone(&shared);
                    let (e, m) = (event.clone(), metadata.clone());
                    std::thread::spawn(move || {
                        let mut rt = Runtime::default();
                        let mut outs = Vec::new();
                        for _ in 0..6 {
                            outs.push(run_sig(&mut rt, &p, &e, &m));
                            rt.clear();
                        }
                        outs
                    })
                })
                .collect();
            let mut threads_ok = true;
            for h in handles {
                match h.join() {
                    Ok(outs) => threads_ok &= outs.iter().all(|o| *o == fresh),
                    Err(_) => threads_ok = false,
                }
            }
            Some(Reply::oracle(vec![b(same_compile), b(same_text), b(cleared == fresh), b(threads_ok), "accepted".into()]))
        }
        _ => None,
    }
}

fn b(x: bool) -> String {
    if x { "1".into() } else { "0".into() }
}

pub fn generate(sink: &mut Sink, rng: &mut Rng, n: u64) {
    // rejected sources whose diagnostics carry computed hints
    for src in ["fooa = 1; foob = 2; fooc = 3; food = 4; foo", "abc = 1\nabd = 2\nab", "x = 1\ny = x +\n", "upcase(1)", ".a = to_int(.b)"] {
        sink.emit("o.c14", &[hex(src.as_bytes()), "{ }".into(), "{ }".into(), rng.next().to_string()]);
    }
    let mut done = 0;
    let mut tries = 0;
    while done < n && tries < n * 10 {
        tries += 1;
        let src = {
            let mut g = lang::Gen::new(rng);
            let mut s = g.program();
            if rng.chance(1, 6) {
                // a misspelt variable: rejected, with a "did you mean" hint
                s.push_str("\nxx1 = 1; xx2 = 2; xx3 = 3\nxx");
            }
            s
        };
        done += 1;
        let event = lang::gen_event(rng);
        let meta = lang::gen_metadata(rng);
        if let Some(r) = sink.emit("o.c14", &[hex(src.as_bytes()), show_value(&event), show_value(&meta), rng.next().to_string()]) {
            sink.count(&format!("c14:{}", r.obs.last().cloned().unwrap_or_default()));
        }
        // the sequential result itself is compared with the model
        sink.emit("lang.run", &[hex(src.as_bytes()), show_value(&event), show_value(&meta), "-".to_string()]);
    }
}
