//! C31 – Datadog search matching (placeholder, filled below).
use crate::rng::Rng;
use crate::sink::{Reply, Sink};

pub fn exec(op: &str, a: &[String]) -> Option<Reply> {
    let _ = (op, a);
    None
}

pub fn generate(sink: &mut Sink, rng: &mut Rng, n: u64) {
    let _ = (sink, rng, n);
}
