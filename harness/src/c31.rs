//! C31 – Datadog search matching follows the query semantics.
//!   c31.match <hex query> <event>   | obs: real parse of the query (`ok tree` | err | panic)
//!        → true | false | err (rejected at compile time) | panic | rterr
//!        the REAL `match_datadog_query` through a compiled VRL program `match_datadog_query!(., "<literal>")`
//!   c31.path  <hex text>            → `ok <path>` | err | panic        (`parse_value_path`, the JIT parser)
//!   o.c31  skel <formula> <hex qa> <hex qb> <hex qc> <event>
//!        | obs: match(qa) match(qb) match(qc) match(rendered formula) <hex rendered text>
//!   o.c31  range <hex attr> <hex lo> <hex hi> <li> <ui> <event>
//!        | obs: match(attr:[lo TO hi]) match(attr:>=lo) match(attr:<=hi) (brackets / operators per li, ui)
//!   o.c31  leaf <hex query> <event>  | obs: real parse, match result   (checked against the reference semantics)
use crate::c30::{hs, real_parse, show_parse, uhs};
use crate::rng::Rng;
use crate::sink::{guarded, Reply, Sink};
use crate::wire::{parse_value, show_path, show_value};
use vrl::value::{ObjectMap, Value};

/// VRL string literal for `q` (`None` if it cannot be written as a literal that denotes exactly `q`).
fn vrl_literal(q: &str) -> Option<String> {
    let mut s = String::from("\"");
    for c in q.chars() {
        match c {
            '\\' => s.push_str("\\\\"),
            '"' => s.push_str("\\\""),
            '\n' => s.push_str("\\n"),
            '\r' => s.push_str("\\r"),
            '\t' => s.push_str("\\t"),
            '\0' => s.push_str("\\0"),
            '{' => s.push_str("\\{"),
            '}' => s.push_str("\\}"),
            c => s.push(c),
        }
    }
    s.push('"');
    Some(s)
}

/// run the real function: `true` / `false` / `err` / `panic` / `rterr`
pub fn real_match(q: &str, event: &Value) -> String {
    let Some(lit) = vrl_literal(q) else { return "nolit".into() };
    let src = format!("match_datadog_query!(., {lit})");
    let ev = event.clone();
    match guarded(move || crate::vrlrun::run_vrl(&src, ev)) {
        Err(_) => "panic".into(),
        Ok(Err(e)) if e == "compile-error" => "err".into(),
        Ok(Err(_)) => "rterr".into(),
        Ok(Ok(Value::Boolean(b))) => if b { "true".into() } else { "false".into() },
        Ok(Ok(_)) => "rterr".into(),
    }
}

/// does the literal denote the query text? (checked once per query through the real compiler)
fn literal_ok(q: &str) -> bool {
    let Some(lit) = vrl_literal(q) else { return false };
    let q2 = q.to_string();
    matches!(
        guarded(move || crate::vrlrun::run_vrl(&lit, Value::Object(ObjectMap::new()))),
        Ok(Ok(Value::Bytes(b))) if b.as_ref() == q2.as_bytes()
    )
}

// formulas over the atoms a, b, c in prefix form: `a` `b` `c` `! F` `& F G` `| F G` `j F G`
#[derive(Clone, Debug)]
enum Fm {
    Atom(usize),
    Not(Box<Fm>, u8),
    And(Box<Fm>, Box<Fm>, u8),
    Or(Box<Fm>, Box<Fm>, u8),
    Juxt(Box<Fm>, Box<Fm>),
}

fn fm_parse(toks: &[&str], pos: &mut usize) -> Option<Fm> {
    let t = *toks.get(*pos)?;
    *pos += 1;
    Some(match t {
        "a" => Fm::Atom(0),
        "b" => Fm::Atom(1),
        "c" => Fm::Atom(2),
        "!" | "!-" | "!n" => Fm::Not(Box::new(fm_parse(toks, pos)?), if t == "!-" { 1 } else { 0 }),
        "&" | "&&" => Fm::And(Box::new(fm_parse(toks, pos)?), Box::new(fm_parse(toks, pos)?), if t == "&&" { 1 } else { 0 }),
        "|" | "||" => Fm::Or(Box::new(fm_parse(toks, pos)?), Box::new(fm_parse(toks, pos)?), if t == "||" { 1 } else { 0 }),
        "j" => Fm::Juxt(Box::new(fm_parse(toks, pos)?), Box::new(fm_parse(toks, pos)?)),
        _ => return None,
    })
}

fn fm_prec(f: &Fm) -> u8 {
    match f {
        Fm::Or(..) => 1,
        Fm::And(..) | Fm::Juxt(..) => 2,
        Fm::Not(..) => 3,
        Fm::Atom(_) => 4,
    }
}

/// render with the fewest parentheses the claimed semantics allows: AND / juxtaposition bind tighter
/// than OR, NOT applies to the next clause; atoms are parenthesised sub-queries.
fn fm_render(f: &Fm, atoms: &[String; 3]) -> String {
    let child = |g: &Fm, min: u8| -> String {
        let s = fm_render(g, atoms);
        if fm_prec(g) < min { format!("({s})") } else { s }
    };
    match f {
        Fm::Atom(i) => format!("({})", atoms[*i]),
        Fm::Not(g, v) => format!("{}{}", if *v == 1 { "-" } else { "NOT " }, child(g, 4)),
        Fm::And(g, h, v) => format!("{} {} {}", child(g, 2), if *v == 1 { "&&" } else { "AND" }, child(h, 2)),
        Fm::Juxt(g, h) => format!("{} {}", child(g, 2), child(h, 2)),
        Fm::Or(g, h, v) => format!("{} {} {}", child(g, 1), if *v == 1 { "||" } else { "OR" }, child(h, 1)),
    }
}

fn fm_show(f: &Fm) -> String {
    match f {
        Fm::Atom(i) => ["a", "b", "c"][*i].to_string(),
        Fm::Not(g, v) => format!("{} {}", if *v == 1 { "!-" } else { "!" }, fm_show(g)),
        Fm::And(g, h, v) => format!("{} {} {}", if *v == 1 { "&&" } else { "&" }, fm_show(g), fm_show(h)),
        Fm::Or(g, h, v) => format!("{} {} {}", if *v == 1 { "||" } else { "|" }, fm_show(g), fm_show(h)),
        Fm::Juxt(g, h) => format!("j {} {}", fm_show(g), fm_show(h)),
    }
}

/// all formulas with exactly `n` operators over atoms a, b, c (atoms used left to right, cycling)
fn fm_enum(n: usize, out: &mut Vec<Fm>, next_atom: &mut usize) {
    fn go(n: usize) -> Vec<Fm> {
        if n == 0 {
            return vec![Fm::Atom(0), Fm::Atom(1), Fm::Atom(2)];
        }
        let mut v = Vec::new();
        for g in go(n - 1) {
            v.push(Fm::Not(Box::new(g.clone()), 0));
        }
        for k in 0..n {
            let ls = go(k);
            let rs = go(n - 1 - k);
            for l in &ls {
                for r in &rs {
                    v.push(Fm::And(Box::new(l.clone()), Box::new(r.clone()), 0));
                    v.push(Fm::Or(Box::new(l.clone()), Box::new(r.clone()), 0));
                    v.push(Fm::Juxt(Box::new(l.clone()), Box::new(r.clone())));
                }
            }
        }
        v
    }
    let _ = next_atom;
    out.extend(go(n));
}

fn range_texts(attr: &str, lo: &str, hi: &str, li: bool, ui: bool) -> (String, String, String) {
    let p = if attr.is_empty() { String::new() } else { format!("{attr}:") };
    let range = format!("{p}{}{lo} TO {hi}{}", if li { "[" } else { "{" }, if ui { "]" } else { "}" });
    let lower = format!("{p}{}{lo}", if li { ">=" } else { ">" });
    let upper = format!("{p}{}{hi}", if ui { "<=" } else { "<" });
    (range, lower, upper)
}

pub fn exec(op: &str, a: &[String]) -> Option<Reply> {
    match (op, a) {
        ("c31.match", [q, ev]) => {
            let q = uhs(q)?;
            let ev = parse_value(ev)?;
            let tree = show_parse(&real_parse(&q)).replace('\t', " ");
            Some(Reply { obs: vec![tree], reply: real_match(&q, &ev) })
        }
        ("c31.regex", [kind, pat, text]) => {
            // the law assumed of the regex engine, sampled on the real `regex` crate through vrl's own builders
            let (pat, text) = (uhs(pat)?, uhs(text)?);
            let kind = kind.clone();
            Some(Reply::plain(match guarded(move || match kind.as_str() {
                "w" => Some(vrl::datadog_filter::regex::wildcard_regex(&pat).is_match(&text)),
                "b" => Some(vrl::datadog_filter::regex::word_regex(&pat).is_match(&text)),
                _ => None,
            }) {
                Ok(Some(b)) => if b { "true".into() } else { "false".into() },
                Ok(None) => return None,
                Err(_) => "panic".to_string(),
            }))
        }
        ("c31.path", [t]) => {
            let t = uhs(t)?;
            Some(Reply::plain(match guarded(move || vrl::path::parse_value_path(&t)) {
                Ok(Ok(p)) => format!("ok\t{}", show_path(&p)),
                Ok(Err(_)) => "err".into(),
                Err(_) => "panic".into(),
            }))
        }
        ("o.c31", [kind, f, qa, qb, qc, ev]) if kind == "skel" => {
            let toks: Vec<&str> = f.split(' ').filter(|t| !t.is_empty()).collect();
            let mut pos = 0;
            let fm = fm_parse(&toks, &mut pos)?;
            if pos != toks.len() {
                return None;
            }
            let atoms = [uhs(qa)?, uhs(qb)?, uhs(qc)?];
            let ev = parse_value(ev)?;
            let text = fm_render(&fm, &atoms);
            Some(Reply::oracle(vec![
                real_match(&atoms[0], &ev),
                real_match(&atoms[1], &ev),
                real_match(&atoms[2], &ev),
                real_match(&text, &ev),
                hs(&text),
            ]))
        }
        ("o.c31", [kind, attr, lo, hi, li, ui, ev]) if kind == "range" => {
            let (attr, lo, hi) = (uhs(attr)?, uhs(lo)?, uhs(hi)?);
            let ev = parse_value(ev)?;
            let (r, l, u) = range_texts(&attr, &lo, &hi, li == "1", ui == "1");
            Some(Reply::oracle(vec![real_match(&r, &ev), real_match(&l, &ev), real_match(&u, &ev)]))
        }
        ("o.c31", [kind, q, ev]) if kind == "leaf" => {
            let q = uhs(q)?;
            let ev = parse_value(ev)?;
            let tree = show_parse(&real_parse(&q)).replace('\t', " ");
            Some(Reply::oracle(vec![tree, real_match(&q, &ev)]))
        }
        _ => None,
    }
}

// ---------------------------------------------------------------------------------------------
// generators: small vocabularies (DESIGN §7 C31)

const STRS: &[&str] = &[
    "foo", "bar", "foo bar", "bar foo baz", "foo-bar", "foo_bar", "Foo", "foobar", "", "a:b", "5", "10", "1.5", "abc", "b", "x",
    "foo\nbar", "a*b", "foo.bar", "env:prod", "true", "null", "-1", "9", "z",
];
const TAGS: &[&str] = &[
    "env:prod", "env:dev", "env", "k:5", "k:10", "k:abc", "k:", ":v", "host:a:b", "service:web", "x", "k:foo bar", "a:1", "b:y",
    "c:z", "env:production", "kk:7",
];
const ATTR_KEYS: &[&str] = &["a", "b", "n", "x", "http", "status_code", "y", "message", "custom", "error", "title", "stack", "host",
    "service", "status", "tags", "_default_", "timestamp", "source", "trace_id", "k-1", "@a", "a b"];

fn gen_leaf_value(rng: &mut Rng) -> Value {
    match rng.below(14) {
        0..=5 => Value::Bytes((*rng.pick(STRS)).to_string().into()),
        6 | 7 => Value::Integer(*rng.pick(&[0, 1, 5, 10, -1, 9, 42, 100, 9007199254740993, i64::MAX])),
        8 | 9 => Value::Float(ordered_float::NotNan::new(*rng.pick(&[0.0, 1.5, 2.0, -0.5, 5.0, 10.0, 1e21, 0.1, -0.0, 9.5])).unwrap()),
        10 => Value::Boolean(rng.chance(1, 2)),
        11 => Value::Null,
        12 => Value::Array((0..rng.below(3)).map(|_| gen_leaf_value(rng)).collect()),
        _ => {
            let mut m = ObjectMap::new();
            for _ in 0..rng.below(3) {
                m.insert((*rng.pick(&["a", "b", "y", "q\"r"])).into(), gen_leaf_value(rng));
            }
            Value::Object(m)
        }
    }
}

fn gen_tags(rng: &mut Rng) -> Value {
    match rng.below(10) {
        0 => Value::Bytes("env:prod".into()),
        1 => Value::Null,
        _ => Value::Array(
            (0..rng.below(5))
                .map(|_| match rng.below(10) {
                    0 => Value::Integer(5),
                    1 => gen_leaf_value(rng),
                    _ => Value::Bytes((*rng.pick(TAGS)).to_string().into()),
                })
                .collect(),
        ),
    }
}

pub fn gen_event(rng: &mut Rng) -> Value {
    let mut m = ObjectMap::new();
    if rng.chance(3, 4) {
        let v = if rng.chance(3, 4) { Value::Bytes((*rng.pick(STRS)).to_string().into()) } else { gen_leaf_value(rng) };
        m.insert("message".into(), v);
    }
    if rng.chance(2, 3) {
        m.insert("tags".into(), gen_tags(rng));
    }
    if rng.chance(1, 4) {
        let mut c = ObjectMap::new();
        if rng.chance(1, 2) {
            c.insert("title".into(), gen_leaf_value(rng));
        }
        if rng.chance(1, 2) {
            let mut e = ObjectMap::new();
            e.insert((*rng.pick(&["message", "stack"])).into(), gen_leaf_value(rng));
            c.insert("error".into(), Value::Object(e));
        }
        m.insert("custom".into(), Value::Object(c));
    }
    for k in ["a", "n", "host", "service", "status"] {
        if rng.chance(1, 2) {
            m.insert(k.into(), gen_leaf_value(rng));
        }
    }
    if rng.chance(1, 3) {
        let mut o = ObjectMap::new();
        o.insert("y".into(), gen_leaf_value(rng));
        m.insert("x".into(), Value::Object(o));
    }
    if rng.chance(1, 3) {
        let mut o = ObjectMap::new();
        o.insert("status_code".into(), Value::Integer(*rng.pick(&[200, 404, 500, 5, 10])));
        m.insert("http".into(), Value::Object(o));
    }
    if rng.chance(1, 3) {
        // `a` as an object or array so that `@a.b`, `@a[0]` address something
        let v = if rng.chance(1, 2) {
            let mut o = ObjectMap::new();
            o.insert("b".into(), gen_leaf_value(rng));
            Value::Object(o)
        } else {
            Value::Array((0..1 + rng.below(3)).map(|_| gen_leaf_value(rng)).collect())
        };
        m.insert("a".into(), v);
    }
    for _ in 0..rng.below(3) {
        let k = *rng.pick(ATTR_KEYS);
        m.insert(k.into(), gen_leaf_value(rng));
    }
    Value::Object(m)
}

const QFIELDS: &[&str] = &[
    "", "", "", "message", "host", "service", "status", "tags", "@a", "@a.b", "@n", "@x.y", "@http.status_code", "env", "k", "kk",
    "custom.title", "custom.error.message", "@message", "@tags", "@a[0]", "@a[-1]", "@\\\"a\\ b\\\"", "@", "@a..b", "a", "b",
    "c", "@k\\-1", "_default_", "@custom", "timestamp", "source", "@a", "@n", "@a.b", "host", "service", "@x.y", "env", "k",
];
const QVALS: &[&str] = &[
    "foo", "bar", "foo*", "*bar", "f*o", "*", "f?o", "\"foo bar\"", "\"foo\"", "5", "10", "1.5", "abc", "b", "x", "prod", "dev",
    "pro*", "\"\"", "foo\\ bar", "a\\:b", "foo\\-bar", "foo_bar", "Foo", "*oo*", "env\\:prod", "9", "z", "\"a:b\"", "y", "1", "a*b",
    "a\\*b", "foo.bar", "true", "null", "\\-1", "web", "*a*", "production",
];
const CMPVALS: &[&str] = &["5", "10", "1.5", "abc", "b", "9", "0", "\\-1", "1E1", "foo", "z", "2", "9007199254740992", "10.0", "1e1", "prod"];
const RANGEVALS: &[&str] = &["5", "10", "1.5", "abc", "b", "9", "0", "-1", "*", "\"a b\"", "foo", "z", "2", "nan", "inf", "1e1", "prod", "dev", "y"];

fn gen_leaf_query(rng: &mut Rng) -> String {
    let f = *rng.pick(QFIELDS);
    let p = if f.is_empty() { String::new() } else { format!("{f}:") };
    match rng.below(12) {
        0..=5 => format!("{p}{}", rng.pick(QVALS)),
        6 | 7 => format!("{p}{}{}", rng.pick(&[">", ">=", "<", "<="]), rng.pick(CMPVALS)),
        8 | 9 => {
            let sq = rng.chance(1, 2);
            format!("{p}{}{} TO {}{}", if sq { "[" } else { "{" }, rng.pick(RANGEVALS), rng.pick(RANGEVALS), if sq { "]" } else { "}" })
        }
        10 => format!("{}:{}", rng.pick(&["_exists_", "_missing_"]), if f.is_empty() { "message" } else { f }),
        _ => rng.pick(&["*:*", "*", "-*:*", "foo bar", "_exists_:tags", "_missing_:tags", "tags:env\\:prod", "tags:env"]).to_string(),
    }
}

fn gen_small_query(rng: &mut Rng) -> String {
    match rng.below(6) {
        0..=3 => gen_leaf_query(rng),
        4 => format!("{} {} {}", gen_leaf_query(rng), rng.pick(&["AND", "OR", ""]), gen_leaf_query(rng)),
        _ => format!("{}{}", rng.pick(&["-", "NOT "]), gen_leaf_query(rng)),
    }
}

const PATHS: &[&str] = &[
    "", ".", "a", ".a", "a.b", ".a.b.c", "a[0]", "a[-1]", "[1]", ".[42]", "[42].foo", "foo.[42]", "foo..bar", "a.", "\"a b\"", ".\"a b\".c",
    "\"a\\\"b\"", "\"a\\\\b\"", "\"a\\nb\"", "\"a\\", "\"ab", "a\"b\"", "@timestamp", "a-b", "-a", "a b", "a$", "é", "\"é\"", "a[", "a[]", "a[1",
    "a[1]b", "a[1].b", "a[1][2]", "a[-0]", "a[--1]", "a[9223372036854775807]", "a[9223372036854775808]", "a[-9223372036854775808]",
    "a[-9223372036854775809]", "a[99999999999999999999]", "custom.error.message", "tags", "_default_", "a.\"b.c\".d", "\"\"", "a.\"\"",
    "\"a\"\"b\"", "\"a\".b", "\"a\"[0]", "\"x\\\\\"", "\"pre\\\"mid\\\\post\"", ".a b", "..", "a[0]..b", "a[00012]",
];

fn gen_path_text(rng: &mut Rng) -> String {
    let mut s = String::new();
    let n = 1 + rng.below(4);
    if rng.chance(1, 3) {
        s.push('.');
    }
    for i in 0..n {
        match rng.below(10) {
            0..=4 => {
                if i > 0 {
                    s.push('.');
                }
                s.push_str(*rng.pick(&["a", "b", "foo", "a-b", "@t", "_x", "0", "é", "a b", ""]));
            }
            5 | 6 => s.push_str(&format!("[{}]", rng.range(-12, 12))),
            7 => {
                if i > 0 {
                    s.push('.');
                }
                s.push_str(*rng.pick(&["\"a b\"", "\"a\\\"b\"", "\"\\\\\"", "\"é.x\"", "\"a\\nb\"", "\"", "\"a"]));
            }
            8 => s.push_str(*rng.pick(&["[", "]", "[-", "[1", "..", "[a]", "[ 1]", "$"])),
            _ => s.push_str(&format!("[{}]", rng.pick(&["9223372036854775807", "-9223372036854775808", "123456789012", "00", "-0"]))),
        }
    }
    s
}

pub fn generate(sink: &mut Sink, rng: &mut Rng, n: u64) {
    // tag keys that are prefixes of one another: existence, equality, prefix and comparison on a tag
    // must look at the whole key (`a` is absent from tags ["ab:1"])
    for key in ["a", "env", "k", "host"] {
        for tags in [vec![format!("{key}b:1")], vec![format!("{key}x")], vec![format!("{key}:1")], vec![key.to_string()],
                     vec![format!("{key}b:1"), format!("{key}:2")], vec![format!("x{key}:1")], vec![format!("{key}:")], vec![]] {
            let ev = format!("{{ k:74616773 [ {} ] }}", tags.iter().map(|t| format!("b:{}", crate::wire::hex(t.as_bytes()))).collect::<Vec<_>>().join(" "));
            for q in [format!("_exists_:{key}"), format!("_missing_:{key}"), format!("{key}:1"), format!("{key}:*"), format!("{key}:>0"),
                      format!("{key}:[* TO *]"), format!("-{key}:1"), format!("{key}:1*")] {
                if literal_ok(&q) {
                    sink.emit("c31.match", &[hs(&q), ev.clone()]);
                    sink.emit("o.c31", &["leaf".to_string(), hs(&q), ev.clone()]);
                }
            }
        }
    }
    // JIT path parser: fixed texts, then generated ones
    for p in PATHS {
        sink.emit("c31.path", &[hs(p)]);
    }
    for _ in 0..(n / 4).max(50) {
        sink.emit("c31.path", &[hs(&gen_path_text(rng))]);
    }
    // the regex engine law: reference glob matcher vs the real regex crate
    const RPATS: &[&str] = &["foo", "foo*", "*foo", "f*o", "*", "", "foo bar", "a.b", "a*b*c", "**", "f?o", "(x)", "a\\b", "-a", "a-", "foo_bar",
        "Foo", "é*", "k:5", "env:pro*", "*:*", "a+b", "[a]", "^a$", "a|b", "\\*", "o"];
    const RTEXTS: &[&str] = &["foo", "foobar", "foo bar", "bar foo baz", "xfoo", "foo-bar", "foo_bar", "", "f o", "fo", "fxxo", "foo\nbar",
        "a.b", "axb", "abc", "a b c", "(x)", "a\\b", "-a", "b-a-", "Foo", "FOO", "ébc", "k:5", "env:prod", "a+b", "[a]", "^a$", "a|b", "*", "o", "oo o"];
    for _ in 0..(n / 2).max(200) {
        let kind = if rng.chance(1, 2) { "w" } else { "b" };
        let pat = *rng.pick(RPATS);
        let text = *rng.pick(RTEXTS);
        sink.emit("c31.regex", &[kind.to_string(), hs(pat), hs(text)]);
    }
    // fixed (query, event) pairs: the documented examples and the known deviations
    let fixed: &[(&str, &str)] = &[
        ("this OR that", "{ k:6d657373616765 b:636f6e7461696e73207468697320616e642074686174 }"),
        ("b:[\"x\" TO \"z\"]", "{ k:74616773 [ b:613a78 b:623a79 b:633a7a ] }"),
        ("b:>1", "{ k:74616773 [ b:613a35 ] }"),
        ("_exists_:tags", "{ k:74616773 [ b:613a35 ] }"),
        ("_missing_:tags", "{ k:74616773 [ b:613a35 ] }"),
        ("@a:>5", "{ k:61 i:10 }"),
        ("@a:>5", "{ k:61 b:3130 }"),
        ("@a:[1 TO 2}", "{ k:61 i:1 }"),
        ("@a[99999999999999999999]:x", "{ }"),
    ];
    for (q, e) in fixed {
        sink.emit("c31.match", &[hs(q), (*e).to_string()]);
        sink.emit("o.c31", &["leaf".to_string(), hs(q), (*e).to_string()]);
    }
    // exhaustive boolean skeletons up to 2 operators (3 for a sample), each on several (atoms, event) choices
    let mut skels = Vec::new();
    let mut na = 0;
    for k in 0..=2 {
        fm_enum(k, &mut skels, &mut na);
    }
    sink.stats.insert("c31:skeletons_exhaustive_upto_2_ops".into(), skels.len() as u64);
    let reps = (n / 1500).max(1);
    for fm in &skels {
        for _ in 0..reps {
            emit_skel(sink, rng, fm);
        }
    }
    let mut big = Vec::new();
    fm_enum(3, &mut big, &mut na);
    for _ in 0..(n / 8) {
        let fm = rng.pick(&big).clone();
        let fm = vary(rng, fm);
        emit_skel(sink, rng, &fm);
    }
    // leaves: queries × events
    for i in 0..n {
        let q = gen_small_query(rng);
        if !literal_ok(&q) {
            sink.count("c31:literal_not_expressible");
            continue;
        }
        let reps = 1 + rng.below(3);
        for _ in 0..reps {
            let ev = show_value(&gen_event(rng));
            if let Some(r) = sink.emit("c31.match", &[hs(&q), ev.clone()]) {
                sink.count(&format!("c31:result:{}", r.reply));
            }
            sink.emit("o.c31", &["leaf".to_string(), hs(&q), ev]);
        }
        if i % 3 == 0 {
            let attr = *rng.pick(&["@a", "@n", "@a.b", "k", "env", "host", "message", "tags", "", "@x.y", "status"]);
            // bounds that denote the same value inside a range and after a comparison operator
            const SAFE: &[&str] = &["5", "10", "1.5", "abc", "b", "9", "0", "-1", "*", "foo", "z", "2", "prod", "dev", "y", "a", "100"];
            let lo = *rng.pick(SAFE);
            let hi = *rng.pick(SAFE);
            let mut evv = gen_event(rng);
            // boundary: the compared value IS one of the bounds half of the time (inclusive vs exclusive
            // brackets only differ there)
            if rng.chance(1, 2) {
                let bound = if (rng.chance(1, 2) && lo != "*") || hi == "*" { lo } else { hi };
                if bound != "*" {
                    let bv = bound.parse::<i64>().map(Value::Integer).unwrap_or_else(|_| {
                        bound.parse::<f64>().ok().and_then(|f| ordered_float::NotNan::new(f).ok()).map(Value::Float).unwrap_or_else(|| Value::from(bound))
                    });
                    if let Value::Object(m) = &mut evv {
                        match attr {
                            "@a" => { m.insert("a".into(), bv); }
                            "@n" => { m.insert("n".into(), bv); }
                            "host" | "message" | "status" => { m.insert(attr.into(), Value::from(bound)); }
                            "k" | "env" => {
                                let tag = Value::from(format!("{attr}:{bound}"));
                                match m.get_mut("tags") {
                                    Some(Value::Array(t)) => t.push(tag),
                                    _ => { m.insert("tags".into(), Value::Array(vec![tag])); }
                                }
                            }
                            _ => {}
                        }
                    }
                    sink.count("c31:range_boundary_event");
                }
            }
            let ev = show_value(&evv);
            let b = |x: bool| if x { "1".to_string() } else { "0".to_string() };
            // each bracket is inclusive or exclusive on its own (mixed brackets are accepted since /repo 21ebbb7)
            sink.emit("o.c31", &["range".to_string(), hs(attr), hs(lo), hs(hi), b(rng.chance(1, 2)), b(rng.chance(1, 2)), ev]);
        }
    }
}

/// random surface variation of a skeleton (operator spellings)
fn vary(rng: &mut Rng, f: Fm) -> Fm {
    match f {
        Fm::Atom(i) => Fm::Atom(i),
        Fm::Not(g, _) => Fm::Not(Box::new(vary(rng, *g)), rng.below(2) as u8),
        Fm::And(g, h, _) => Fm::And(Box::new(vary(rng, *g)), Box::new(vary(rng, *h)), rng.below(2) as u8),
        Fm::Or(g, h, _) => Fm::Or(Box::new(vary(rng, *g)), Box::new(vary(rng, *h)), rng.below(2) as u8),
        Fm::Juxt(g, h) => Fm::Juxt(Box::new(vary(rng, *g)), Box::new(vary(rng, *h))),
    }
}

fn emit_skel(sink: &mut Sink, rng: &mut Rng, fm: &Fm) {
    let atoms = [gen_small_query(rng), gen_small_query(rng), gen_small_query(rng)];
    let ev = gen_event(rng);
    let text = fm_render(fm, &atoms);
    if !literal_ok(&text) {
        return;
    }
    let evs = show_value(&ev);
    sink.emit("c31.match", &[hs(&text), evs.clone()]);
    sink.emit("o.c31", &["skel".to_string(), fm_show(fm), hs(&atoms[0]), hs(&atoms[1]), hs(&atoms[2]), evs]);
    sink.count("c31:skeleton_cases");
}
