//! C33 – diagnostics are renderable and point into the source.
//!
//! Everything here runs the REAL compiler (`vrl::compiler::compile`) and the real
//! `vrl::diagnostic::Formatter`. Ops:
//!
//! * `o.c33 <x+hex source>` oracle: observations = every diagnostic (errors and warnings) as
//!   `<sev><code>:<start>-<end>,…` joined by `;`, and whether plain / coloured rendering succeeded
//!   (`ok`, `fail` = `fmt::Error`, `panic`). A panic inside `compile` is `panic <site>`.
//!   The Lean driver checks `WF` of every label against the source bytes.
//! * `c33.overwritable <x+hex source>` correspondence for `verify_overwritable`
//!   (src/compiler/expression/assignment.rs): reply = the two label spans of the first E642
//!   diagnostic; the observations after `|` are what the real *parser* says about the failing
//!   assignment (target span, path segments, number of segments left in the parent).
//! * `c33.assignspan <x+hex source>` correspondence for `Assignment::new`'s `assignment_span`.
//! * `c33.lexspan <x+hex source>` correspondence for the lexer's literal errors (E207/8/9/211).
use crate::rng::Rng;
use crate::sink::{guarded, Reply, Sink};
use std::cell::RefCell;
use std::collections::BTreeSet;
use std::fmt::Write as _;
use vrl::diagnostic::{DiagnosticList, Formatter, Severity};
use vrl::parser::ast;
use vrl::path::{OwnedSegment, OwnedValuePath};

// ---------------------------------------------------------------------------------------------
// running the implementation
// ---------------------------------------------------------------------------------------------

thread_local! {
    static FNS: Vec<Box<dyn vrl::compiler::Function>> = vrl::stdlib::all();
    static PANIC_SITE: RefCell<String> = const { RefCell::new(String::new()) };
}

fn install_hook() {
    static ONCE: std::sync::Once = std::sync::Once::new();
    ONCE.call_once(|| {
        std::panic::set_hook(Box::new(|info| {
            let site = info
                .location()
                .map(|l| {
                    let f = l.file();
                    let f = f.rsplit('/').next().unwrap_or(f);
                    format!("{}:{}", f, l.line())
                })
                .unwrap_or_else(|| "unknown".into());
            PANIC_SITE.with(|s| *s.borrow_mut() = site);
        }));
    });
}

#[derive(Clone, Debug, PartialEq, Eq)]
pub struct DiagObs {
    pub sev: char,
    pub code: usize,
    pub labels: Vec<(usize, usize)>,
    pub notes: Vec<String>,
    /// for syntax errors (E203): the unexpected token named by the primary label — part of the identity
    /// of a finding, so that a wrong span of ANOTHER token is not taken for the known one
    pub tag: String,
}

#[derive(Clone, Debug, PartialEq, Eq)]
pub struct Obs {
    /// `Some(site)` when `compile` itself panicked
    pub compile_panic: Option<String>,
    pub diags: Vec<DiagObs>,
    pub render: &'static str,
    pub render_colored: &'static str,
}

fn sev_char(s: Severity) -> char {
    if s.is_error() {
        'e'
    } else if s.is_warning() {
        'w'
    } else if s.is_bug() {
        'b'
    } else {
        'n'
    }
}

fn render(src: &str, diags: &DiagnosticList, colored: bool) -> &'static str {
    let d = diags.clone();
    match guarded(move || {
        let f = Formatter::new(src, d);
        let f = if colored { f.colored() } else { f };
        let mut out = String::new();
        write!(out, "{f}").is_ok()
    }) {
        Ok(true) => "ok",
        Ok(false) => "fail",
        Err(_) => "panic",
    }
}

/// compile `src` with the full stdlib; collect every diagnostic and render them.
pub fn observe(src: &str) -> Obs {
    install_hook();
    let compiled = guarded(|| FNS.with(|fns| vrl::compiler::compile(src, fns)));
    let diags: DiagnosticList = match compiled {
        Err(_) => {
            let site = PANIC_SITE.with(|s| s.borrow().clone());
            return Obs { compile_panic: Some(site), diags: vec![], render: "ok", render_colored: "ok" };
        }
        Ok(Ok(res)) => res.warnings,
        Ok(Err(d)) => d,
    };
    let obs = diags
        .iter()
        .map(|d| DiagObs {
            sev: sev_char(d.severity),
            code: d.code,
            labels: d.labels.iter().map(|l| (l.span.start(), l.span.end())).collect(),
            notes: d.notes.iter().map(ToString::to_string).collect(),
            tag: if d.code == 203 {
                match d.labels.first() {
                    // the marker token closing a query path has its own wording
                    Some(l) if l.message.contains("end of query path") => "RQuery".to_string(),
                    Some(l) => l
                        .message
                        .split('"')
                        .nth(1)
                        .filter(|t| !t.is_empty() && t.chars().all(|c| c.is_ascii_alphanumeric() || c == '_'))
                        .unwrap_or("")
                        .to_string(),
                    None => String::new(),
                }
            } else {
                String::new()
            },
        })
        .collect();
    Obs {
        compile_panic: None,
        diags: obs,
        render: render(src, &diags, false),
        render_colored: render(src, &diags, true),
    }
}

/// Rust-side copy of the classification, used ONLY to drive shrinking and the statistics; the
/// verdict of a run is what the Lean oracle prints.
pub fn classify(src: &str, o: &Obs) -> Option<String> {
    if let Some(site) = &o.compile_panic {
        return Some(format!("panic:{site}"));
    }
    if o.render == "panic" || o.render_colored == "panic" {
        return Some("render:panic".into());
    }
    if o.render == "fail" || o.render_colored == "fail" {
        return Some("render:render_failed".into());
    }
    for d in &o.diags {
        for &(s, e) in &d.labels {
            let clause = if s > e {
                "reversed"
            } else if e > src.len() {
                "past_end"
            } else if !src.is_char_boundary(s) || !src.is_char_boundary(e) {
                "split_char"
            } else {
                continue;
            };
            let tag = if d.tag.is_empty() { String::new() } else { format!(":{}", d.tag) };
            return Some(format!("span:E{}:{clause}{tag}", d.code));
        }
    }
    None
}

pub fn hex(b: &[u8]) -> String {
    let mut s = String::with_capacity(1 + 2 * b.len());
    s.push('x');
    for x in b {
        write!(s, "{x:02x}").unwrap();
    }
    s
}

pub fn unhex(s: &str) -> Option<Vec<u8>> {
    let s = s.strip_prefix('x')?;
    if s.len() % 2 != 0 {
        return None;
    }
    (0..s.len() / 2).map(|i| u8::from_str_radix(s.get(2 * i..2 * i + 2)?, 16).ok()).collect()
}

fn src_of(arg: &str) -> Option<String> {
    String::from_utf8(unhex(arg)?).ok()
}

fn show_diags(o: &Obs) -> String {
    if o.diags.is_empty() {
        return "-".into();
    }
    o.diags
        .iter()
        .map(|d| {
            let ls: Vec<String> = d.labels.iter().map(|(s, e)| format!("{s}-{e}")).collect();
            let tag = if d.tag.is_empty() { String::new() } else { format!("/{}", d.tag) };
            format!("{}{}{tag}:{}", d.sev, d.code, ls.join(","))
        })
        .collect::<Vec<_>>()
        .join(";")
}

// ---------------------------------------------------------------------------------------------
// what the real parser says about the last root expression (an assignment)
// ---------------------------------------------------------------------------------------------

struct AssignInfo {
    target: (usize, usize),
    expr_start: usize,
    segments: Vec<OwnedSegment>,
    ident: Option<String>,
}

fn target_info(t: &ast::Node<ast::AssignmentTarget>) -> Option<(Vec<OwnedSegment>, Option<String>)> {
    match t.inner() {
        ast::AssignmentTarget::Noop => Some((vec![], None)),
        ast::AssignmentTarget::Query(q) => match q.target.inner() {
            ast::QueryTarget::Internal(id) => Some((q.path.inner().segments.clone(), Some(id.to_string()))),
            ast::QueryTarget::External(_) => Some((q.path.inner().segments.clone(), None)),
            _ => None,
        },
        ast::AssignmentTarget::Internal(id, p) => {
            Some((p.clone().unwrap_or_else(OwnedValuePath::root).segments, Some(id.to_string())))
        }
        ast::AssignmentTarget::External(p) => Some((p.clone().map(|p| p.path.segments).unwrap_or_default(), None)),
    }
}

/// the last root expression must be an assignment; for `ok, err = e` the target with a path.
fn last_assignment(src: &str) -> Option<AssignInfo> {
    let prog = guarded(|| vrl::parser::parse(src)).ok()?.ok()?;
    let last = prog.0.last()?;
    let ast::RootExpr::Expr(e) = last.inner() else { return None };
    let ast::Expr::Assignment(a) = e.inner() else { return None };
    match a.inner() {
        ast::Assignment::Single { target, expr, .. } => {
            let (segments, ident) = target_info(target)?;
            Some(AssignInfo { target: (target.start(), target.end()), expr_start: expr.start(), segments, ident })
        }
        ast::Assignment::Infallible { ok, err, expr, .. } => {
            let (so, io) = target_info(ok)?;
            let (se, ie) = target_info(err)?;
            let (t, segments, ident) = match (so.is_empty(), se.is_empty()) {
                (false, true) => (ok, so, io),
                (true, false) => (err, se, ie),
                _ => return None,
            };
            Some(AssignInfo { target: (t.start(), t.end()), expr_start: expr.start(), segments, ident })
        }
    }
}

fn show_segments(segs: &[OwnedSegment]) -> String {
    if segs.is_empty() {
        return "-".into();
    }
    segs.iter()
        .map(|s| match s {
            OwnedSegment::Field(f) => format!("f{}", hex(f.as_bytes())),
            OwnedSegment::Index(i) => format!("i{i}"),
        })
        .collect::<Vec<_>>()
        .join(" ")
}

/// number of segments left in `path` when `verify_overwritable` failed, read off the solution note
/// (`    {parent_str} = {}`): the unique k with Display(segments[..k]) = the path part of parent_str.
fn remaining_segments(d: &DiagObs, info: &AssignInfo) -> Option<usize> {
    let line = d.notes.get(2)?;
    let line = line.strip_prefix("    ")?;
    let parent = line.strip_suffix(" = {}").or_else(|| line.strip_suffix(" = []"))?;
    let rest = match &info.ident {
        Some(id) => parent.strip_prefix(id.as_str())?,
        None => parent.strip_prefix('.')?,
    };
    (0..=info.segments.len()).find(|k| {
        let p = OwnedValuePath { segments: info.segments[..*k].to_vec() };
        p.to_string() == rest
    })
}

// ---------------------------------------------------------------------------------------------
// exec
// ---------------------------------------------------------------------------------------------

pub fn exec(op: &str, a: &[String]) -> Option<Reply> {
    match (op, a) {
        ("o.c33", [h]) => {
            let src = src_of(h)?;
            let o = observe(&src);
            Some(match &o.compile_panic {
                Some(site) => Reply::oracle(vec!["panic".into(), site.clone(), "-".into()]),
                None => Reply::oracle(vec![show_diags(&o), o.render.into(), o.render_colored.into()]),
            })
        }
        ("c33.overwritable", [h]) => {
            let src = src_of(h)?;
            let o = observe(&src);
            let d = o.diags.iter().find(|d| d.code == 642)?;
            let info = last_assignment(&src)?;
            let k = remaining_segments(d, &info)?;
            let [seg, par] = d.labels[..] else { return None };
            Some(Reply {
                obs: vec![
                    format!("{}-{}", info.target.0, info.target.1),
                    show_segments(&info.segments),
                    k.to_string(),
                ],
                reply: format!("{}-{} {}-{}", seg.0, seg.1, par.0, par.1),
            })
        }
        ("c33.assignspan", [h]) => {
            let src = src_of(h)?;
            let o = observe(&src);
            let d = o.diags.iter().find(|d| d.code == 103 || d.code == 640)?;
            let info = last_assignment(&src)?;
            let l = d.labels.last()?;
            Some(Reply {
                obs: vec![format!("{}-{}", info.target.0, info.target.1), info.expr_start.to_string()],
                reply: format!("{}-{}", l.0, l.1),
            })
        }
        ("c33.lexspan", [h]) => {
            let src = src_of(h)?;
            let o = observe(&src);
            if o.compile_panic.is_some() {
                return Some(Reply::plain("panic"));
            }
            Some(Reply::plain(match o.diags.first() {
                Some(d) if matches!(d.code, 207 | 208 | 209 | 211) && d.labels.len() == 1 => {
                    format!("err {} {}-{}", d.code, d.labels[0].0, d.labels[0].1)
                }
                _ => "ok".into(),
            }))
        }
        _ => None,
    }
}

// ---------------------------------------------------------------------------------------------
// command line probe: `vrl-verif-harness c33 <file>` – one source per line (\n, \t, \\ escaped)
// ---------------------------------------------------------------------------------------------

pub fn unescape_line(l: &str) -> String {
    let mut out = String::new();
    let mut it = l.chars();
    while let Some(c) = it.next() {
        if c == '\\' {
            match it.next() {
                Some('n') => out.push('\n'),
                Some('t') => out.push('\t'),
                Some('\\') => out.push('\\'),
                Some(o) => {
                    out.push('\\');
                    out.push(o)
                }
                None => out.push('\\'),
            }
        } else {
            out.push(c);
        }
    }
    out
}

pub fn cli(args: &[String]) {
    if args[0] == "sweep" {
        for ctx_src in SWEEP_CONTEXTS {
            for (setup, e) in SWEEP_EXPRS {
                let s = format!("{setup}{}", ctx_src.replace('@', e));
                let o = observe(&s);
                println!("{:<60} {} {:?}", printable(&s), show_diags(&o), classify(&s, &o));
            }
        }
        return;
    }
    let text = std::fs::read_to_string(&args[0]).expect("file");
    for l in text.lines() {
        let src = unescape_line(l);
        let o = observe(&src);
        println!("{:?} len={}", src, src.len());
        println!(
            "   {} render={}/{} panic={:?} class={:?}",
            show_diags(&o),
            o.render,
            o.render_colored,
            o.compile_panic,
            classify(&src, &o)
        );
        if args.len() > 1 {
            for d in &o.diags {
                println!("   notes {:?}", d.notes);
            }
            if let Some(r) = exec("c33.overwritable", &[hex(src.as_bytes())]) {
                println!("   overwritable obs={:?} reply={}", r.obs, r.reply);
            }
        }
    }
}

// ---------------------------------------------------------------------------------------------
// source generators
// ---------------------------------------------------------------------------------------------

const MULTI: &[char] = &['é', '们', '😀', '\u{2003}', '\u{a0}', '\u{3000}', 'ß', '\u{feff}', '\u{301}'];
const PUNCT: &[char] = &[
    '"', '\'', '\\', '.', '%', '{', '}', '[', ']', '(', ')', '#', '\n', ' ', '=', '|', '!', '?', ',', ':', ';', '-', '_',
    '@', '+', '*', '/', '<', '>', '&', 'r', 's', 't', 'u', 'n', '0', '1', '9', 'a', 'x', '\t',
];

fn walk_vrl(dir: &std::path::Path, out: &mut Vec<std::path::PathBuf>) {
    let Ok(rd) = std::fs::read_dir(dir) else { return };
    let mut es: Vec<_> = rd.filter_map(Result::ok).map(|e| e.path()).collect();
    es.sort();
    for p in es {
        if p.is_dir() {
            walk_vrl(&p, out);
        } else if p.extension().is_some_and(|e| e == "vrl") {
            out.push(p);
        }
    }
}

/// (a) the programs of the repo's own test-suite and every stdlib example source
pub fn base_sources() -> (Vec<String>, Vec<String>) {
    let mut files = Vec::new();
    walk_vrl(std::path::Path::new("/repo/lib/tests/tests"), &mut files);
    let tests: Vec<String> = files.iter().filter_map(|p| std::fs::read_to_string(p).ok()).collect();
    let mut examples = Vec::new();
    for f in vrl::stdlib::all() {
        for e in f.examples() {
            examples.push(e.source.to_string());
        }
    }
    (tests, examples)
}

fn rand_char(rng: &mut Rng) -> char {
    match rng.below(10) {
        0..=3 => *rng.pick(MULTI),
        4..=8 => *rng.pick(PUNCT),
        _ => char::from_u32(rng.below(0x2fff) as u32 + 1).unwrap_or('x'),
    }
}

/// char indices of "interesting" position classes of a source text
struct Classes {
    in_string: Vec<usize>,
    after_backslash: Vec<usize>,
    in_comment: Vec<usize>,
    in_path: Vec<usize>,
    in_ident: Vec<usize>,
    after_eq: Vec<usize>,
}

fn position_classes(cs: &[char]) -> Classes {
    let mut c = Classes { in_string: vec![], after_backslash: vec![], in_comment: vec![], in_path: vec![], in_ident: vec![], after_eq: vec![] };
    let (mut in_str, mut in_com) = (false, false);
    let mut i = 0;
    while i < cs.len() {
        let ch = cs[i];
        if in_com {
            if ch == '\n' {
                in_com = false;
            } else {
                c.in_comment.push(i);
            }
        } else if in_str {
            c.in_string.push(i);
            if ch == '\\' {
                c.after_backslash.push(i + 1);
                i += 1;
            } else if ch == '"' {
                in_str = false;
            }
        } else {
            match ch {
                '"' => in_str = true,
                '#' => in_com = true,
                '.' | '%' | '[' => c.in_path.push(i + 1),
                '=' => c.after_eq.push(i + 1),
                _ if ch.is_ascii_alphanumeric() || ch == '_' => c.in_ident.push(i),
                _ => {}
            }
        }
        i += 1;
    }
    c
}

fn pick_pos(rng: &mut Rng, v: &[usize], len: usize) -> usize {
    if v.is_empty() { rng.below(len as u64 + 1) as usize } else { (*rng.pick(v)).min(len) }
}

const NASTY_FIELDS: &[&str] = &[
    "\"é\\n\"", "\"é\\n\\n\"", "\"们\\t\\t\\t\"", "\"a b\"", "\"\"", "\"\\\"\"", "\"\\\\\"", "\"\\u{1F600}\"", "\"😀\\u{e9}\"",
    "\"{{x}}\"", "\"a\"", "\"x{{ y }}z\"", "\"\\{{a\\}}\"", "\"1\"", "\"a.b\"", "\"\\\n   z\"", "\"é\"", "\"\\0\\0\\0们\"",
];

/// (b) one byte-/char-/token-level mutation of `src`; returns the bucket name
fn mutate(rng: &mut Rng, src: &str, pool: &[String]) -> (String, &'static str) {
    let mut cs: Vec<char> = src.chars().collect();
    let n = cs.len();
    let cl = position_classes(&cs);
    let kind = rng.below(16);
    let bucket = match kind {
        0 if n > 0 => {
            cs.remove(rng.below(n as u64) as usize);
            "delete"
        }
        1 if n > 0 => {
            let i = rng.below(n as u64) as usize;
            cs.insert(i, cs[i]);
            "duplicate"
        }
        2 if n > 0 => {
            let i = rng.below(n as u64) as usize;
            cs[i] = rand_char(rng);
            "replace"
        }
        3 => {
            let i = rng.below(n as u64 + 1) as usize;
            cs.insert(i, *rng.pick(MULTI));
            "insert_multibyte"
        }
        4 => {
            let i = pick_pos(rng, &cl.in_string, n);
            cs.insert(i, *rng.pick(MULTI));
            "insert_multibyte_in_string"
        }
        5 => {
            let i = pick_pos(rng, &cl.in_path, n);
            for (k, ch) in rng.pick(NASTY_FIELDS).chars().enumerate() {
                cs.insert(i + k, ch);
            }
            "insert_quoted_field_in_path"
        }
        6 => {
            let i = pick_pos(rng, &cl.in_ident, n);
            cs.insert(i, *rng.pick(MULTI));
            "insert_multibyte_in_ident"
        }
        7 => {
            let i = pick_pos(rng, &cl.in_comment, n);
            cs.insert(i, *rng.pick(MULTI));
            "insert_multibyte_in_comment"
        }
        8 => {
            let i = pick_pos(rng, &cl.after_eq, n);
            cs.insert(i, *rng.pick(&['\u{2003}', '\u{a0}', '\u{3000}', '\u{2028}']));
            "unicode_space_after_eq"
        }
        9 => {
            let v = match rng.below(4) {
                0 => &cl.in_string,
                1 => &cl.after_backslash,
                2 => &cl.in_comment,
                _ => &cl.in_path,
            };
            let i = pick_pos(rng, v, n);
            cs.truncate(i);
            "truncate_in_class"
        }
        10 => {
            cs.truncate(rng.below(n as u64 + 1) as usize);
            "truncate_random"
        }
        11 => {
            let i = pick_pos(rng, &cl.in_string, n);
            cs.insert(i, '\\');
            if rng.chance(1, 2) {
                cs.insert(i + 1, rand_char(rng));
            }
            "insert_backslash_in_string"
        }
        12 => {
            // token-level: splice a random slice of another program in
            let other: Vec<char> = rng.pick(pool).chars().collect();
            if !other.is_empty() {
                let a = rng.below(other.len() as u64) as usize;
                let b = (a + 1 + rng.below(12) as usize).min(other.len());
                let i = rng.below(n as u64 + 1) as usize;
                for (k, ch) in other[a..b].iter().enumerate() {
                    cs.insert(i + k, *ch);
                }
            }
            "splice"
        }
        13 if n > 1 => {
            // delete a token-ish run
            let a = rng.below(n as u64) as usize;
            let b = (a + 1 + rng.below(6) as usize).min(n);
            cs.drain(a..b);
            "delete_run"
        }
        14 => {
            let i = rng.below(n as u64 + 1) as usize;
            cs.insert(i, *rng.pick(PUNCT));
            "insert_punct"
        }
        _ => {
            let i = pick_pos(rng, &cl.in_string, n);
            for (k, ch) in rng.pick(&["{{ x }}", "{{x}}", "{{", "}}", "{{ é }}", "\\u{", "\\u{110000}", "\\u{}", "\\u{D800}"]).chars().enumerate() {
                cs.insert(i + k, ch);
            }
            "insert_template_or_escape"
        }
    };
    (cs.into_iter().collect(), bucket)
}

fn nasty_segment(rng: &mut Rng) -> String {
    match rng.below(12) {
        0..=4 => format!(".{}", rng.pick(NASTY_FIELDS)),
        5 => (*rng.pick(NASTY_FIELDS)).to_string(), // no dot
        6 => format!(".{}", rng.pick(&["a", "b1", "@t", "if", "null", "1a", "_", "foo_bar"])),
        7 => format!("[{}]", rng.pick(&["0", "1", "-1", "10", "-0", "1_0", "007", " 1 ", "99999", "-12"])),
        _ => {
            // random quoted field from an alphabet of escapes and multi-byte characters
            let mut s = String::from(".\"");
            for _ in 0..rng.below(6) {
                s.push_str(*rng.pick(&["a", "é", "们", "😀", "\\n", "\\t", "\\\\", "\\\"", "\\u{e9}", "\\u{1F600}", " ", "{{x}}", "\\0", "."]));
            }
            s.push('"');
            s
        }
    }
}

/// (c) an assignment through a parent that is not a container: triggers E642 / verify_overwritable
fn overwritable_source(rng: &mut Rng) -> String {
    let root = *rng.pick(&[".a", "x", ".", "%m", ".\"é\"", "foo_1"]);
    let scalar = *rng.pick(&["1", "\"s\"", "true", "[1]", "{}", "{\"b\": 1}", "[{}]", "null", "1.5"]);
    let mut target = String::from(root);
    let nseg = 1 + rng.below(3);
    for _ in 0..nseg {
        target.push_str(&nasty_segment(rng));
    }
    if root == "." {
        // `..a` is not a path: drop the doubled dot
        target = target.replacen("..", ".", 1);
    }
    let sep = *rng.pick(&["\n", ";", "\n\n", " ;\n "]);
    let eq = *rng.pick(&[" = ", "=", " =\u{2003}", " |= ", "  =  ", " =\n "]);
    let lead = *rng.pick(&["", "", "# 们\n", "é = 0\n"]);
    let root_setup = if root == "%m" { ".m" } else { root };
    match rng.below(6) {
        0 => format!("{lead}{root_setup} = {scalar}{sep}{target}, err{eq}to_int(.x)"),
        1 => format!("{lead}{root_setup} = {scalar}{sep}ok, {target}{eq}to_int(.x)"),
        _ => format!("{lead}{root_setup} = {scalar}{sep}{target}{eq}2"),
    }
}

/// sources for `Assignment::new`'s assignment_span (E103 fallible assignment, E640 no-op)
fn assignspan_source(rng: &mut Rng) -> String {
    let target = *rng.pick(&["x", ".a", ".a.b", "_", "foo", ".\"é\"", "%m"]);
    let eq = *rng.pick(&[" = ", "=", " =\u{2003}", " |= ", "  =  ", " =\n ", " = \u{a0}", " =\t", " =\u{3000}\u{3000}"]);
    let rhs = if target == "_" { "1" } else { *rng.pick(&["to_int(.x)", "parse_json(.m)", "(.a + 1)", "to_int(\"é\")"]) };
    let lead = *rng.pick(&["", "", "# 们\n", "é = 0\n", "y = 1; "]);
    format!("{lead}{target}{eq}{rhs}")
}

/// sources whose first token is a (possibly malformed) string / quoted literal, optionally inside a
/// delimited region of a query (nested lexer of `query_start`)
fn lexspan_source(rng: &mut Rng) -> String {
    let prefix = *rng.pick(&["", "", "", "[ ", "{ ", "f( ", "s", "r", "t"]);
    let mut s = String::from(prefix);
    let q = if matches!(prefix, "s" | "r" | "t") { '\'' } else { '"' };
    s.push(q);
    for _ in 0..rng.below(8) {
        match rng.below(12) {
            0 | 1 => s.push('\\'),
            2 => s.push_str(*rng.pick(&["\\n", "\\t", "\\\\", "\\\"", "\\'", "\\0", "\\{", "\\}", "\\\n"])),
            3 => s.push_str(*rng.pick(&["\\u{e9}", "\\u{1F600}", "\\u{}", "\\u{110000}", "\\u{D800}", "\\u{12", "\\u{1g}", "\\u", "\\u{们}", "\\ué", "\\u{1234567}"])),
            4 | 5 => s.push(*rng.pick(MULTI)),
            6 => s.push_str(*rng.pick(&["\\é", "\\们", "\\😀", "\\q", "\\ "])),
            _ => s.push(*rng.pick(&['a', 'b', ' ', '.', '{', '}', 'u', '1', '\n'])),
        }
    }
    if rng.chance(1, 2) {
        s.push(q);
    }
    s
}

/// template strings: segment spans are computed from CHARACTER counts and added to a byte offset
fn template_source(rng: &mut Rng) -> String {
    let mut lit = String::new();
    for _ in 0..1 + rng.below(5) {
        lit.push_str(*rng.pick(&[
            "é", "们", "😀", "a", " ", "{{ x }}", "{{x}}", "{{ y }}", "{{ undefined_var }}", "\\n", "\\u{e9}", "{{ é }}", "{{", "}}", "\\{{ x \\}}",
        ]));
    }
    let lit = lit.replace("\\\\", "\\");
    let setup = *rng.pick(&["", "x = 1\n", "x = \"s\"\n", "x = .a\n", "y = \"é\"; x = y\n", "# 们\nx = \"a\"\n"]);
    match rng.below(6) {
        0 => format!("{setup}\"{lit}\""),
        1 => format!("{setup}upcase(\"{lit}\")"),
        2 => format!("{setup}.a = \"{lit}\""),
        3 => format!("{setup}.a.\"{lit}\" = 1"),
        4 => format!("{setup}{{ \"{lit}\": 1 }}"),
        _ => format!("{setup}to_int(\"{lit}\") + 1"),
    }
}

/// queries whose last character (for the lexer's `query_start` look-ahead) is multi-byte: the
/// `RQuery` marker token gets the span `(end, end + 1)`
fn query_source(rng: &mut Rng) -> String {
    let head = *rng.pick(&[".a", "x.b", "{\"a\": 1}.a", "[1][0]", "f(1).a", ".a[0]", "%m.k", "t", ".", "%", "s", "to_int(.a).b"]);
    let tail = *rng.pick(&[
        "#é", "#é\n", "{é", "[é", "(é", "{ é }", "[ é ]", "{\"é\"}", ".\"é\"", "[\"é\"]", "#们\n.b", "[é\n", ".é", "é", "[0]#😀", "(\"é\")", "{ # é\n }", "[ 0 # é\n ]",
    ]);
    let suffix = *rng.pick(&["", "", " = 1", "\n1", " + 1", "\n", " ?? 1", ", err = to_int(.x)"]);
    let prefix = *rng.pick(&["", "", "x = ", "del(", "y = 1\n", "if true { ", "[", "é = "]);
    format!("{prefix}{head}{tail}{suffix}")
}

const SWEEP_EXPRS: &[(&str, &str)] = &[
    ("", "\"é{{ zz }}\""),
    ("x = \"s\"\n", "\"😀😀😀{{ x }}\""),
    ("x = 1\n", "\"😀😀😀{{ x }}\""),
    ("x = .b\n", "\"😀😀😀{{ x }}\""),
    ("x = \"s\"\n", "\"😀😀😀{{ x }}😀😀😀😀\""),
    ("", ".a#é\n"),
    (".a = 1\n", ".a#们\n"),
    (".a = \"s\"\n", ".a#😀\n "),
    ("", "{\"k\": 1}.k#é\n"),
];

const SWEEP_CONTEXTS: &[&str] = &[
    "@", "@\n1", "x = @", "y = @\ny", "if @ { 1 }", "if @ { 1 } else { 2 }", "if true { @ } else { 1 }", "upcase(@)", "upcase!(@)",
    "to_int(@)", "to_int!(@)", "abort @", "return @", "@ ?? 1", "(@ ?? 1)", "@ | {}", "({} | @)", "!@", "!(@)", "a, err = @",
    "a, err = to_int(@)", "@ - 1", "(1 / @)", "(@ + 1)", "foo(@)", "upcase(@, @)", "upcase(valu: @)", "upcase(value: @)", "[@]",
    "{\"k\": @}", "(@ == 1) == 2", "@ = 1", ".a = @", ".z |= @", "del(@)", "exists(@)", "for_each(@) -> |k, v| { 1 }",
    "for_each({}) -> |k, v| { @ }", "map_values({}) -> |v| { @ }", "parse_regex(\"a\", @)", "parse_grok!(\"a\", @)",
    "format_timestamp!(now(), @)", "encode_json(@, pretty: @)", "@; @", "{ @ }\n1", "x = 1; x.a = @", "(false || @)", "(true && @)",
    "(@ > 1)", "(to_string(@) ?? @)", "assert!(@)", "log(@)", "get_env_var!(@)", "string!(@)", "int(@)", "(@ == @)", "[1, 2][@]",
    "_ = @", "ok, err = @", "if (x = @; true) { x }", "parse_json!(@).a", "to_int(@) + 1", "contains(@, @)", "@ * 2", "(@ && true)",
    "merge({}, @)", "push([], @)", "parse_timestamp!(@, @)", "replace(@, r'a', @)", "match(@, r'a')", "now(@)", "uuid_v4(@)",
];

fn random_utf8(rng: &mut Rng) -> String {
    let n = rng.below(40);
    (0..n).map(|_| rand_char(rng)).collect()
}

// ---------------------------------------------------------------------------------------------
// shrinking (delta debugging on characters): smallest source that still has the same class
// ---------------------------------------------------------------------------------------------

pub fn shrink(src: &str, class: &str) -> String {
    let still = |s: &str| classify(s, &observe(s)).as_deref() == Some(class);
    let mut cur: Vec<char> = src.chars().collect();
    let mut chunk = (cur.len() / 2).max(1);
    let mut budget = 600u32;
    loop {
        let mut progressed = false;
        let mut i = 0;
        while i < cur.len() && budget > 0 {
            let j = (i + chunk).min(cur.len());
            let cand: String = cur[..i].iter().chain(cur[j..].iter()).collect();
            budget -= 1;
            if still(&cand) {
                cur.drain(i..j);
                progressed = true;
            } else {
                i += chunk;
            }
        }
        if budget == 0 || (chunk == 1 && !progressed) {
            break;
        }
        if !progressed {
            chunk = (chunk / 2).max(1);
        }
    }
    cur.into_iter().collect()
}

fn printable(s: &str) -> String {
    // must survive `{:?}` + a JSON parser (stats.json): no control / format / odd-space characters
    let mut out = String::new();
    for c in s.chars() {
        match c {
            '\n' => out.push_str("\\n"),
            '\t' => out.push_str("\\t"),
            '\\' => out.push_str("\\\\"),
            c if c.is_ascii_graphic() || c == ' ' || c.is_alphanumeric() || c == '😀' => out.push(c),
            c => write!(out, "<U+{:04X}>", c as u32).unwrap(),
        }
    }
    out
}

/// a `[` followed by an integer literal of 6+ digits
pub fn has_huge_index(src: &str) -> bool {
    let b = src.as_bytes();
    let mut i = 0;
    while i < b.len() {
        if b[i] == b'[' {
            let mut j = i + 1;
            while j < b.len() && (b[j] == b' ' || b[j] == b'-' || b[j] == b'\n' || b[j] == b'\t') {
                j += 1;
            }
            let mut digits = 0;
            while j < b.len() && (b[j].is_ascii_digit() || b[j] == b'_') {
                if b[j] != b'_' {
                    digits += 1;
                }
                j += 1;
            }
            if digits >= 6 {
                return true;
            }
        }
        i += 1;
    }
    false
}

struct Ctx {
    seen: BTreeSet<String>,
}

fn emit_oracle(sink: &mut Sink, ctx: &mut Ctx, src: &str, bucket: &str) {
    if has_huge_index(src) {
        // `.a[99999999] = 1` makes the compiler materialise a 10^8-element array (memory exhaustion,
        // out of scope of C04/C33): such sources are not run, only counted
        sink.count("c33:skipped:huge_index");
        return;
    }
    let h = hex(src.as_bytes());
    if sink.emit("o.c33", &[h]).is_none() {
        return;
    }
    sink.count(&format!("c33:src:{bucket}"));
    let o = observe(src);
    if o.diags.is_empty() && o.compile_panic.is_none() {
        sink.count("c33:outcome:accepted_no_warnings");
    } else if o.diags.iter().all(|d| d.sev == 'w') && o.compile_panic.is_none() {
        sink.count("c33:outcome:accepted_with_warnings");
    } else {
        sink.count("c33:outcome:rejected");
    }
    for d in &o.diags {
        sink.count(&format!("c33:diag:E{}", d.code));
    }
    if let Some(class) = classify(src, &o) {
        sink.count(&format!("c33:class:{class}"));
        if ctx.seen.insert(class.clone()) {
            let small = shrink(src, &class);
            sink.count(&format!("c33:min:{class}: {}", printable(&small)));
            if sink.emit("o.c33", &[hex(small.as_bytes())]).is_some() {
                sink.count("c33:src:shrunk");
            }
        }
    }
}

fn emit_corr(sink: &mut Sink, op: &str, src: &str) {
    if has_huge_index(src) {
        return;
    }
    match sink.emit(op, &[hex(src.as_bytes())]) {
        Some(r) => {
            let k = if r.reply == "ok" { "ok" } else { "span" };
            sink.count(&format!("{op}:{k}"));
        }
        None => sink.count(&format!("{op}:not_applicable")),
    }
}

pub fn generate(sink: &mut Sink, rng: &mut Rng, n: u64) {
    let mut ctx = Ctx { seen: BTreeSet::new() };
    let (tests, examples) = base_sources();
    sink.stats.insert("c33:base:test_programs".into(), tests.len() as u64);
    sink.stats.insert("c33:base:stdlib_examples".into(), examples.len() as u64);
    let mut pool: Vec<String> = tests.clone();
    pool.extend(examples.iter().cloned());

    // fixed edge cases first
    for s in [
        "", " ", "\n", "é", "\"", "\\", ".", "%", "[ \"", "{ \"", "f( \"", "\"www.\\们", "\"\\", "\"abc", "s'", "r'\\", ".a#们",
        "\"é{{ foo }}\"", "x =\u{2003}to_int(.a)", "_ =\u{2003}1", ".a = 1\n.a.\"é\\n\\n\" = 2", "x = 1\nx.\"{{x}}\" = 2",
        ".foo{😀 '", ".a.", ".a[", "x = ", "\u{feff}.a = 1",
    ] {
        emit_oracle(sink, &mut ctx, s, "edge");
    }
    // systematic sweep: every context × every expression whose span is known to be computed wrongly
    // (template strings: char counts added to byte offsets; queries ended by a comment whose last
    // character is multi-byte: `RQuery = (end, end + 1)`), so that the set of (code, clause) classes
    // observed does not depend on the seed
    for ctx_src in SWEEP_CONTEXTS {
        for (setup, e) in SWEEP_EXPRS {
            let s = format!("{setup}{}", ctx_src.replace('@', e));
            emit_oracle(sink, &mut ctx, &s, "sweep");
        }
    }
    // (a) unmodified programs: once per run
    for s in &tests {
        emit_oracle(sink, &mut ctx, s, "test_program");
    }
    for s in &examples {
        emit_oracle(sink, &mut ctx, s, "stdlib_example");
    }
    // n = number of generated cases; split over the streams
    for i in 0..n {
        match i % 20 {
            8 => {
                let s = template_source(rng);
                emit_oracle(sink, &mut ctx, &s, "template");
            }
            9 => {
                let s = query_source(rng);
                emit_oracle(sink, &mut ctx, &s, "query_tail");
            }
            // (b) mutations of (a), sometimes stacked
            0..=7 => {
                let base = rng.pick(&pool).clone();
                let (mut s, bucket) = mutate(rng, &base, &pool);
                let mut b = bucket;
                if rng.chance(1, 4) {
                    let (s2, _) = mutate(rng, &s, &pool);
                    s = s2;
                    b = "stacked";
                }
                emit_oracle(sink, &mut ctx, &s, &format!("mut:{b}"));
            }
            // (c) generated programs with injected type errors
            10 | 11 => {
                let prog = {
                    let mut g = crate::lang::Gen::new(rng);
                    g.program()
                };
                let inj = overwritable_source(rng);
                let s = if rng.chance(1, 2) { format!("{prog}\n{inj}") } else { format!("{inj}\n{prog}") };
                let s = if rng.chance(1, 3) { mutate(rng, &s, &pool).0 } else { s };
                emit_oracle(sink, &mut ctx, &s, "lang_gen_injected");
            }
            12 | 13 => {
                let s = overwritable_source(rng);
                emit_oracle(sink, &mut ctx, &s, "overwritable");
                emit_corr(sink, "c33.overwritable", &s);
            }
            14 => {
                let s = assignspan_source(rng);
                emit_oracle(sink, &mut ctx, &s, "assignspan");
                emit_corr(sink, "c33.assignspan", &s);
            }
            15 | 16 => {
                let s = lexspan_source(rng);
                emit_oracle(sink, &mut ctx, &s, "lexspan");
                emit_corr(sink, "c33.lexspan", &s);
            }
            17 => {
                // mutated generated program
                let prog = {
                    let mut g = crate::lang::Gen::new(rng);
                    g.program()
                };
                let (s, _) = mutate(rng, &prog, &pool);
                emit_oracle(sink, &mut ctx, &s, "lang_gen_mutated");
            }
            // (d) random UTF-8
            _ => {
                let s = random_utf8(rng);
                emit_oracle(sink, &mut ctx, &s, "random_utf8");
            }
        }
    }
}
