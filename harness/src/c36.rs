//! C36 – timezone independence (placeholder, filled below)
use crate::rng::Rng;
use crate::sink::{Reply, Sink};
pub fn exec(_op: &str, _a: &[String]) -> Option<Reply> { None }
pub fn generate(_sink: &mut Sink, _rng: &mut Rng, _n: u64) {}
