//! C36 – results are independent of the configured timezone where they should be (BEHAVIOURAL check).
//!
//! `o.c36 <tag> <mode> <hex source> <event> <tzA> <tzB>`
//!     compiles the source with the real compiler and runs it with `Runtime::resolve` twice under
//!     `tzA` (determinism) and once under `tzB`; observations: the stdlib functions the source calls,
//!     `deterministic`, `equal` (outcome incl. error text, final event and metadata). The Lean driver
//!     decides from its hand-written list `TzModel.tzReaders` whether a difference is allowed
//!     (`mode` auto), forbidden (`explicit`: explicit `timezone:` argument / explicit offset) or
//!     required (`sensitive`: zone-less input to a listed reader, zones with different offsets).
//! `c36.parse_timestamp <hex value> <hex format> <timezone arg|-> <ctx tz>`
//!     the stdlib glue of `parse_timestamp` against `TzModel.parseTimestampFn` (chrono observed as in C35).
//! `c36.readers`  the files of /repo/src/stdlib that mention `timezone()` outside tests (source grep),
//!     against the model's hand-written list.
use crate::c35;
use crate::lang;
use crate::rng::Rng;
use crate::sink::{guarded, Reply, Sink};
use crate::vrlrun::{self, Outcome};
use crate::wire::*;
use std::collections::BTreeSet;
use vrl::compiler::value::kind;
use vrl::compiler::TimeZone;
use vrl::value::Value;

/// (tzA, tzB): UTC, a fixed +05:30 zone, a DST zone, a half-hour DST zone, the system zone
pub const TZ_PAIRS: &[(&str, &str)] = &[
    ("UTC", "Asia/Kolkata"),
    ("UTC", "Europe/Paris"),
    ("America/St_Johns", "UTC"),
    ("local", "Asia/Kolkata"),
    ("Europe/Paris", "America/St_Johns"),
];

/// nondeterministic or environment/network dependent by design: exempt by name
const EXEMPT: &[&str] = &[
    "now", "random_bool", "random_bytes", "random_float", "random_int", "uuid_v4", "uuid_v7", "get_hostname",
    "get_env_var", "http_request", "dns_lookup", "reverse_dns",
];
/// not called with synthesised arguments (known non-termination / pathological cost on edge
/// arguments, findings of C05; output side effects); their shipped examples still run
const NO_SYNTH: &[&str] = &["zip", "format_number", "encode_zstd", "log", "assert", "assert_eq", "unflatten", "sleep"];

fn summary(r: &vrlrun::RunResult) -> String {
    let out = match &r.outcome {
        Outcome::Ok(v) => format!("ok {}", show_value(v)),
        Outcome::Error(e) => format!("error {e}"),
        Outcome::Abort(m) => format!("abort {m:?}"),
        Outcome::Panic(_) => "panic".to_string(),
    };
    format!("{out}\u{1}{}\u{1}{}", show_value(&r.event), show_value(&r.metadata))
}

fn stdlib_names() -> BTreeSet<&'static str> {
    vrl::stdlib::all().iter().map(|f| f.identifier()).collect()
}

/// stdlib functions a source text calls (`ident(` / `ident!(`), in order of first occurrence
pub fn calls_of(src: &str) -> Vec<String> {
    let names = stdlib_names();
    let b = src.as_bytes();
    let mut out: Vec<String> = Vec::new();
    let mut i = 0;
    while i < b.len() {
        if b[i].is_ascii_lowercase() || b[i] == b'_' {
            let start = i;
            while i < b.len() && (b[i].is_ascii_alphanumeric() || b[i] == b'_') {
                i += 1;
            }
            let id = &src[start..i];
            let mut j = i;
            if j < b.len() && b[j] == b'!' {
                j += 1;
            }
            let prev_ok = start == 0 || !(b[start - 1].is_ascii_alphanumeric() || b[start - 1] == b'.' || b[start - 1] == b'%' || b[start - 1] == b'@');
            if prev_ok && j < b.len() && b[j] == b'(' && names.contains(id) && !out.iter().any(|x| x == id) {
                out.push(id.to_string());
            }
        } else {
            i += 1;
        }
    }
    out
}

fn run_under(program: &vrl::compiler::Program, event: &Value, tz: &TimeZone) -> String {
    let r = vrlrun::run_program(program, event.clone(), Value::Object(Default::default()), vec![], tz);
    summary(&r)
}

pub fn exec(op: &str, a: &[String]) -> Option<Reply> {
    match (op, a) {
        ("o.c36", [_tag, _mode, src, event, tza, tzb]) => {
            let src = String::from_utf8(unhex(src)?).ok()?;
            let event = parse_value(event)?;
            let (tza, tzb) = (c35::tz_of(tza)?, c35::tz_of(tzb)?);
            let program = vrlrun::compile(&src).ok()?;
            let a1 = run_under(&program, &event, &tza);
            let a2 = run_under(&program, &event, &tza);
            let b1 = run_under(&program, &event, &tzb);
            let det = a1 == a2;
            let equal = a1 == b1;
            Some(Reply::oracle(vec![
                calls_of(&src).join(","),
                if det { "1".into() } else { "0".into() },
                if equal { "1".into() } else { "0".into() },
            ]))
        }
        ("c36.parse_timestamp", [value, format, tzarg, ctx]) => {
            let value_b = unhex(value)?;
            let format_s = String::from_utf8(unhex(format)?).ok()?;
            let ctx_tz = c35::tz_of(ctx)?;
            let src = if tzarg == "-" { "parse_timestamp!(.v, format: .f)" } else { "parse_timestamp!(.v, format: .f, timezone: .t)" };
            let program = vrlrun::compile(src).ok()?;
            let mut ev = vrl::value::ObjectMap::new();
            ev.insert("v".into(), Value::Bytes(value_b.clone().into()));
            ev.insert("f".into(), Value::Bytes(format_s.clone().into()));
            if tzarg != "-" {
                ev.insert("t".into(), Value::Bytes(tzarg.clone().into()));
            }
            let r = vrlrun::run_program(&program, Value::Object(ev), Value::Object(Default::default()), vec![], &ctx_tz);
            let reply = match &r.outcome {
                Outcome::Ok(v) => format!("ok {}", show_value(v)),
                Outcome::Error(_) | Outcome::Abort(_) => "error".to_string(),
                Outcome::Panic(_) => "panic".to_string(),
            };
            // observations: chrono's results for the conversion the glue should build (computed by
            // calling chrono directly, as in C35), and whether the `timezone:` text names a zone
            let obs = if tzarg != "-" && c35::tz_of_arg(tzarg).is_none() {
                "TZ=bad".to_string()
            } else {
                let eff = if tzarg == "-" { ctx.clone() } else { c35::tz_name(&c35::tz_of_arg(tzarg)?) };
                c35::timestamp_observations(&format_s, &value_b, &eff)
            };
            Some(Reply { obs: vec![obs], reply })
        }
        ("c36.readers", []) => {
            // non-test code of every stdlib module
            let mut files: Vec<(String, String)> = Vec::new();
            let rd = std::fs::read_dir("/repo/src/stdlib").ok()?;
            for e in rd.filter_map(Result::ok) {
                let p = e.path();
                if p.extension().and_then(|x| x.to_str()) != Some("rs") {
                    continue;
                }
                let stem = p.file_stem()?.to_str()?.to_string();
                if stem == "mod" {
                    continue;
                }
                let Ok(text) = std::fs::read_to_string(&p) else { continue };
                files.push((stem, text.split("#[cfg(test)]").next().unwrap_or("").to_string()));
            }
            // readers: mention `.timezone()`, or (transitively) use the implementation of a reader module
            let mut names: Vec<String> = files.iter().filter(|(_, c)| c.contains(".timezone()")).map(|(n, _)| n.clone()).collect();
            loop {
                let more: Vec<String> = files
                    .iter()
                    .filter(|(n, c)| !names.contains(n) && names.iter().any(|r| c.contains(&format!("super::{r}::"))))
                    .map(|(n, _)| n.clone())
                    .collect();
                if more.is_empty() {
                    break;
                }
                names.extend(more);
            }
            names.sort();
            Some(Reply::plain(names.join(",")))
        }
        _ => None,
    }
}

// ---------------------------------------------------------------------------------------------
// generation

fn emit(sink: &mut Sink, tag: &str, mode: &str, src: &str, event: &Value) {
    if vrlrun::compile(src).is_err() {
        sink.count("c36:rejected_by_compiler");
        return;
    }
    for (a, b) in TZ_PAIRS {
        if mode == "sensitive" && (*a == "local" || *b == "local") {
            // the system zone may coincide with the other zone of the pair
            continue;
        }
        let inputs = [tag.to_string(), mode.to_string(), hex(src.as_bytes()), show_value(event), (*a).to_string(), (*b).to_string()];
        match guarded(|| sink.emit("o.c36", &inputs)) {
            Ok(Some(r)) => {
                let det = r.obs.get(1).map(String::as_str) == Some("1");
                let eq = r.obs.get(2).map(String::as_str) == Some("1");
                sink.count(&format!("c36:{mode}:{}", if !det { "nondeterministic(skipped)" } else if eq { "equal" } else { "differs" }));
            }
            _ => sink.count("c36:not-executable"),
        }
    }
}

const BYTES_POOL: &[&str] = &[
    "2001-02-03 04:05:06",
    "2001-02-03T04:05:06Z",
    "2001-02-03T04:05:06+05:30",
    "10/Oct/2000:13:55:36 -0700",
    "Oct 11 22:14:15",
    "1600000000",
    "%F %T",
    "%Y-%m-%d %H:%M:%S %z",
    "UTC",
    "<34>Oct 11 22:14:15 mymachine su: 'su root' failed",
    "abc",
    "",
    "1d",
    "a=1 t=2001-02-03T04:05:06",
    "{\"t\": \"2001-02-03 04:05:06\"}",
];

fn literal_for(kind_mask: u16, i: usize, p: &vrl::compiler::function::Parameter) -> Option<String> {
    if let Some(vs) = p.enum_variants {
        if !vs.is_empty() {
            return Some(format!("{:?}", vs[i % vs.len()].value));
        }
    }
    let mut opts: Vec<String> = Vec::new();
    if kind_mask & kind::BYTES != 0 {
        opts.push(format!("{:?}", BYTES_POOL[i % BYTES_POOL.len()]));
    }
    if kind_mask & kind::TIMESTAMP != 0 {
        opts.push((*["t'2001-02-03T04:05:06Z'", "t'2021-10-31T00:30:00Z'", "t'1900-01-01T00:00:00Z'"].get(i % 3).unwrap()).to_string());
    }
    if kind_mask & kind::INTEGER != 0 {
        opts.push((*["0", "1", "2", "1600000000"].get(i % 4).unwrap()).to_string());
    }
    if kind_mask & kind::FLOAT != 0 {
        opts.push("1.5".into());
    }
    if kind_mask & kind::BOOLEAN != 0 {
        opts.push(if i % 2 == 0 { "true".into() } else { "false".into() });
    }
    if kind_mask & kind::OBJECT != 0 {
        opts.push("{\"a\": 1, \"t\": t'2001-02-03T04:05:06Z', \"s\": \"2001-02-03 04:05:06\"}".into());
    }
    if kind_mask & kind::ARRAY != 0 {
        opts.push("[1, \"2001-02-03 04:05:06\", t'2001-02-03T04:05:06Z']".into());
    }
    if kind_mask & kind::REGEX != 0 {
        opts.push("r'\\d+'".into());
    }
    if kind_mask & kind::NULL != 0 && opts.is_empty() {
        opts.push("null".into());
    }
    if opts.is_empty() { None } else { Some(opts[(i / 2) % opts.len()].clone()) }
}

/// calls built from `Function::parameters()`: required parameters positionally, optional ones by keyword
fn synth_calls(f: &dyn vrl::compiler::Function, k: usize) -> Vec<String> {
    let params = f.parameters();
    let mut out = Vec::new();
    for i in 0..k {
        let mut args: Vec<String> = Vec::new();
        let mut ok = true;
        for (j, p) in params.iter().enumerate() {
            if p.required {
                match literal_for(p.kind, i + 3 * j, p) {
                    Some(l) => args.push(l),
                    None => ok = false,
                }
            } else if (i + j) % 3 == 0 {
                if let Some(l) = literal_for(p.kind, i + j, p) {
                    args.push(format!("{}: {}", p.keyword, l));
                }
            }
        }
        if ok {
            out.push(format!("{}({})", f.identifier(), args.join(", ")));
        }
    }
    out.sort();
    out.dedup();
    out
}

/// hand-written programs for the listed readers: (tag, mode, source)
pub const READER_PROGRAMS: &[(&str, &str, &str)] = &[
    ("parse_timestamp", "explicit", r#"parse_timestamp!("2001-02-03 04:05:06 +0100", "%F %T %z")"#),
    ("parse_timestamp", "explicit", r#"parse_timestamp!("2001-02-03 04:05:06", "%F %T", timezone: "Asia/Taipei")"#),
    ("parse_timestamp", "explicit", r#"parse_timestamp!("2001-02-03 04:05:06", "%F %T", timezone: "UTC")"#),
    ("parse_timestamp", "explicit", r#"parse_timestamp!("2001-02-03T04:05:06+01:00", "%+")"#),
    ("parse_timestamp", "explicit", r#"parse_timestamp!("2021-10-31 02:30:00 +02:00", "%F %T %:z")"#),
    ("parse_timestamp", "explicit", r#"parse_timestamp!(t'2001-02-03T04:05:06Z', "%F %T")"#),
    ("parse_timestamp", "sensitive", r#"parse_timestamp!("2001-02-03 04:05:06", "%F %T")"#),
    ("parse_timestamp", "sensitive", r#"parse_timestamp!("03/Feb/2001 04:05", "%d/%b/%Y %H:%M")"#),
    ("parse_syslog", "explicit", r#"parse_syslog!(s'<13>1 2020-03-13T20:45:38.119Z dynamicwireless.name non 2426 ID931 [exampleSDID@32473 iut="3"] Try to override the THX port')"#),
    ("parse_syslog", "explicit", r#"parse_syslog!(s'<13>1 2020-03-13T20:45:38.119+05:30 host app 1 ID1 - msg')"#),
    ("parse_syslog", "sensitive", r#"parse_syslog!(s'<34>Oct 11 22:14:15 mymachine su: failed')"#),
    ("parse_common_log", "explicit", r#"parse_common_log!(s'127.0.0.1 bob frank [10/Oct/2000:13:55:36 -0700] "GET /apache_pb.gif HTTP/1.0" 200 2326')"#),
    ("parse_common_log", "explicit", r#"parse_common_log!(s'127.0.0.1 bob frank [2000-10-10T20:55:36Z] "GET /apache_pb.gif HTTP/1.0" 200 2326', "%+")"#),
    ("parse_common_log", "sensitive", r#"parse_common_log!(s'127.0.0.1 bob frank [10/Oct/2000:13:55:36] "GET /apache_pb.gif HTTP/1.0" 200 2326', "%d/%b/%Y:%T")"#),
    ("parse_apache_log", "explicit", r#"parse_apache_log!(s'127.0.0.1 bob frank [10/Oct/2000:13:55:36 -0700] "GET /apache_pb.gif HTTP/1.0" 200 2326', format: "common")"#),
    ("parse_apache_log", "explicit", r#"parse_apache_log!(s'[01/Mar/2021:12:00:19 +0000] [ab:alert] [pid 4803:tid 3814] [client 147.159.108.175:24259] I will bypass the haptic COM bandwidth', "error")"#),
    ("parse_apache_log", "sensitive", r#"parse_apache_log!(s'[Mon Mar 01 12:00:19 2021] [ab:alert] [pid 4803:tid 3814] [client 147.159.108.175:24259] I will bypass the haptic COM bandwidth', "error", timestamp_format: "%a %b %d %H:%M:%S %Y")"#),
    ("parse_nginx_log", "explicit", r#"parse_nginx_log!(s'172.17.0.1 - alice [01/Apr/2021:12:02:31 +0000] "POST /not-found HTTP/1.1" 404 153 "http://localhost/somewhere" "Mozilla/5.0" "2.75"', "combined")"#),
    ("parse_nginx_log", "sensitive", r#"parse_nginx_log!(s'2021/04/01 13:02:31 [error] 31#31: *1 open() "/usr/share/nginx/html/not-found" failed (2: No such file or directory), client: 172.17.0.1, server: localhost, request: "POST /not-found HTTP/1.1", host: "localhost:8081"', "error")"#),
    ("get_timezone_name", "sensitive", "get_timezone_name!()"),
    // formatting: explicit `timezone:` argument, and no argument (UTC) — never the configured zone
    ("format_timestamp", "explicit", r#"format_timestamp!(t'2001-02-03T04:05:06Z', "%F %T %z", timezone: "Europe/Paris")"#),
    ("format_timestamp", "explicit", r#"format_timestamp!(t'2001-02-03T04:05:06Z', "%F %T %z")"#),
    ("format_timestamp", "explicit", r#"format_timestamp!(t'2021-10-31T00:30:00Z', "%c %Z")"#),
    ("to_unix_timestamp", "explicit", r#"to_unix_timestamp(t'2001-02-03T04:05:06Z')"#),
    ("to_string", "explicit", r#"to_string(t'2001-02-03T04:05:06Z')"#),
    ("encode_json", "explicit", r#"encode_json({"t": t'2001-02-03T04:05:06Z'})"#),
    ("from_unix_timestamp", "explicit", r#"from_unix_timestamp!(1600000000)"#),
    ("timestamp_literal", "explicit", r#"t'2001-02-03T04:05:06+05:30'"#),
    ("to_int", "explicit", r#"to_int(t'2001-02-03T04:05:06Z')"#),
];

pub fn generate(sink: &mut Sink, rng: &mut Rng, n: u64) {
    sink.emit("c36.readers", &[]);
    let empty = Value::Object(Default::default());

    // ---- (0) hand-written reader programs: explicit zone/offset must win, zone-less input must react
    for (tag, mode, src) in READER_PROGRAMS {
        emit(sink, tag, mode, src, &empty);
    }

    // ---- (a) EVERY stdlib function: its shipped examples + calls synthesised from parameters()
    let fns = vrl::stdlib::all();
    sink.stats.insert("c36:stdlib_functions".into(), fns.len() as u64);
    for f in &fns {
        let id = f.identifier();
        if EXEMPT.contains(&id) {
            sink.count("c36:functions_exempt_by_name");
            continue;
        }
        sink.count("c36:functions_checked");
        for ex in f.examples() {
            if ex.skip {
                sink.count("c36:examples_skipped(skip flag: external resources)");
                continue;
            }
            if calls_of(ex.source).iter().any(|c| EXEMPT.contains(&c.as_str())) {
                sink.count("c36:examples_skipped(calls an exempt function)");
                continue;
            }
            let event = match ex.input {
                Some(j) => match serde_json::from_str::<Value>(j) {
                    Ok(v) => v,
                    Err(_) => continue,
                },
                None => empty.clone(),
            };
            sink.count("c36:examples");
            emit(sink, id, "auto", ex.source, &event);
        }
        if f.closure().is_some() || NO_SYNTH.contains(&id) {
            sink.count("c36:functions_without_synthesised_calls");
            continue;
        }
        for call in synth_calls(f.as_ref(), if n >= 50_000 { 24 } else { 6 }) {
            // a call whose argument kinds are not exact needs `!`, an exact one must not have it
            let src = if vrlrun::compile(&call).is_ok() {
                call.clone()
            } else {
                call.replacen('(', "!(", 1)
            };
            if vrlrun::compile(&src).is_err() {
                sink.count("c36:synth_rejected_by_compiler");
                continue;
            }
            sink.count("c36:synth_calls");
            emit(sink, id, "auto", &src, &empty);
        }
    }

    // ---- (b) generated programs (language core) under pairs of zones
    let mut accepted = 0;
    let mut tried = 0;
    let want = (n / 20).max(50);
    while accepted < want && tried < want * 20 {
        tried += 1;
        let src = lang::Gen::new(rng).program();
        if vrlrun::compile(&src).is_err() {
            continue;
        }
        accepted += 1;
        let event = lang::gen_event(rng);
        sink.count("c36:generated_programs");
        emit(sink, "gen", "auto", &src, &event);
    }

    // ---- (c) the glue of `parse_timestamp` against its model
    let formats = ["%F %T", "%F %T %z", "%Y-%m-%dT%H:%M:%S%.f%:z", "%+", "%d/%b/%Y:%T", "%F %T %Z", "%F %T %%z", " %F %T", "%s"];
    let tzargs = ["-", "-", "UTC", "Asia/Taipei", "Europe/Paris", "local", "", "Mars/Olympus"];
    let texts = ["2001-02-03 04:05:06", "2001-02-03 04:05:06 +0530", "2001-02-03T04:05:06.5+01:00", "10/Oct/2000:13:55:36", "2021-10-31 02:30:00", "2021-03-28 02:30:00", " 2001-02-03 04:05:06", "1600000000", "1900-01-01 23:59:60", "", "x"];
    for f in formats {
        for a in tzargs {
            for t in texts {
                let ctx = *rng.pick(c35::ZONES);
                if sink.emit("c36.parse_timestamp", &[hex(t.as_bytes()), hex(f.as_bytes()), a.to_string(), ctx.to_string()]).is_some() {
                    sink.count("c36:parse_timestamp_glue");
                }
            }
        }
    }
    // texts rendered from random instants in the format itself (mostly accepted)
    for _ in 0..(n / 4).max(200) {
        let f = *rng.pick(&formats);
        let t = c35::gen_instant(rng, true);
        let rz = *rng.pick(c35::ZONES);
        let Some(text) = c35::render(&t, f, rz) else { continue };
        let a = *rng.pick(&tzargs);
        let ctx = *rng.pick(c35::ZONES);
        if let Some(r) = sink.emit("c36.parse_timestamp", &[hex(text.as_bytes()), hex(f.as_bytes()), a.to_string(), ctx.to_string()]) {
            sink.count(&format!("c36:parse_timestamp_glue_rendered:{}", r.reply.split(' ').next().unwrap_or("")));
        }
    }
}
