//! Canonical text form of `Kind` (mirrored by lean/VrlModel/KindWire.lean).
//!
//!   kind    := K <prims> ocol ocol           prims: letters of "bifotrnu" in this order, "-" if none
//!                                             (bytes integer float bOolean timestamp regex null undefined);
//!                                             first ocol = array, second = object
//!   ocol    := _ | C { (key kind)* } unknown  keys in BTreeMap order; `#<dec>` (index) or `k:<hex utf8>` (field)
//!   unknown := E kind | I <inf>               inf: letters of "bifotrnAO" in this order, "-" if none
//!
//! `show_kind` prints the kind exactly as the implementation holds it: the fields of `Kind`,
//! `Collection` and `Unknown` are private, so the text is obtained by parsing the *derived* `Debug`
//! output (field by field; no `canonicalize`, no `PartialEq`). `parse_kind` builds a kind through the
//! public constructors only and returns `None` when the text is not constructible that way
//! (e.g. `E <any>`: `Unknown::from(Kind)` turns an `any` kind into `Infinite`).
use crate::wire::{hex, unhex};
use std::collections::BTreeMap;
use vrl::value::kind::{Collection, Field, Index};
use vrl::value::Kind;

// ---------------------------------------------------------------------------------------------
// Debug text -> wire text

struct P<'a> {
    s: &'a [u8],
    i: usize,
}

impl<'a> P<'a> {
    fn ws(&mut self) {
        while self.i < self.s.len() && (self.s[self.i] == b' ' || self.s[self.i] == b'\n') {
            self.i += 1;
        }
    }
    fn eat(&mut self, t: &str) -> bool {
        self.ws();
        if self.s[self.i..].starts_with(t.as_bytes()) {
            self.i += t.len();
            true
        } else {
            false
        }
    }
    fn expect(&mut self, t: &str) {
        if !self.eat(t) {
            let rest = String::from_utf8_lossy(&self.s[self.i..self.s.len().min(self.i + 40)]).to_string();
            panic!("kind debug parse: expected {t:?} at {rest:?}");
        }
    }
    /// `None` | `Some(())`
    fn flag(&mut self) -> bool {
        if self.eat("None") {
            false
        } else {
            self.expect("Some(())");
            true
        }
    }
    fn number(&mut self) -> String {
        self.ws();
        let st = self.i;
        while self.i < self.s.len() && self.s[self.i].is_ascii_digit() {
            self.i += 1;
        }
        String::from_utf8(self.s[st..self.i].to_vec()).unwrap()
    }
    /// a Rust `Debug` string literal
    fn string(&mut self) -> String {
        self.expect("\"");
        let text = std::str::from_utf8(&self.s[self.i..]).unwrap();
        let mut out = String::new();
        let mut it = text.char_indices();
        loop {
            let (off, c) = it.next().expect("unterminated string");
            match c {
                '"' => {
                    self.i += off + 1;
                    return out;
                }
                '\\' => {
                    let (_, e) = it.next().unwrap();
                    match e {
                        'n' => out.push('\n'),
                        'r' => out.push('\r'),
                        't' => out.push('\t'),
                        '0' => out.push('\0'),
                        '\\' => out.push('\\'),
                        '"' => out.push('"'),
                        '\'' => out.push('\''),
                        'u' => {
                            let (_, b) = it.next().unwrap();
                            assert_eq!(b, '{');
                            let mut v = 0u32;
                            loop {
                                let (_, h) = it.next().unwrap();
                                if h == '}' {
                                    break;
                                }
                                v = v * 16 + h.to_digit(16).unwrap();
                            }
                            out.push(char::from_u32(v).unwrap());
                        }
                        x => panic!("unknown escape \\{x}"),
                    }
                }
                c => out.push(c),
            }
        }
    }

    fn kind(&mut self, out: &mut String) {
        self.expect("Kind {");
        let mut prims = String::new();
        for (name, letter) in [
            ("bytes", 'b'),
            ("integer", 'i'),
            ("float", 'f'),
            ("boolean", 'o'),
            ("timestamp", 't'),
            ("regex", 'r'),
            ("null", 'n'),
            ("undefined", 'u'),
        ] {
            self.expect(name);
            self.expect(":");
            if self.flag() {
                prims.push(letter);
            }
            self.expect(",");
        }
        if prims.is_empty() {
            prims.push('-');
        }
        out.push_str("K ");
        out.push_str(&prims);
        self.expect("array");
        self.expect(":");
        self.ocol(out);
        self.expect(",");
        self.expect("object");
        self.expect(":");
        self.ocol(out);
        self.expect("}");
    }

    fn ocol(&mut self, out: &mut String) {
        if self.eat("None") {
            out.push_str(" _");
            return;
        }
        self.expect("Some(");
        self.expect("Collection {");
        self.expect("known");
        self.expect(":");
        self.expect("{");
        out.push_str(" C {");
        if !self.eat("}") {
            loop {
                if self.eat("Index(") {
                    let n = self.number();
                    self.expect(")");
                    out.push_str(" #");
                    out.push_str(&n);
                } else {
                    self.expect("Field(");
                    self.expect("KeyString(");
                    let s = self.string();
                    self.expect(")");
                    self.expect(")");
                    out.push_str(" k:");
                    out.push_str(&hex(s.as_bytes()));
                }
                self.expect(":");
                out.push(' ');
                self.kind(out);
                if self.eat("}") {
                    break;
                }
                self.expect(",");
            }
        }
        out.push_str(" }");
        self.expect(",");
        self.expect("unknown");
        self.expect(":");
        self.expect("Unknown(");
        if self.eat("Exact(") {
            out.push_str(" E ");
            self.kind(out);
            self.expect(")");
        } else {
            self.expect("Infinite(");
            self.expect("Infinite {");
            let mut fl = String::new();
            for (i, (name, letter)) in [
                ("bytes", 'b'),
                ("integer", 'i'),
                ("float", 'f'),
                ("boolean", 'o'),
                ("timestamp", 't'),
                ("regex", 'r'),
                ("null", 'n'),
                ("array", 'A'),
                ("object", 'O'),
            ]
            .iter()
            .enumerate()
            {
                if i > 0 {
                    self.expect(",");
                }
                self.expect(name);
                self.expect(":");
                if self.flag() {
                    fl.push(*letter);
                }
            }
            if fl.is_empty() {
                fl.push('-');
            }
            self.expect("}");
            self.expect(")");
            out.push_str(" I ");
            out.push_str(&fl);
        }
        self.expect(")"); // Unknown(
        self.expect("}"); // Collection {
        self.expect(")"); // Some(
    }
}

pub fn show_kind(k: &Kind) -> String {
    let dbg = format!("{k:?}");
    let mut p = P { s: dbg.as_bytes(), i: 0 };
    let mut out = String::new();
    p.kind(&mut out);
    p.ws();
    assert_eq!(p.i, p.s.len(), "trailing debug text");
    out
}

// ---------------------------------------------------------------------------------------------
// wire text -> Kind (public constructors only)

enum Unk {
    Kind(Kind),
}

fn build_kind(toks: &[&str], pos: &mut usize) -> Option<Kind> {
    if *toks.get(*pos)? != "K" {
        return None;
    }
    *pos += 1;
    let prims = *toks.get(*pos)?;
    *pos += 1;
    let mut k = Kind::never();
    if prims != "-" {
        for c in prims.chars() {
            match c {
                'b' => k.add_bytes(),
                'i' => k.add_integer(),
                'f' => k.add_float(),
                'o' => k.add_boolean(),
                't' => k.add_timestamp(),
                'r' => k.add_regex(),
                'n' => k.add_null(),
                'u' => k.add_undefined(),
                _ => return None,
            };
        }
    }
    if let Some((known, unk)) = build_ocol(toks, pos, true)? {
        let Unk::Kind(u) = unk;
        let known: BTreeMap<Index, Kind> = known
            .into_iter()
            .map(|(key, v)| match key {
                Key::I(i) => Some((Index::from(i), v)),
                Key::F(_) => None,
            })
            .collect::<Option<_>>()?;
        k.add_array(Collection::from_parts(known, u));
    }
    if let Some((known, unk)) = build_ocol(toks, pos, false)? {
        let Unk::Kind(u) = unk;
        let known: BTreeMap<Field, Kind> = known
            .into_iter()
            .map(|(key, v)| match key {
                Key::F(f) => Some((Field::from(f), v)),
                Key::I(_) => None,
            })
            .collect::<Option<_>>()?;
        k.add_object(Collection::from_parts(known, u));
    }
    Some(k)
}

enum Key {
    I(usize),
    F(String),
}

#[allow(clippy::type_complexity)]
fn build_ocol(toks: &[&str], pos: &mut usize, _array: bool) -> Option<Option<(Vec<(Key, Kind)>, Unk)>> {
    let t = *toks.get(*pos)?;
    *pos += 1;
    if t == "_" {
        return Some(None);
    }
    if t != "C" || *toks.get(*pos)? != "{" {
        return None;
    }
    *pos += 1;
    let mut known = Vec::new();
    loop {
        let t = *toks.get(*pos)?;
        *pos += 1;
        if t == "}" {
            break;
        }
        let key = if let Some(n) = t.strip_prefix('#') {
            Key::I(n.parse().ok()?)
        } else {
            Key::F(String::from_utf8(unhex(t.strip_prefix("k:")?)?).ok()?)
        };
        let v = build_kind(toks, pos)?;
        known.push((key, v));
    }
    let t = *toks.get(*pos)?;
    *pos += 1;
    let unk = match t {
        "E" => Unk::Kind(build_kind(toks, pos)?),
        "I" => {
            let fl = *toks.get(*pos)?;
            *pos += 1;
            match fl {
                "bifotrnAO" => Unk::Kind(Kind::any()),
                "bifonAO" => Unk::Kind(Kind::json().or_undefined()),
                _ => return None,
            }
        }
        _ => return None,
    };
    Some(Some((known, unk)))
}

/// Build the kind a wire text denotes; `None` if it is malformed or not constructible through the
/// public API (checked by printing the result back).
pub fn parse_kind(s: &str) -> Option<Kind> {
    let toks: Vec<&str> = s.split(' ').filter(|t| !t.is_empty()).collect();
    let mut pos = 0;
    let k = build_kind(&toks, &mut pos)?;
    if pos != toks.len() {
        return None;
    }
    if show_kind(&k) != toks.join(" ") {
        return None;
    }
    Some(k)
}
