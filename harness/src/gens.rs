//! Structured generators for values and paths (DESIGN §4.3).
use crate::rng::Rng;
use vrl::path::{OwnedSegment, OwnedValuePath};
use vrl::value::{ObjectMap, Value};

pub const KEYS: &[&str] = &["a", "b", "c", "a b", "é", "", "a.b", "\"q\"", "0", "_x", "@t", "k\\n"];
pub const SIMPLE_KEYS: &[&str] = &["a", "b", "c"];

pub fn edge_ints() -> &'static [i64] {
    &[
        0, 1, -1, 2, -2, 7, 10, 255, 256, i64::MAX, i64::MIN, i64::MAX - 1, i64::MIN + 1,
        9007199254740992, 9007199254740993, -9007199254740993, 4294967296, -4294967296, 2147483647,
        -2147483648,
    ]
}

pub fn gen_float(rng: &mut Rng) -> f64 {
    let f = match rng.below(10) {
        0 => 0.0,
        1 => -0.0,
        2 => f64::INFINITY,
        3 => f64::NEG_INFINITY,
        4 => 1.5,
        5 => -2.25,
        6 => f64::from_bits(rng.below(1 << 52)), // subnormal
        7 => rng.range(-1000, 1000) as f64 / 8.0,
        _ => f64::from_bits(rng.next()),
    };
    if f.is_nan() { 0.5 } else { f }
}

pub fn gen_bytes(rng: &mut Rng) -> Vec<u8> {
    match rng.below(6) {
        0 => Vec::new(),
        1 => b"a".to_vec(),
        2 => "héllo wörld".as_bytes().to_vec(),
        3 => (0..rng.below(6)).map(|_| rng.below(256) as u8).collect(),
        4 => KEYS[rng.below(KEYS.len() as u64) as usize].as_bytes().to_vec(),
        _ => (0..rng.below(4)).map(|_| b'a' + rng.below(3) as u8).collect(),
    }
}

pub fn gen_scalar(rng: &mut Rng) -> Value {
    match rng.below(9) {
        0 => Value::Null,
        1 => Value::Boolean(rng.chance(1, 2)),
        2 => Value::Integer(*rng.pick(edge_ints())),
        3 => Value::Integer(rng.range(-5, 5)),
        4 => Value::Float(ordered_float::NotNan::new(gen_float(rng)).unwrap()),
        5 | 6 => Value::Bytes(gen_bytes(rng).into()),
        7 => Value::Timestamp(
            chrono::DateTime::from_timestamp(rng.range(-10_000_000_000, 10_000_000_000), rng.below(1_000_000_000) as u32)
                .unwrap(),
        ),
        _ => Value::Integer(rng.next() as i64),
    }
}

/// nested value; `keys` is the key alphabet for objects.
pub fn gen_value(rng: &mut Rng, depth: u32, keys: &[&str]) -> Value {
    if depth == 0 || rng.chance(2, 5) {
        return gen_scalar(rng);
    }
    if rng.chance(1, 2) {
        let n = rng.below(4);
        Value::Array((0..n).map(|_| gen_value(rng, depth - 1, keys)).collect())
    } else {
        let n = rng.below(4);
        let mut m = ObjectMap::new();
        for _ in 0..n {
            let k = *rng.pick(keys);
            m.insert(k.into(), gen_value(rng, depth - 1, keys));
        }
        Value::Object(m)
    }
}

pub fn gen_index(rng: &mut Rng) -> isize {
    match rng.below(12) {
        0..=6 => rng.range(-4, 4) as isize,
        7 => rng.range(-9, 9) as isize,
        8 => 0,
        9 => -1,
        _ => rng.range(-3, 3) as isize,
    }
}

/// A path that mostly follows the structure of `v` (so that operations hit existing locations),
/// with occasional wrong-typed, out-of-range and fresh segments.
pub fn gen_path_for(rng: &mut Rng, v: &Value, keys: &[&str], max_len: usize) -> OwnedValuePath {
    let mut segs = Vec::new();
    let mut cur: Option<&Value> = Some(v);
    let len = rng.below(max_len as u64 + 1) as usize;
    for _ in 0..len {
        let follow = rng.chance(3, 4);
        let seg = match cur {
            Some(Value::Object(m)) if follow && !m.is_empty() => {
                let ks: Vec<_> = m.keys().collect();
                OwnedSegment::Field((*rng.pick(&ks)).clone())
            }
            Some(Value::Array(a)) if follow && !a.is_empty() => {
                let n = a.len() as i64;
                let i = if rng.chance(1, 2) { rng.range(0, n - 1) } else { rng.range(-n, -1) };
                OwnedSegment::Index(i as isize)
            }
            _ => {
                if rng.chance(1, 2) {
                    OwnedSegment::Field((*rng.pick(keys)).into())
                } else {
                    OwnedSegment::Index(gen_index(rng))
                }
            }
        };
        cur = match (&seg, cur) {
            (OwnedSegment::Field(f), Some(Value::Object(m))) => m.get(f.as_str()),
            (OwnedSegment::Index(i), Some(Value::Array(a))) => {
                let idx = if *i >= 0 { *i } else { a.len() as isize + *i };
                if idx >= 0 { a.get(idx as usize) } else { None }
            }
            _ => None,
        };
        segs.push(seg);
    }
    OwnedValuePath { segments: segs }
}

/// A path related to `p`: shares a prefix, then diverges (or is a prefix/extension of it).
pub fn gen_related_path(rng: &mut Rng, v: &Value, p: &OwnedValuePath, keys: &[&str]) -> OwnedValuePath {
    if p.segments.is_empty() || rng.chance(1, 5) {
        return gen_path_for(rng, v, keys, 3);
    }
    let cut = rng.below(p.segments.len() as u64) as usize;
    let mut segs: Vec<OwnedSegment> = p.segments[..cut].to_vec();
    // diverging segment
    let d = match &p.segments[cut] {
        OwnedSegment::Field(_) if rng.chance(3, 4) => OwnedSegment::Field((*rng.pick(keys)).into()),
        OwnedSegment::Index(i) if rng.chance(3, 4) => {
            OwnedSegment::Index(if rng.chance(1, 2) { i + rng.range(-2, 2) as isize } else { gen_index(rng) })
        }
        _ => {
            if rng.chance(1, 2) {
                OwnedSegment::Field((*rng.pick(keys)).into())
            } else {
                OwnedSegment::Index(gen_index(rng))
            }
        }
    };
    segs.push(d);
    let extra = rng.below(3);
    for _ in 0..extra {
        if rng.chance(1, 2) {
            segs.push(OwnedSegment::Field((*rng.pick(keys)).into()));
        } else {
            segs.push(OwnedSegment::Index(gen_index(rng)));
        }
    }
    OwnedValuePath { segments: segs }
}
