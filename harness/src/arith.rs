//! Shared by C10/C11: correspondence ops on the REAL arithmetic code.
//!
//!   f64.<add|sub|mul|div|rem|lt|le|eq> <d:a> <d:b>, f64.ofint <i>     hardware f64 vs Lean soft-float
//!   ar.<add|sub|mul|div|rem|gt|ge|lt|le|and|or|eq|ne|merge> <a> <b>          `VrlValueArithmetic` methods on `Value`
//!   ar.or.err <a>                                                      `try_or` with a failing right-hand side
//!   vrl.<add|sub|mul|div|mod|gt|ge|lt|le|eq|ne|and|or> <a> <b>         compiled program, operands `.a` / `.b`
//!   vrl.lit.<...> <a> <b>                                              same with the operands as literals
//!
//! result text: `ok <value>` | `err:<ValueError variant>` | `panic`.
use crate::gens::*;
use crate::rng::Rng;
use crate::sink::{guarded, Reply};
use crate::vrlrun::run_vrl;
use crate::wire::*;
use ordered_float::NotNan;
use vrl::compiler::value::{ValueError, VrlValueArithmetic};
use vrl::value::{ObjectMap, Value};

pub fn err_class(e: &ValueError) -> &'static str {
    match e {
        ValueError::Expected { .. } => "Expected",
        ValueError::Coerce(..) => "Coerce",
        ValueError::Rem(..) => "Rem",
        ValueError::Mul(..) => "Mul",
        ValueError::Div(..) => "Div",
        ValueError::DivideByZero => "DivideByZero",
        ValueError::NanFloat => "NanFloat",
        ValueError::Add(..) => "Add",
        ValueError::Sub(..) => "Sub",
        ValueError::Or(..) => "Or",
        ValueError::And(..) => "And",
        ValueError::Gt(..) => "Gt",
        ValueError::Ge(..) => "Ge",
        ValueError::Lt(..) => "Lt",
        ValueError::Le(..) => "Le",
        ValueError::Merge(..) => "Merge",
        ValueError::OutOfRange(..) => "OutOfRange",
    }
}

/// the same classes recovered from the `Display` text of a `ValueError` (what a VRL program sees).
pub fn err_class_of_message(m: &str) -> &'static str {
    if m.contains("can't divide by zero") {
        "DivideByZero"
    } else if m.contains("operation would produce NaN") {
        "NanFloat"
    } else if m.contains("can't calculate remainder of type") {
        "Rem"
    } else if m.contains("can't multiply type") {
        "Mul"
    } else if m.contains("can't divide type") {
        "Div"
    } else if m.contains("can't add type") {
        "Add"
    } else if m.contains("can't subtract type") {
        "Sub"
    } else if m.contains("can't apply an OR") {
        "Or"
    } else if m.contains("can't apply an AND") {
        "And"
    } else if m.contains("can't compare") && m.contains(" >= ") {
        "Ge"
    } else if m.contains("can't compare") && m.contains(" <= ") {
        "Le"
    } else if m.contains("can't compare") && m.contains(" > ") {
        "Gt"
    } else if m.contains("can't compare") && m.contains(" < ") {
        "Lt"
    } else if m.contains("can't coerce") {
        "Coerce"
    } else if m.starts_with("expected ") {
        "Expected"
    } else {
        "?"
    }
}

pub fn show_res(r: Result<Result<Value, ValueError>, String>) -> String {
    match r {
        Err(_) => "panic".to_string(),
        Ok(Ok(v)) => format!("ok {}", show_value(&v)),
        Ok(Err(e)) => format!("err:{}", err_class(&e)),
    }
}

/// `bytes * n` allocates `len * n` bytes: only sizes that are small or that make `repeat` panic
/// ("capacity overflow") are executable; the range in between exhausts memory (process abort).
pub fn repeat_feasible(a: &Value, b: &Value) -> bool {
    let (len, n) = match (a, b) {
        (Value::Bytes(s), Value::Integer(n)) | (Value::Integer(n), Value::Bytes(s)) => (s.len() as u128, *n),
        _ => return true,
    };
    if n <= 0 {
        return true;
    }
    let total = len * n as u128;
    total <= (1 << 16) || total > isize::MAX as u128
}

fn f(bits: &str) -> Option<f64> {
    let x = bits.strip_prefix("d:")?;
    Some(f64::from_bits(u64::from_str_radix(x, 16).ok()?))
}
fn show_f(x: f64) -> String {
    if x.is_nan() { "nan".to_string() } else { format!("d:{:016x}", x.to_bits()) }
}
fn tf(b: bool) -> String {
    if b { "t".into() } else { "f".into() }
}

pub fn direct(name: &str, a: Value, b: Value) -> Option<String> {
    if name == "mul" && !repeat_feasible(&a, &b) {
        return None;
    }
    let name = name.to_string();
    Some(show_res(guarded(move || match name.as_str() {
        "add" => a.try_add(b),
        "sub" => a.try_sub(b),
        "mul" => a.try_mul(b),
        "div" => a.try_div(b),
        "rem" => a.try_rem(b),
        "gt" => a.try_gt(b),
        "ge" => a.try_ge(b),
        "lt" => a.try_lt(b),
        "le" => a.try_le(b),
        "and" => a.try_and(b),
        "merge" => a.try_merge(b),
        "or" => a.try_or(|| Ok(b.clone())),
        "eq" => Ok(Value::Boolean(a.eq_lossy(&b))),
        "ne" => Ok(Value::Boolean(!a.eq_lossy(&b))),
        _ => unreachable!(),
    })))
}

const DIRECT: &[&str] = &["merge", "add", "sub", "mul", "div", "rem", "gt", "ge", "lt", "le", "and", "or", "eq", "ne"];
pub const VRL_OPS: &[&str] = &["add", "sub", "mul", "div", "mod", "gt", "ge", "lt", "le", "eq", "ne", "and", "or"];

fn vrl_expr(name: &str, l: &str, r: &str) -> Option<String> {
    let sym = match name {
        "add" => "+",
        "sub" => "-",
        "mul" => "*",
        "div" => "/",
        "gt" => ">",
        "ge" => ">=",
        "lt" => "<",
        "le" => "<=",
        "eq" => "==",
        "ne" => "!=",
        "and" => "&&",
        "or" => "||",
        "mod" => return Some(format!("mod({l}, {r})")),
        _ => return None,
    };
    Some(format!("{l} {sym} {r}"))
}

/// Evaluate `expr` (a VRL expression over the event) whatever its static fallibility:
/// first as `r, err = expr` (accepted only when the compiler types it fallible), then bare.
pub fn eval_expr(expr: &str, event: Value) -> String {
    let a = format!("r, err = {expr}\n[r, err]");
    let ev2 = event.clone();
    let res = guarded(move || match run_vrl(&a, ev2) {
        Err(m) if m == "compile-error" => None,
        x => Some(x),
    });
    match res {
        Err(_) => return "panic".to_string(),
        Ok(Some(Ok(Value::Array(xs)))) if xs.len() == 2 => {
            return match &xs[1] {
                Value::Null => format!("ok {}", show_value(&xs[0])),
                Value::Bytes(m) => format!("err:{}", err_class_of_message(&String::from_utf8_lossy(m))),
                _ => "bad-result".to_string(),
            };
        }
        Ok(Some(Ok(_))) => return "bad-result".to_string(),
        Ok(Some(Err(m))) => return format!("runtime-error:{}", err_class_of_message(&m)),
        Ok(None) => {}
    }
    let b = expr.to_string();
    match guarded(move || run_vrl(&b, event)) {
        Err(_) => "panic".to_string(),
        Ok(Ok(v)) => format!("ok {}", show_value(&v)),
        Ok(Err(m)) if m == "compile-error" => "compile-error".to_string(),
        Ok(Err(m)) => format!("err:{}", err_class_of_message(&m)),
    }
}

pub fn event_of(a: &Value, b: &Value) -> Value {
    let mut m = ObjectMap::new();
    m.insert("a".into(), a.clone());
    m.insert("b".into(), b.clone());
    Value::Object(m)
}

/// result of `.a <op> .b` on the event {a, b}
pub fn via_vrl(name: &str, a: &Value, b: &Value) -> Option<String> {
    if name == "mul" && !repeat_feasible(a, b) {
        return None;
    }
    if name == "mod" && !(is_num(a) && is_num(b)) {
        return None; // the function-call layer rejects other argument kinds before `try_rem`
    }
    Some(eval_expr(&vrl_expr(name, ".a", ".b")?, event_of(a, b)))
}

pub fn is_num(v: &Value) -> bool {
    matches!(v, Value::Integer(_) | Value::Float(_))
}

/// VRL literal text of a scalar, when one exists that the lexer reads back as the same value.
pub fn literal(v: &Value) -> Option<String> {
    let s = match v {
        Value::Null => "null".to_string(),
        Value::Boolean(b) => b.to_string(),
        Value::Integer(i) if *i >= 0 => i.to_string(),
        Value::Integer(i) if *i > i64::MIN => format!("({i})"),
        Value::Float(x) if x.is_finite() => {
            let mut t = format!("{}", x.into_inner());
            if !t.contains('.') {
                t.push_str(".0");
            }
            if t.starts_with('-') { format!("({t})") } else { t }
        }
        Value::Bytes(bs) if bs.iter().all(|c| c.is_ascii_alphanumeric() || *c == b' ') => {
            format!("\"{}\"", String::from_utf8_lossy(bs))
        }
        _ => return None,
    };
    // keep only literals that evaluate to exactly this value (bit-exact for floats)
    match guarded({
        let s = s.clone();
        move || run_vrl(&s, Value::Object(ObjectMap::new()))
    }) {
        Ok(Ok(got)) if show_value(&got) == show_value(v) => Some(s),
        _ => None,
    }
}

pub fn via_literals(name: &str, a: &Value, b: &Value) -> Option<String> {
    if name == "mul" && !repeat_feasible(a, b) {
        return None;
    }
    if name == "mod" && !(is_num(a) && is_num(b)) {
        return None;
    }
    let (la, lb) = (literal(a)?, literal(b)?);
    let r = eval_expr(&vrl_expr(name, &la, &lb)?, Value::Object(ObjectMap::new()));
    // programs the compiler rejects outright (e.g. a constant `null && 1`) are not cases
    if r == "compile-error" { None } else { Some(r) }
}

pub fn exec(op: &str, a: &[String]) -> Option<Reply> {
    if let Some(name) = op.strip_prefix("f64.") {
        if name == "ofint" {
            let [i] = a else { return None };
            let i: i64 = i.parse().ok()?;
            return Some(Reply::plain(show_f(i as f64)));
        }
        let [x, y] = a else { return None };
        let (x, y) = (f(x)?, f(y)?);
        if x.is_nan() || y.is_nan() {
            return None;
        }
        return Some(Reply::plain(match name {
            "add" => show_f(x + y),
            "sub" => show_f(x - y),
            "mul" => show_f(x * y),
            "div" => show_f(x / y),
            "rem" => show_f(x % y),
            "lt" => tf(x < y),
            "le" => tf(x <= y),
            "eq" => tf(x == y),
            _ => return None,
        }));
    }
    if op == "ar.or.err" {
        let [x] = a else { return None };
        let x = parse_value(x)?;
        return Some(Reply::plain(show_res(guarded(move || {
            x.try_or(|| Err(vrl::compiler::ExpressionError::from("boom")))
        }))));
    }
    if let Some(name) = op.strip_prefix("ar.") {
        let [x, y] = a else { return None };
        if !DIRECT.contains(&name) {
            return None;
        }
        return Some(Reply::plain(direct(name, parse_value(x)?, parse_value(y)?)?));
    }
    if let Some(name) = op.strip_prefix("vrl.lit.") {
        let [x, y] = a else { return None };
        return Some(Reply::plain(via_literals(name, &parse_value(x)?, &parse_value(y)?)?));
    }
    if let Some(name) = op.strip_prefix("vrl.") {
        let [x, y] = a else { return None };
        if !VRL_OPS.contains(&name) {
            return None;
        }
        return Some(Reply::plain(via_vrl(name, &parse_value(x)?, &parse_value(y)?)?));
    }
    None
}

// ---------------------------------------------------------------- operand generators

pub fn fl(x: f64) -> Value {
    Value::Float(NotNan::new(x).unwrap())
}

/// integers at the edges of `i64` and of `f64` precision.
pub fn gen_int(rng: &mut Rng) -> i64 {
    const P53: i64 = 1 << 53;
    match rng.below(10) {
        0 => *rng.pick(edge_ints()),
        1 => rng.range(-3, 3),
        2 => *rng.pick(&[P53 - 1, P53, P53 + 1, P53 + 2, P53 + 3, -P53 - 1, -P53, -P53 + 1, -P53 - 2, 1 << 62, (1 << 62) + 1]),
        3 => {
            // around a power of two
            let k = rng.range(1, 62);
            let s = if rng.chance(1, 2) { 1 } else { -1 };
            s * ((1i64 << k) + rng.range(-2, 2))
        }
        4 => i64::MAX - rng.range(0, 1100),
        5 => i64::MIN + rng.range(0, 1100),
        6 => rng.range(-1000, 1000),
        7 => (rng.next() as i64) >> rng.below(64),
        _ => rng.next() as i64,
    }
}

/// a partner for `a`: equal, adjacent, or differing only below `f64` precision.
pub fn gen_int_near(rng: &mut Rng, a: i64) -> i64 {
    match rng.below(6) {
        0 => a,
        1 => a.wrapping_add(1),
        2 => a.wrapping_sub(1),
        3 => a.wrapping_add(rng.range(-1024, 1024)),
        4 => a.wrapping_neg(),
        _ => gen_int(rng),
    }
}

pub fn gen_f64(rng: &mut Rng) -> f64 {
    let x = match rng.below(16) {
        0 => 0.0,
        1 => -0.0,
        2 => f64::INFINITY,
        3 => f64::NEG_INFINITY,
        4 => f64::from_bits(rng.below(1 << 52)),                              // subnormal
        5 => f64::from_bits((1u64 << 63) | rng.below(1 << 52)),               // negative subnormal
        6 => f64::from_bits(rng.below(4)),                                    // tiniest
        7 => *rng.pick(&[f64::MAX, f64::MIN, f64::MIN_POSITIVE, f64::EPSILON, 1.0, -1.0, 0.5, 2.0, 3.0, 0.1, 1e308, 9007199254740992.0, 9223372036854775808.0, -9223372036854775808.0]),
        8 => rng.range(-1000, 1000) as f64 / 8.0,
        9 => gen_int(rng) as f64,
        10 => {
            // huge or tiny exponent, random mantissa
            let e = if rng.chance(1, 2) { rng.range(1, 60) as u64 } else { rng.range(1990, 2046) as u64 };
            f64::from_bits(((rng.below(2)) << 63) | (e << 52) | rng.below(1 << 52))
        }
        11 => {
            // few significant bits: exact products/sums and ties
            let bits = rng.range(1, 12) as u64;
            let m = rng.below(1 << bits) as f64;
            let e = rng.range(-60, 60) as i32;
            let s = if rng.chance(1, 2) { -1.0 } else { 1.0 };
            s * m * 2f64.powi(e)
        }
        12 => {
            // exponent near 1023 (values near 1) with mantissa ending in a tie pattern
            let tail = *rng.pick(&[0u64, 1, 2, 3, (1 << 52) - 1, (1 << 52) - 2, 1 << 51, (1 << 51) + 1]);
            f64::from_bits(((rng.below(2)) << 63) | ((rng.range(1000, 1080) as u64) << 52) | tail)
        }
        _ => f64::from_bits(rng.next()),
    };
    if x.is_nan() { 0.75 } else { x }
}

pub fn gen_f64_near(rng: &mut Rng, a: f64) -> f64 {
    let x = match rng.below(7) {
        0 => a,
        1 => -a,
        2 => f64::from_bits(a.to_bits().wrapping_add(1)),
        3 => f64::from_bits(a.to_bits().wrapping_sub(1)),
        4 => f64::from_bits(a.to_bits() ^ (1 << rng.below(64))),
        _ => gen_f64(rng),
    };
    if x.is_nan() { a } else { x }
}

pub fn gen_bstr(rng: &mut Rng) -> Vec<u8> {
    match rng.below(6) {
        0 => Vec::new(),
        1 => (0..rng.below(5)).map(|_| b'a' + rng.below(2) as u8).collect(),
        2 => (0..rng.below(6)).map(|_| rng.below(256) as u8).collect(),
        3 => (0..rng.below(3)).map(|_| *rng.pick(&[0u8, 0x7f, 0x80, 0xff])).collect(),
        _ => gen_bytes(rng),
    }
}

/// equal-prefix partner
pub fn gen_bstr_near(rng: &mut Rng, a: &[u8]) -> Vec<u8> {
    let mut b = a.to_vec();
    match rng.below(6) {
        0 => {}
        1 => b.push(rng.below(256) as u8),
        2 => {
            b.pop();
        }
        3 => {
            if let Some(x) = b.last_mut() {
                *x = x.wrapping_add(if rng.chance(1, 2) { 1 } else { 255 });
            }
        }
        4 => {
            if !b.is_empty() {
                let i = rng.below(b.len() as u64) as usize;
                b[i] = rng.below(256) as u8;
            }
        }
        _ => return gen_bstr(rng),
    }
    b
}

pub fn gen_ts(rng: &mut Rng) -> Value {
    let secs = match rng.below(4) {
        0 => rng.range(-3, 3),
        1 => rng.range(1_600_000_000, 1_600_000_010),
        _ => rng.range(-10_000_000_000, 10_000_000_000),
    };
    let ns = match rng.below(3) {
        0 => 0,
        1 => 999_999_999,
        _ => rng.below(1_000_000_000) as u32,
    };
    Value::Timestamp(chrono::DateTime::from_timestamp(secs, ns).unwrap())
}

pub fn gen_ts_near(rng: &mut Rng, a: &Value) -> Value {
    let Value::Timestamp(t) = a else { return gen_ts(rng) };
    match rng.below(4) {
        0 => a.clone(),
        1 => Value::Timestamp(*t + chrono::Duration::nanoseconds(rng.range(-2, 2))),
        2 => Value::Timestamp(*t + chrono::Duration::seconds(rng.range(-1, 1))),
        _ => gen_ts(rng),
    }
}

/// one operand pair; returns a bucket name for the measured input distribution.
pub fn gen_pair(rng: &mut Rng) -> (Value, Value, &'static str) {
    match rng.below(20) {
        0..=3 => {
            let a = gen_int(rng);
            (Value::Integer(a), Value::Integer(gen_int_near(rng, a)), "int_int")
        }
        4..=6 => {
            let a = gen_f64(rng);
            (fl(a), fl(gen_f64_near(rng, a)), "float_float")
        }
        7 | 8 => {
            let a = gen_int(rng);
            let b = if rng.chance(1, 2) { gen_f64_near(rng, a as f64) } else { gen_f64(rng) };
            if rng.chance(1, 2) { (Value::Integer(a), fl(b), "int_float") } else { (fl(b), Value::Integer(a), "float_int") }
        }
        9 | 10 => {
            let a = gen_bstr(rng);
            let b = gen_bstr_near(rng, &a);
            (Value::Bytes(a.into()), Value::Bytes(b.into()), "bytes_bytes")
        }
        11 => {
            let a = gen_ts(rng);
            let b = gen_ts_near(rng, &a);
            (a, b, "ts_ts")
        }
        12 => {
            // bytes and repeat counts (small, negative, or so large that `repeat` must refuse)
            let s = gen_bstr(rng);
            let n = match rng.below(6) {
                0 => 0,
                1 => rng.range(-5, -1),
                2 => i64::MIN,
                3 => *rng.pick(&[i64::MAX, i64::MAX - 1, 1 << 62, 1 << 61]),
                _ => rng.range(1, 9),
            };
            if rng.chance(1, 2) { (Value::Bytes(s.into()), Value::Integer(n), "bytes_int") } else { (Value::Integer(n), Value::Bytes(s.into()), "int_bytes") }
        }
        13 => {
            let s = Value::Bytes(gen_bstr(rng).into());
            if rng.chance(1, 2) { (s, Value::Null, "bytes_null") } else { (Value::Null, s, "null_bytes") }
        }
        14 => {
            // booleans / null (for && and ||)
            let xs = [Value::Null, Value::Boolean(true), Value::Boolean(false)];
            (rng.pick(&xs).clone(), rng.pick(&xs).clone(), "bool_null")
        }
        15 => {
            // structured values, structurally equal or nearly so
            let a = gen_value(rng, 2, SIMPLE_KEYS);
            let b = if rng.chance(1, 2) { a.clone() } else { gen_value(rng, 2, SIMPLE_KEYS) };
            (a, b, "structured")
        }
        16 => {
            // containers that differ only in a numeric leaf ([-0.0] vs [0.0], [1] vs [1.0], ints above 2^53)
            let leaves: [(Value, Value); 5] = [
                (fl(0.0), fl(-0.0)),
                (Value::Integer(1), fl(1.0)),
                (Value::Integer(9007199254740993), Value::Integer(9007199254740992)),
                (fl(1.5), fl(1.5)),
                (Value::Integer(7), Value::Integer(7)),
            ];
            let (x, y) = rng.pick(&leaves).clone();
            if rng.chance(1, 2) {
                (Value::Array(vec![x]), Value::Array(vec![y]), "container_leaf")
            } else {
                let mut m1 = ObjectMap::new();
                m1.insert("k".into(), x);
                let mut m2 = ObjectMap::new();
                m2.insert("k".into(), y);
                (Value::Object(m1), Value::Object(m2), "container_leaf")
            }
        }
        17 => {
            // two objects with overlapping keys (for `|` / try_merge and structural ==)
            let mk = |rng: &mut Rng| {
                let mut m = ObjectMap::new();
                for _ in 0..rng.below(4) {
                    let k = *rng.pick(KEYS);
                    m.insert(k.into(), gen_value(rng, 1, SIMPLE_KEYS));
                }
                Value::Object(m)
            };
            let a = mk(rng);
            let b = if rng.chance(1, 4) { a.clone() } else { mk(rng) };
            (a, b, "object_object")
        }
        _ => (gen_scalar(rng), gen_scalar(rng), "any_any"),
    }
}

/// fixed pairs that every run covers.
pub fn edge_pairs() -> Vec<(Value, Value)> {
    let i = Value::Integer;
    let s = |x: &str| Value::Bytes(x.as_bytes().to_vec().into());
    let inf = f64::INFINITY;
    let mut v = vec![
        (i(9007199254740993), i(9007199254740992)),
        (i(9007199254740992), i(9007199254740993)),
        (i(i64::MAX), i(i64::MAX - 1)),
        (i(i64::MIN), i(i64::MIN + 1)),
        (i(i64::MAX), i(1)),
        (i(i64::MIN), i(-1)),
        (i(i64::MIN), i(i64::MIN)),
        (i(i64::MAX), i(i64::MAX)),
        (i(i64::MIN), i(0)),
        (i(0), i(0)),
        (i(5), i(2)),
        (i(-5), i(2)),
        (i(5), i(-2)),
        (i(-5), i(-2)),
        (i(3037000500), i(3037000500)),
        (fl(0.0), fl(-0.0)),
        (fl(-0.0), fl(0.0)),
        (fl(-0.0), fl(-0.0)),
        (fl(inf), fl(-inf)),
        (fl(-inf), fl(inf)),
        (fl(inf), fl(inf)),
        (fl(inf), fl(0.0)),
        (fl(0.0), fl(inf)),
        (fl(inf), fl(1.0)),
        (fl(1.0), fl(inf)),
        (fl(5.5), fl(2.0)),
        (fl(-5.5), fl(2.0)),
        (fl(5.5), fl(-2.0)),
        (fl(f64::MAX), fl(f64::MAX)),
        (fl(f64::MAX), fl(2.0)),
        (fl(f64::MIN_POSITIVE), fl(f64::MIN_POSITIVE)),
        (fl(f64::from_bits(1)), fl(2.0)),
        (fl(f64::from_bits(1)), fl(f64::from_bits(1))),
        (fl(0.1), fl(0.2)),
        (fl(1.0), fl(3.0)),
        (i(0), fl(inf)),
        (fl(inf), i(0)),
        (i(1), fl(0.0)),
        (i(1), fl(-0.0)),
        (fl(1.0), i(0)),
        (i(9007199254740993), fl(9007199254740992.0)),
        (fl(9223372036854775808.0), i(i64::MAX)),
        (i(i64::MIN), fl(-9223372036854775808.0)),
        (i(1), fl(1.0)),
        (s("a"), s("ab")),
        (s("ab"), s("a")),
        (s(""), s("")),
        (s("abc"), s("abd")),
        (s("foo"), Value::Null),
        (Value::Null, s("foo")),
        (Value::Null, Value::Null),
        (s("ab"), i(3)),
        (i(3), s("ab")),
        (s("ab"), i(-1)),
        (s("ab"), i(0)),
        (s("ab"), i(i64::MAX)),
        (s("abc"), i(i64::MAX)),
        (i(i64::MAX), s("ab")),
        (s(""), i(i64::MAX)),
        (s("a"), i(1)),
        (s("a"), fl(1.0)),
        (Value::Boolean(true), Value::Boolean(false)),
        (Value::Boolean(true), Value::Null),
        (Value::Null, i(1)),
        (Value::Boolean(false), i(1)),
        (Value::Boolean(true), i(1)),
        (i(1), Value::Boolean(true)),
        (s("a"), i(0)),
        (s("a"), fl(0.0)),
        (Value::Array(vec![fl(0.0)]), Value::Array(vec![fl(-0.0)])),
        (Value::Array(vec![i(1)]), Value::Array(vec![fl(1.0)])),
        (Value::Array(vec![i(9007199254740993)]), Value::Array(vec![i(9007199254740992)])),
        (Value::Array(vec![]), Value::Array(vec![])),
        (Value::Array(vec![i(1)]), Value::Array(vec![i(1), i(2)])),
    ];
    let t0 = Value::Timestamp(chrono::DateTime::from_timestamp(1_600_000_000, 5).unwrap());
    let t1 = Value::Timestamp(chrono::DateTime::from_timestamp(1_600_000_000, 6).unwrap());
    v.push((t0.clone(), t1.clone()));
    v.push((t1.clone(), t0.clone()));
    v.push((t0.clone(), t0.clone()));
    v.push((t0, i(1)));
    v
}
