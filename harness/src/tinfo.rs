//! C01 / C02 / C12 – correspondence of the Lean model of the compiler's type inference
//! (lean/VrlModel/Lang/Type.lean) with the real compiler.
//!
//! `c01.typeinfo <hex source> <target kind> <metadata kind>`: compile the source against an external
//! environment with the given kinds (`ExternalEnv::new_with_kind`), dump the compiled tree (observation,
//! after the `|` field) and report, from the REAL compiler through its public API:
//!   * per root expression, stepping the type state exactly like `Block::type_info`
//!     (`resolve_constant` in the state reaching it, then `apply_type_info`): result kind, fallible flag,
//!     `returns` kind, constant; and the type state after it: target kind, metadata kind and every local
//!     variable (kind, fallible, returns, constant);
//!   * `Program::final_type_info()`: result kind / fallible / returns and the final state.
//! The locals of a `TypeState` are not public; each variable is read by compiling the one-token program
//! `<name>` against that state (`compile_with_state`, public) and asking the resulting `Variable`
//! expression for `type_info` / `resolve_constant`. Candidate names are the assignment targets in the dump.
use crate::kindwire::{parse_kind, show_kind};
use crate::rng::Rng;
use crate::sink::{guarded, Reply, Sink};
use crate::wire::*;
use std::collections::BTreeMap;
use vrl::compiler::state::{ExternalEnv, TypeState};
use vrl::compiler::{CompileConfig, Expression, Program, TypeDef};
use vrl::value::kind::{Collection, Field, Index};
use vrl::value::{Kind, Value};

pub fn compile_env(src: &str, target: &Kind, metadata: &Kind) -> Result<Program, String> {
    let src = src.to_string();
    let external = ExternalEnv::new_with_kind(target.clone(), metadata.clone());
    let r = guarded(move || {
        let fns = vrl::stdlib::all();
        match vrl::compiler::compile_with_external(&src, &fns, &external, CompileConfig::default()) {
            Ok(res) => Ok(res.program),
            Err(diags) => Err(diags.iter().map(|d| format!("E{}", d.code)).collect::<Vec<_>>().join(",")),
        }
    });
    match r {
        Ok(x) => x,
        Err(p) => Err(format!("panic:{p}")),
    }
}

fn show_td(td: &TypeDef) -> String {
    format!("{}\t{}\t{}", show_kind(td.kind()), u8::from(td.is_fallible()), show_kind(td.returns()))
}

fn show_const(c: Option<&Value>) -> String {
    c.map_or("-".to_string(), show_value)
}

/// names assigned somewhere in the program (`(tint v:NAME`), sorted, unique
pub fn assigned_names(dump: &str) -> Vec<String> {
    let toks: Vec<&str> = dump.split(' ').collect();
    let mut out: Vec<String> = Vec::new();
    for w in toks.windows(2) {
        if w[0] == "(tint" && w[1].starts_with("v:") {
            out.push(w[1][2..].to_string());
        }
    }
    out.sort();
    out.dedup();
    out
}

/// `Details` of a local variable of `state` through the public API (`None` = not in scope).
fn var_details(state: &TypeState, name: &str) -> Option<(TypeDef, Option<Value>)> {
    let res = vrl::compiler::compile_with_state(name, &[], state, CompileConfig::default()).ok()?;
    let roots = res.program.verif_expressions().exprs().clone();
    let root = roots.first()?;
    Some((root.type_info(state).result, root.resolve_constant(state)))
}

fn show_state(state: &TypeState, names: &[String]) -> String {
    let mut vars: Vec<String> = Vec::new();
    for n in names {
        if let Some((td, c)) = var_details(state, n) {
            vars.push(format!("v:{n}\t{}\t{}", show_td(&td), show_const(c.as_ref())));
        }
    }
    let mut s = format!(
        "S\t{}\t{}\t{}",
        show_kind(state.external.target_kind()),
        show_kind(state.external.metadata_kind()),
        vars.len()
    );
    for v in vars {
        s.push('\t');
        s.push_str(&v);
    }
    s
}

pub fn exec(op: &str, a: &[String]) -> Option<Reply> {
    match (op, a) {
        ("c01.typeinfo", [src, tk, mk]) => {
            let srct = String::from_utf8(unhex(src)?).ok()?;
            let target = parse_kind(tk)?;
            let metadata = parse_kind(mk)?;
            let program = compile_env(&srct, &target, &metadata).ok()?;
            let dump = vrl::compiler::verif::dump_program(&program);
            let names = assigned_names(&dump);
            let reply = guarded(|| {
                let mut out: Vec<String> = Vec::new();
                let mut tstate = program.initial_type_state();
                let roots = program.verif_expressions().exprs().clone();
                out.push(format!("roots\t{}", roots.len()));
                for e in &roots {
                    let constant = e.resolve_constant(&tstate);
                    let td = e.apply_type_info(&mut tstate);
                    out.push(format!("R\t{}\t{}", show_td(&td), show_const(constant.as_ref())));
                    out.push(show_state(&tstate, &names));
                }
                let fin = program.final_type_info();
                out.push(format!("F\t{}", show_td(&fin.result)));
                out.push(show_state(&fin.state, &names));
                out.join("\t")
            })
            .ok()?;
            Some(Reply { obs: vec![dump], reply })
        }
        _ => None,
    }
}

// ---------------------------------------------------------------------------------------------
// external environments

const EVENT_FIELDS: &[&str] = &["a", "b", "s", "n", "t", "arr", "obj", "q", "out"];

fn scalar_kind(rng: &mut Rng) -> Kind {
    match rng.below(12) {
        0 | 1 => Kind::bytes(),
        2 | 3 => Kind::integer(),
        4 => Kind::float(),
        5 => Kind::boolean(),
        6 => Kind::null(),
        7 => Kind::bytes().or_null(),
        8 => Kind::integer().or_float(),
        9 => Kind::timestamp(),
        10 => Kind::boolean().or_null(),
        _ => Kind::integer().or_bytes(),
    }
}

pub fn field_kind(rng: &mut Rng, depth: u32) -> Kind {
    let k = match rng.below(if depth == 0 { 6 } else { 11 }) {
        0..=4 => scalar_kind(rng),
        5 => Kind::any(),
        6 | 7 => {
            let mut known: BTreeMap<Field, Kind> = BTreeMap::new();
            for f in ["x", "y", "a", "b"] {
                if rng.chance(1, 2) {
                    known.insert(Field::from(f), field_kind(rng, depth - 1));
                }
            }
            match rng.below(3) {
                0 => Kind::object(Collection::from(known)),
                1 => Kind::object(Collection::from_parts(known, Kind::any())),
                _ => Kind::object(Collection::from_parts(known, scalar_kind(rng))),
            }
        }
        8 | 9 => {
            let mut known: BTreeMap<Index, Kind> = BTreeMap::new();
            for i in 0..rng.below(3) as usize {
                known.insert(Index::from(i), field_kind(rng, depth - 1));
            }
            match rng.below(3) {
                0 => Kind::array(Collection::from(known)),
                1 => Kind::array(Collection::from_parts(known, Kind::any())),
                _ => Kind::array(Collection::from_parts(known, scalar_kind(rng))),
            }
        }
        _ => scalar_kind(rng).or_undefined(),
    };
    if rng.chance(1, 6) { k.or_undefined() } else { k }
}

/// (target kind, metadata kind); `declared` = not the default `any` object.
pub fn gen_env(rng: &mut Rng) -> (Kind, Kind, bool) {
    if rng.chance(2, 5) {
        return (Kind::object(Collection::any()), Kind::object(Collection::any()), false);
    }
    let mut known: BTreeMap<Field, Kind> = BTreeMap::new();
    for f in EVENT_FIELDS {
        if rng.chance(3, 5) {
            known.insert(Field::from(*f), field_kind(rng, 2));
        }
    }
    let target = match rng.below(3) {
        0 => Kind::object(Collection::from(known)),
        1 => Kind::object(Collection::from_parts(known, Kind::any())),
        _ => Kind::object(Collection::from_parts(known, Kind::bytes().or_integer())),
    };
    let mut mknown: BTreeMap<Field, Kind> = BTreeMap::new();
    if rng.chance(1, 2) {
        mknown.insert(Field::from("m"), field_kind(rng, 1));
    }
    if rng.chance(1, 2) {
        mknown.insert(Field::from("k"), scalar_kind(rng));
    }
    let metadata = match rng.below(3) {
        0 => Kind::object(Collection::any()),
        1 => Kind::object(Collection::from(mknown)),
        _ => Kind::object(Collection::from_parts(mknown, Kind::any())),
    };
    (target, metadata, true)
}

// ---------------------------------------------------------------------------------------------
// call-free program generator aimed at the typing rules

#[derive(Clone, Copy, PartialEq, Debug)]
pub enum Ty {
    Int,
    Float,
    Str,
    Bool,
    Arr,
    Obj,
    Null,
    Any,
}

const PATHS: &[&str] = &[".a", ".b", ".s", ".n", ".t", ".arr", ".obj", ".obj.x", ".obj.y", ".arr[0]", ".arr[1]", ".arr[-1]", ".a.b", ".q", "%m", "%m.k", "%k", ".", "%", ".out"];
const VARS: &[&str] = &["x", "y", "z", "w"];

pub struct TGen<'a> {
    rng: &'a mut Rng,
    vars: Vec<(String, Ty)>,
    pub stats: Vec<&'static str>,
}

impl<'a> TGen<'a> {
    pub fn new(rng: &'a mut Rng) -> Self {
        TGen { rng, vars: Vec::new(), stats: Vec::new() }
    }

    fn lit(&mut self, ty: Ty) -> String {
        match ty {
            Ty::Int => (*self.rng.pick(&["0", "1", "2", "-1", "7", "3"])).to_string(),
            Ty::Float => match self.rng.below(8) {
                0 => big_float(),
                1 => format!("-{}", big_float()),
                _ => (*self.rng.pick(&["0.0", "1.5", "-2.25", "0.1", "-0.0", "100.0"])).to_string(),
            },
            Ty::Str => format!("\"{}\"", self.rng.pick(&["", "a", "b", "12", "x y"])),
            Ty::Bool => (*self.rng.pick(&["true", "false"])).to_string(),
            Ty::Null => "null".into(),
            Ty::Arr => match self.rng.below(4) {
                0 => "[]".into(),
                1 => "[1, \"s\"]".into(),
                2 => format!("[{}]", self.expr(Ty::Any, 0)),
                _ => format!("[{}, {}]", self.expr(Ty::Int, 0), self.expr(Ty::Any, 0)),
            },
            Ty::Obj => match self.rng.below(4) {
                0 => "{}".into(),
                1 => "{\"a\": 1, \"b\": \"s\"}".into(),
                2 => format!("{{\"a\": {}}}", self.expr(Ty::Any, 0)),
                _ => format!("{{\"b\": {}, \"a\": {{\"b\": {}}}}}", self.expr(Ty::Any, 0), self.expr(Ty::Int, 0)),
            },
            Ty::Any => {
                let t = *self.rng.pick(&[Ty::Int, Ty::Str, Ty::Bool, Ty::Arr, Ty::Obj, Ty::Float, Ty::Null]);
                self.lit(t)
            }
        }
    }

    fn var_of(&mut self, ty: Ty) -> Option<String> {
        let c: Vec<String> = self.vars.iter().filter(|(_, t)| *t == ty || ty == Ty::Any).map(|(n, _)| n.clone()).collect();
        if c.is_empty() { None } else { Some(self.rng.pick(&c).clone()) }
    }

    fn path(&mut self) -> String {
        (*self.rng.pick(PATHS)).to_string()
    }

    /// a query: external path, variable path, or a path into a container expression
    fn query(&mut self, depth: u32) -> String {
        match self.rng.below(6) {
            0..=2 => self.path(),
            3 | 4 => match self.var_of(Ty::Any) {
                Some(v) => match self.rng.below(4) {
                    0 => v,
                    1 => format!("{v}.a"),
                    2 => format!("{v}[{}]", self.rng.pick(&["0", "1", "-1"])),
                    _ => format!("{v}.a.b"),
                },
                None => self.path(),
            },
            _ => {
                self.stats.push("qexpr");
                if self.rng.chance(1, 2) {
                    format!("{}.{}", self.block(Ty::Obj, depth.min(1)), self.rng.pick(&["a", "b", "a.b"]))
                } else {
                    format!("{}[{}]", self.lit(Ty::Arr), self.rng.pick(&["0", "1", "-1", "5"]))
                }
            }
        }
    }

    fn fallible(&mut self, ty: Ty, depth: u32) -> String {
        self.stats.push("fallible");
        let d = depth.saturating_sub(1);
        match ty {
            Ty::Int => match self.rng.below(3) {
                0 => format!("({} + {})", self.query(d), self.expr(Ty::Int, d)),
                1 => format!("({} * {})", self.expr(Ty::Int, d), self.query(d)),
                _ => format!("({} - {})", self.query(d), self.expr(Ty::Int, d)),
            },
            Ty::Float => match self.rng.below(4) {
                0 => format!("({} / {})", self.expr(Ty::Int, d), self.query(d)),
                1 => format!("({} / {})", self.expr(Ty::Float, d), self.expr(Ty::Int, d)),
                2 => format!("({} / {})", self.query(d), self.lit(Ty::Int)),
                _ => format!("({} * {})", self.query(d), self.lit(Ty::Float)),
            },
            Ty::Str => format!("({} + {})", self.query(d), self.expr(Ty::Str, d)),
            Ty::Bool => match self.rng.below(3) {
                0 => format!("({} > {})", self.query(d), self.expr(Ty::Int, d)),
                1 => format!("({} && {})", self.query(d), self.expr(Ty::Bool, d)),
                _ => format!("({} <= {})", self.expr(Ty::Str, d), self.query(d)),
            },
            Ty::Obj => format!("({} | {})", self.query(d), self.expr(Ty::Obj, d)),
            _ => {
                let t = *self.rng.pick(&[Ty::Int, Ty::Str, Ty::Bool, Ty::Obj, Ty::Float]);
                self.fallible(t, depth)
            }
        }
    }

    fn escape(&mut self, depth: u32) -> String {
        match self.rng.below(4) {
            0 => {
                self.stats.push("abort");
                "abort".into()
            }
            1 => {
                self.stats.push("abort_msg");
                format!("abort {}", self.expr(Ty::Str, depth.min(1)))
            }
            _ => {
                self.stats.push("return");
                format!("return {}", self.expr(Ty::Any, depth.min(1)))
            }
        }
    }

    fn block(&mut self, ty: Ty, depth: u32) -> String {
        self.stats.push("block");
        let mut parts = Vec::new();
        let saved = self.vars.len();
        for _ in 0..self.rng.below(3) {
            parts.push(self.stmt(depth));
        }
        if self.rng.chance(1, 8) {
            parts.push(self.escape(depth));
        }
        parts.push(self.expr(ty, depth));
        self.vars.truncate(saved);
        format!("{{ {} }}", parts.join("; "))
    }

    fn compact_arg(&mut self, depth: u32) -> String {
        match self.rng.below(7) {
            0 | 1 => String::new(),
            2 => ", true".into(),
            3 => ", compact: false".into(),
            4 => match self.var_of(Ty::Bool) {
                Some(v) => format!(", compact: {v}"),
                None => ", compact: true".into(),
            },
            5 => format!(", compact: {}", self.expr(Ty::Bool, depth.min(1))),
            _ => format!(", {}", self.query(0)),
        }
    }

    pub fn expr(&mut self, ty: Ty, depth: u32) -> String {
        if depth == 0 {
            return match self.rng.below(5) {
                0 | 1 => self.lit(ty),
                2 | 3 => self.var_of(ty).unwrap_or_else(|| self.lit(ty)),
                _ => if ty == Ty::Any { self.path() } else { self.lit(ty) },
            };
        }
        let d = depth - 1;
        match self.rng.below(18) {
            0 => self.lit(ty),
            1 => self.var_of(ty).unwrap_or_else(|| self.lit(ty)),
            2 => {
                self.stats.push("coalesce");
                format!("({} ?? {})", self.fallible(ty, d), self.expr(ty, d))
            }
            3 => {
                self.stats.push("if_else");
                format!("if {} {} else {}", self.expr(Ty::Bool, d), self.block(ty, d), self.block(ty, d))
            }
            4 => self.block(ty, d),
            5 => {
                self.stats.push("or");
                format!("({} || {})", self.query(d), self.expr(ty, d))
            }
            6 if ty == Ty::Any => {
                self.stats.push("if_noelse");
                format!("if {} {}", self.expr(Ty::Bool, d), self.block(Ty::Any, d))
            }
            7 if ty == Ty::Any => {
                self.stats.push("asg_expr");
                format!("({})", self.assignment(d))
            }
            8 => {
                self.stats.push("coalesce_side");
                // the lhs has side effects before it may fail
                format!("({{ {}; {} }} ?? {})", self.stmt(d), self.fallible(ty, d), self.expr(ty, d))
            }
            _ => match ty {
                Ty::Int => match self.rng.below(4) {
                    0 => format!("({} + {})", self.expr(Ty::Int, d), self.expr(Ty::Int, d)),
                    1 => format!("({} - {})", self.expr(Ty::Int, d), self.expr(Ty::Int, d)),
                    2 => format!("({} * {})", self.expr(Ty::Int, d), self.expr(Ty::Int, d)),
                    _ => self.lit(ty),
                },
                Ty::Float => match self.rng.below(7) {
                    0 => format!("({} + {})", self.expr(Ty::Float, d), self.expr(Ty::Int, d)),
                    1 => format!("({} * {})", self.expr(Ty::Float, d), self.expr(Ty::Float, d)),
                    2 => format!("({} - {})", self.expr(Ty::Int, d), self.expr(Ty::Float, d)),
                    3 => format!("({} / {})", self.expr(Ty::Int, d), self.rng.pick(&["4", "2.5", "-1", "0", "0.0", "-0.0"])),
                    4 => match self.var_of(Ty::Int) {
                        // division by a variable holding a constant
                        Some(v) => format!("({} / {v})", self.expr(Ty::Float, d)),
                        None => self.lit(ty),
                    },
                    5 => format!("({} / {})", self.expr(Ty::Float, d), self.expr(Ty::Int, d)),
                    _ => self.lit(ty),
                },
                Ty::Str => match self.rng.below(4) {
                    0 => format!("({} + {})", self.expr(Ty::Str, d), self.expr(Ty::Str, d)),
                    1 => format!("({} * {})", self.expr(Ty::Str, d), self.rng.range(-1, 3)),
                    2 => format!("({} + {})", self.expr(Ty::Str, d), self.expr(Ty::Null, d)),
                    _ => self.lit(ty),
                },
                Ty::Bool => match self.rng.below(11) {
                    0 => format!("({} == {})", self.expr(Ty::Any, d), self.expr(Ty::Any, d)),
                    1 => format!("({} != {})", self.expr(Ty::Any, d), self.expr(Ty::Any, d)),
                    2 => format!("({} < {})", self.expr(Ty::Int, d), self.expr(Ty::Int, d)),
                    3 => format!("({} >= {})", self.expr(Ty::Str, d), self.expr(Ty::Str, d)),
                    4 => format!("({} <= {})", self.expr(Ty::Float, d), self.expr(Ty::Int, d)),
                    5 => format!("({} && {})", self.expr(Ty::Bool, d), self.expr(Ty::Bool, d)),
                    6 => format!("({} || {})", self.expr(Ty::Bool, d), self.expr(Ty::Bool, d)),
                    7 => format!("!{}", self.expr(Ty::Bool, d)),
                    8 => {
                        self.stats.push("exists");
                        format!("exists({})", self.query(d))
                    }
                    9 => format!("({} && {})", self.expr(Ty::Null, d), self.expr(Ty::Bool, d)),
                    _ => self.lit(ty),
                },
                Ty::Arr => match self.rng.below(3) {
                    0 => format!("[{}, {}]", self.expr(Ty::Any, d), self.expr(Ty::Any, d)),
                    1 => format!("[{}, {}, {}]", self.query(d), self.block(Ty::Any, d), self.expr(Ty::Any, d)),
                    _ => self.lit(ty),
                },
                Ty::Obj => match self.rng.below(4) {
                    0 => format!("({} | {})", self.expr(Ty::Obj, d), self.expr(Ty::Obj, d)),
                    1 => format!("{{\"a\": {}, \"b\": {}}}", self.expr(Ty::Any, d), self.query(d)),
                    2 => format!("{{\"k\": {}, \"a\": {{\"b\": {}}}}}", self.block(Ty::Any, d), self.expr(Ty::Any, d)),
                    _ => self.lit(ty),
                },
                Ty::Null => match self.rng.below(3) {
                    0 => "null".into(),
                    _ => format!("{{ {}; null }}", self.stmt(d)),
                },
                Ty::Any => match self.rng.below(6) {
                    0 | 1 => self.query(d),
                    2 => {
                        self.stats.push("del");
                        format!("del({}{})", self.query(d), self.compact_arg(d))
                    }
                    _ => {
                        let t = *self.rng.pick(&[Ty::Int, Ty::Str, Ty::Bool, Ty::Arr, Ty::Obj, Ty::Float, Ty::Null]);
                        self.expr(t, d)
                    }
                },
            },
        }
    }

    fn target(&mut self) -> (String, bool) {
        match self.rng.below(10) {
            0..=2 => ((*self.rng.pick(VARS)).to_string(), true),
            3 | 4 => {
                let v = *self.rng.pick(VARS);
                (format!("{v}{}", self.rng.pick(&[".a", ".b", ".a.b", "[1]", "[-1]", "[0].a", ".a[2]", "[-2]"])), true)
            }
            _ => ((*self.rng.pick(&[".a", ".b", ".out", ".obj.y", ".obj.x.z", ".arr[1]", ".arr[-1]", ".arr[3]", ".a.b", ".n", "%m", "%m.k", ".new[2]", ".", "%", ".s", ".q[0].a"])).to_string(), false),
        }
    }

    fn note_assigned(&mut self, t: &str, is_var: bool, ty: Ty) {
        if !is_var {
            return;
        }
        let base: String = t.split(['.', '[']).next().unwrap().to_string();
        let whole = base == t;
        self.vars.retain(|(n, _)| n != &base);
        self.vars.push((base, if whole { ty } else { Ty::Any }));
    }

    fn assignment(&mut self, depth: u32) -> String {
        let ty = *self.rng.pick(&[Ty::Int, Ty::Str, Ty::Bool, Ty::Arr, Ty::Obj, Ty::Any, Ty::Float, Ty::Null]);
        let (t, is_var) = self.target();
        if self.rng.chance(1, 4) {
            self.stats.push("iasg");
            let rhs = if self.rng.chance(1, 5) {
                format!("{{ {}; {} }}", self.stmt(depth), self.fallible(ty, depth))
            } else {
                self.fallible(ty, depth)
            };
            let errv = *self.rng.pick(&["err", "e2", "_", ".err", "x.e"]);
            let okt = if self.rng.chance(1, 8) && errv != "_" { "_".to_string() } else { t.clone() };
            if okt != "_" {
                self.note_assigned(&okt, is_var, Ty::Any);
            }
            if errv != "_" && !errv.starts_with('.') {
                self.note_assigned(errv, true, Ty::Any);
            }
            format!("{okt}, {errv} = {rhs}")
        } else {
            let rhs = self.expr(ty, depth);
            self.note_assigned(&t, is_var, ty);
            if self.rng.chance(1, 10) && ty == Ty::Obj {
                format!("{t} |= {rhs}")
            } else {
                format!("{t} = {rhs}")
            }
        }
    }

    pub fn stmt(&mut self, depth: u32) -> String {
        match self.rng.below(12) {
            0..=5 => self.assignment(depth),
            6 => {
                self.stats.push("del");
                format!("del({}{})", self.query(depth), self.compact_arg(depth))
            }
            7 => {
                self.stats.push("if_noelse");
                let c = self.expr(Ty::Bool, depth);
                let b = self.block(Ty::Any, depth);
                format!("if {c} {b}")
            }
            8 => {
                self.stats.push("if_escape");
                let c = self.expr(Ty::Bool, depth);
                let e = self.escape(depth);
                format!("if {c} {{ {e} }}")
            }
            9 => {
                self.stats.push("if_else_stmt");
                format!("if {} {} else {}", self.expr(Ty::Bool, depth), self.block(Ty::Any, depth), self.block(Ty::Any, depth))
            }
            _ => self.expr(Ty::Any, depth),
        }
    }

    pub fn program(&mut self) -> String {
        let n = 1 + self.rng.below(5);
        let mut parts = Vec::new();
        for _ in 0..n {
            parts.push(self.stmt(2));
        }
        if self.rng.chance(1, 10) {
            parts.push(self.escape(1));
        }
        let names: Vec<String> = self.vars.iter().map(|(n, _)| n.clone()).collect();
        if !names.is_empty() && self.rng.chance(1, 2) {
            parts.push(format!("[{}]", names.join(", ")));
        } else {
            parts.push(self.expr(Ty::Any, 2));
        }
        parts.join("\n")
    }
}

/// fixed programs exercising each typing rule (and each known quirk) once
pub const FIXED: &[&str] = &[
    "x = 1\nx",
    "x = {\"a\": 2}\ndel(x.a)\n10 / x.a",
    "x.a.b = 1\nx",
    "x[2] = \"s\"\nx",
    "x = [1, 2]\nx[-1] = \"s\"\nx",
    ".a.b = 1\n.",
    ".arr[-1] = 1\n.arr",
    "%m.k = 1\n%",
    ". = {\"a\": 1}\n.a",
    "if .a == 1 { x = 1 } else { x = \"s\" }\n.n",
    "x = 1\nif .a == 1 { x = \"s\" }\nx",
    "x = 1\nif .a == 1 { x = \"s\"; y = 2 } else { x = 2.5 }\nx",
    "x = 0.0\nif .a == 1 { x = -0.0 }\nx",
    "x = 1\n(.a || (x = \"s\"))\nx",
    "(.a || (x = 1))\n.n",
    "x = 1\n((.t == true) && { x = \"s\"; true })\nx",
    "x = 1\n({ x = \"s\"; 1 / .n } ?? 0)\nx",
    "x = 1\ny = { x = \"s\"; z = 2; x }\n[x, y]",
    "x = 5\n.r = 10 / x",
    "x = 0\n.r = (10 / x ?? 1)",
    "x = 2.5\n10 / x",
    ".r = 1.5 * 10.0",
    "x = 2.5 * 2\nx",
    ".r = 1.5 + .n ?? 0",
    "del(.a)",
    "del(.obj.x, compact: true)",
    "del(.obj.x, compact: false)",
    "c = true\ndel(.obj.x, compact: c)",
    "del(.obj.x, compact: .t == true)",
    "del(.)",
    "del(%m)",
    "x = {\"a\": {\"b\": 1}}\ndel(x.a.b, compact: true)\nx",
    "del({\"a\": 1}.a)",
    "exists(.a)",
    "x = {}\nexists(x.a)",
    "exists({ y = 1; {\"a\": y} }.a)",
    "if .a == 1 { return 1 }\n.b = 2\n.b",
    "return { .c = 1; 2 }",
    "if .a == 1 { abort }\n1",
    "abort \"msg\"",
    "x, err = 1 / .n\n[x, err]",
    ".r, err = .a + 1\n.",
    "x.a, _ = .a * 2\nx",
    "_, err = .a - 1\nerr",
    "x, err = { y = 1; y / .n }\nx",
    "[1, .a, {\"k\": .b}]",
    "{\"a\": .zz, \"b\": [.a]}",
    "[1, { return 2 }, 3]",
    "{\"a\": { abort }, \"b\": 1}",
    "x = [.a, 2]\nx[0]",
    "x = {\"a\": .a}\nx.a.b",
    "{ x = 1; x }.a",
    ".a == 1 && .b == 2",
    "null && (.x = 1)\n.",
    "false || (.x = 1)\n.",
    "true || (.x = 1)\n.",
    "(true && (.x = 1))\n.",
    "x = {\"a\": {\"b\": 1}}\nx | {\"a\": 2, \"c\": null}",
    "{\"a\": 1} | {\"b\": \"s\"}",
    "x = {\"a\": 1}\nx |= {\"z\": \"s\"}\nx",
    "\"a\" + \"b\"",
    "\"a\" * 3",
    "3 * \"a\"",
    "\"a\" + null",
    "\"a\" < \"b\"",
    "1 < 2.5",
    "!(.a == 1)",
    "x = 1\n{ x = \"s\" }\nx",
    "{ q = 1 }\n.n",
    "x = 1\ny = x\nx = \"s\"\n[x, y]",
    "x = [1]\nx[0] = 2\nx",
    "x = {\"a\": 1}\nx.b = x.a + 1\nx",
    "x = {\"a\": 1.5}\nx.a * 2",
    "t'2021-01-01T00:00:00Z' < t'2022-01-01T00:00:00Z'",
    "r'a+'",
    "({ if .a == 1 { return \"x\" }; 2 } / 2)",
    "({ 1 / .n; null } && true)",
    "x = \"s\"\n(5 / (x = 2) ?? 0)\nx",
];

/// the decimal literal of 1e308 (VRL has no exponent syntax)
pub fn big_float() -> String {
    format!("1{}.0", "0".repeat(308))
}

pub fn hex_src(s: &str) -> String {
    hex(s.as_bytes())
}

pub fn generate(sink: &mut Sink, rng: &mut Rng, n: u64) {
    let any = show_kind(&Kind::object(Collection::any()));
    for src in FIXED {
        if sink.emit("c01.typeinfo", &[hex_src(src), any.clone(), any.clone()]).is_some() {
            sink.count("tinfo:fixed");
        } else {
            sink.count("tinfo:fixed_rejected");
        }
    }
    let big = big_float();
    for src in [
        format!(".r = {big} * 10.0"),
        format!("x = {big} * 10\ny = x - x"),
        format!("x = {big} * 10\n(x - x) ?? 0.0"),
        format!("x = -{big}\n(x * 10) + ({big} * 10) ?? 1.5"),
        format!("10 / {big}"),
    ] {
        if sink.emit("c01.typeinfo", &[hex_src(&src), any.clone(), any.clone()]).is_some() {
            sink.count("tinfo:fixed");
        } else {
            sink.count("tinfo:fixed_rejected");
        }
    }
    let mut accepted = 0u64;
    let mut tried = 0u64;
    while accepted < n && tried < n * 30 {
        tried += 1;
        let use_lang = rng.chance(1, 5);
        let mut forms: Vec<&'static str> = Vec::new();
        let src = if use_lang {
            let mut g = crate::lang::Gen::new(rng);
            g.program()
        } else {
            let mut g = TGen::new(rng);
            let s = g.program();
            forms = g.stats.clone();
            s
        };
        let (tk, mk, declared) = gen_env(rng);
        let (stk, smk) = (show_kind(&tk), show_kind(&mk));
        if parse_kind(&stk).is_none() || parse_kind(&smk).is_none() {
            sink.count("tinfo:env_not_constructible");
            continue;
        }
        match sink.emit("c01.typeinfo", &[hex_src(&src), stk, smk]) {
            Some(_) => {
                accepted += 1;
                for st in forms {
                    sink.count(&format!("tinfo:form:{st}"));
                }
                sink.count(if use_lang { "tinfo:accepted_lang_gen" } else { "tinfo:accepted_tgen" });
                sink.count(if declared { "tinfo:env_declared" } else { "tinfo:env_any" });
            }
            None => sink.count("tinfo:rejected_by_compiler"),
        }
    }
}
